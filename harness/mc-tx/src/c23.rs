//! C23 — schema compatibility checks are sound.
//!
//! Statement: when the schema comparison reports that a new schema is a valid extension of an old one, every
//! payload valid under the old schema is valid under the new one; when it reports equality, the two schemas accept
//! exactly the same payloads.
//!
//! Bounded-exhaustive enumeration (basic SBOR, `NoCustomSchema`):
//!  * base types: every type tree of depth <= 2 over leaves {Any, Bool, U8, U8 with 3 range shapes, String, String
//!    with 2 length bounds} and composite forms {Tuple of 0/1/2 fields, Enum with 1-2 variants x <=1 field (incl.
//!    a non-zero discriminator), Array (no bound / 2 length bounds), Map (no bound / 1 bound)}, children of the
//!    second level taken from a reduced set, plus two self-recursive types; each compiled to a real `SchemaV1`
//!    (only schemas that pass `validate_schema` are used);
//!  * edits, applied at every position of the type tree: identity; add / remove / renumber an enum variant; reorder
//!    variants; add / remove / swap tuple or variant fields; change a leaf's kind; widen / narrow / drop / add a
//!    numeric range; widen / narrow / drop / add a length bound; replace the subtree with Any; rename type / field /
//!    variant; drop field names; and at schema level: add an unreachable type, duplicate a type (structural alias);
//!  * settings presets: `require_equality` and `allow_extension`, each with and without `allow_all_name_changes`,
//!    plus `allow_extension` with completeness checks relaxed.
//! For each (base, edited, preset) the real `compare_single_type_schemas` is run. Payload set P =
//! schema_directed(base) ∪ schema_directed(edited) (complete for these tiny schemas within the bound; includes the
//! just-out-of-range values and one undeclared enum variant), validity decided by the real
//! `validate_payload_against_schema`.
//! Oracle: reported valid under an extension preset => every p in P valid under base is valid under edited;
//! reported valid under an equality preset => base and edited accept exactly the same members of P.
//! The converse (payload-compatible edits reported invalid) is allowed and only counted.
use crate::minrec::MinRec;
use crate::schemagen::*;
use mc_core::{par_range, Ctx, Level, Local};
use sbor::basic_well_known_types::*;
use sbor::rust::prelude::*;
use sbor::*;
use serde_json::{json, Map};
use std::borrow::Cow;

static MIN: MinRec = MinRec::new();

type Range8 = (Option<u8>, Option<u8>);
type Len = (Option<u32>, Option<u32>);

#[derive(Clone, Debug, PartialEq, Eq, Hash, PartialOrd, Ord)]
pub enum Ty {
    Any,
    Bool,
    U8(Option<Range8>),
    Str(Option<Len>),
    /// fields, field names present?
    Tuple(Vec<Ty>, bool),
    /// (discriminator, fields)
    Enum(Vec<(u8, Vec<Ty>)>),
    Array(Box<Ty>, Option<Len>),
    Map(Box<Ty>, Box<Ty>, Option<Len>),
    /// reference back to the root type
    Rec,
}

/// Names attached when compiling: `salt` changes every name (a "rename everything at this node" edit is expressed
/// by wrapping: see `Renamed`).
#[derive(Clone, Debug, PartialEq, Eq, Hash, PartialOrd, Ord)]
pub struct Spec {
    pub ty: Ty,
    /// path (child indexes) of a node whose type/field/variant names are changed; kind: 0 type, 1 fields, 2 variants
    pub rename: Option<(Vec<usize>, u8)>,
    /// schema-level extras
    pub unreachable_type: bool,
    /// structurally identical subtrees share one local type (otherwise every node gets its own local type):
    /// comparing a sharing schema with a non-sharing one is the "structural alias" edit, in both directions
    pub share: bool,
}

impl Spec {
    fn plain(ty: Ty) -> Spec {
        Spec { ty, rename: None, unreachable_type: false, share: false }
    }
}

struct Compiler {
    shared: std::collections::BTreeMap<Ty, LocalTypeId>,
    kinds: Vec<LocalTypeKind<NoCustomSchema>>,
    metadata: Vec<TypeMetadata>,
    validations: Vec<TypeValidation<NoCustomTypeValidation>>,
}

fn cow(s: String) -> Cow<'static, str> {
    Cow::Owned(s)
}

impl Compiler {
    fn alloc(&mut self) -> usize {
        self.kinds.push(TypeKind::Any);
        self.metadata.push(TypeMetadata::unnamed());
        self.validations.push(TypeValidation::None);
        self.kinds.len() - 1
    }
    /// Compile `ty` located at `path`; returns its type id.
    fn compile(&mut self, ty: &Ty, path: &mut Vec<usize>, spec: &Spec, root_slot: Option<usize>) -> LocalTypeId {
        let flags: [bool; 3] = [0u8, 1, 2].map(|k| spec.rename.as_ref().map(|(p, kk)| p == path && *kk == k).unwrap_or(false));
        let renamed = move |k: u8| flags[k as usize];
        let tname = |base: &str| -> Option<Cow<'static, str>> { Some(cow(if renamed(0) { format!("{base}Renamed") } else { base.to_string() })) };
        match ty {
            Ty::Any => LocalTypeId::WellKnown(ANY_TYPE),
            Ty::Bool => LocalTypeId::WellKnown(BOOL_TYPE),
            Ty::U8(None) => LocalTypeId::WellKnown(U8_TYPE),
            Ty::Str(None) => LocalTypeId::WellKnown(STRING_TYPE),
            Ty::Rec => LocalTypeId::SchemaLocalIndex(root_slot.expect("Rec needs a local root")),
            Ty::U8(Some((lo, hi))) => {
                let i = self.alloc();
                self.kinds[i] = TypeKind::U8;
                self.metadata[i] = TypeMetadata { type_name: tname("SmallNumber"), child_names: None };
                self.validations[i] = TypeValidation::U8(NumericValidation::with_bounds(*lo, *hi));
                LocalTypeId::SchemaLocalIndex(i)
            }
            Ty::Str(Some((lo, hi))) => {
                let i = self.alloc();
                self.kinds[i] = TypeKind::String;
                self.metadata[i] = TypeMetadata { type_name: tname("ShortString"), child_names: None };
                self.validations[i] = TypeValidation::String(LengthValidation { min: *lo, max: *hi });
                LocalTypeId::SchemaLocalIndex(i)
            }
            Ty::Tuple(fields, named) => {
                let i = self.alloc();
                let root_slot = root_slot.or(Some(i));
                let mut ids = vec![];
                for (j, f) in fields.iter().enumerate() {
                    path.push(j);
                    ids.push(self.compile_child(f, path, spec, root_slot));
                    path.pop();
                }
                self.kinds[i] = TypeKind::Tuple { field_types: ids };
                let fnames = if *named { Some(ChildNames::NamedFields((0..fields.len()).map(|j| cow(if renamed(1) { format!("renamed_field_{j}") } else { format!("field_{j}") })).collect())) } else { None };
                self.metadata[i] = TypeMetadata { type_name: tname("MyTuple"), child_names: fnames };
                LocalTypeId::SchemaLocalIndex(i)
            }
            Ty::Enum(variants) => {
                let i = self.alloc();
                let root_slot = root_slot.or(Some(i));
                let mut vs: IndexMap<u8, Vec<LocalTypeId>> = IndexMap::default();
                let mut vm: IndexMap<u8, TypeMetadata> = IndexMap::default();
                let mut child = 0usize;
                for (d, fields) in variants {
                    let mut ids = vec![];
                    for f in fields {
                        path.push(child);
                        ids.push(self.compile_child(f, path, spec, root_slot));
                        path.pop();
                        child += 1;
                    }
                    vm.insert(
                        *d,
                        TypeMetadata {
                            type_name: Some(cow(if renamed(2) { format!("RenamedVariant{d}") } else { format!("Variant{d}") })),
                            child_names: if fields.is_empty() { None } else { Some(ChildNames::NamedFields((0..fields.len()).map(|j| cow(if renamed(1) { format!("renamed_{j}") } else { format!("f{j}") })).collect())) },
                        },
                    );
                    vs.insert(*d, ids);
                }
                self.kinds[i] = TypeKind::Enum { variants: vs };
                self.metadata[i] = TypeMetadata { type_name: tname("MyEnum"), child_names: Some(ChildNames::EnumVariants(vm)) };
                LocalTypeId::SchemaLocalIndex(i)
            }
            Ty::Array(elem, len) => {
                let i = self.alloc();
                let root_slot = root_slot.or(Some(i));
                path.push(0);
                let e = self.compile_child(elem, path, spec, root_slot);
                path.pop();
                self.kinds[i] = TypeKind::Array { element_type: e };
                self.metadata[i] = TypeMetadata { type_name: tname("MyArray"), child_names: None };
                self.validations[i] = match len {
                    None => TypeValidation::None,
                    Some((lo, hi)) => TypeValidation::Array(LengthValidation { min: *lo, max: *hi }),
                };
                LocalTypeId::SchemaLocalIndex(i)
            }
            Ty::Map(k, v, len) => {
                let i = self.alloc();
                let root_slot = root_slot.or(Some(i));
                path.push(0);
                let kk = self.compile_child(k, path, spec, root_slot);
                path.pop();
                path.push(1);
                let vv = self.compile_child(v, path, spec, root_slot);
                path.pop();
                self.kinds[i] = TypeKind::Map { key_type: kk, value_type: vv };
                self.metadata[i] = TypeMetadata { type_name: tname("MyMap"), child_names: None };
                self.validations[i] = match len {
                    None => TypeValidation::None,
                    Some((lo, hi)) => TypeValidation::Map(LengthValidation { min: *lo, max: *hi }),
                };
                LocalTypeId::SchemaLocalIndex(i)
            }
        }
    }
    fn compile_child(&mut self, ty: &Ty, path: &mut Vec<usize>, spec: &Spec, root_slot: Option<usize>) -> LocalTypeId {
        fn has_rec(t: &Ty) -> bool {
            *t == Ty::Rec || children(t).into_iter().any(has_rec)
        }
        if spec.share && !has_rec(ty) {
            if let Some(id) = self.shared.get(ty) {
                return *id;
            }
            let id = self.compile(ty, path, spec, root_slot);
            self.shared.insert(ty.clone(), id);
            return id;
        }
        self.compile(ty, path, spec, root_slot)
    }
}

pub fn compile(spec: &Spec) -> Option<SingleTypeSchema<NoCustomSchema>> {
    let mut c = Compiler { shared: Default::default(), kinds: vec![], metadata: vec![], validations: vec![] };
    let mut path = vec![];
    let root = c.compile(&spec.ty, &mut path, spec, None);
    if spec.unreachable_type {
        let i = c.alloc();
        c.kinds[i] = TypeKind::Tuple { field_types: vec![] };
        c.metadata[i] = TypeMetadata { type_name: Some(cow("Unreachable".into())), child_names: None };
    }
    let schema = SchemaV1::<NoCustomSchema> { type_kinds: c.kinds, type_metadata: c.metadata, type_validations: c.validations };
    if schema.validate().is_err() {
        return None;
    }
    Some(SingleTypeSchema::new(VersionedSchema::from_latest_version(schema), root))
}

// ---------------------------------------------------------------------------------------------------------------
// base types
// ---------------------------------------------------------------------------------------------------------------

fn leaves() -> Vec<Ty> {
    vec![
        Ty::Any,
        Ty::Bool,
        Ty::U8(None),
        Ty::U8(Some((Some(1), Some(3)))),
        Ty::U8(Some((None, Some(2)))),
        Ty::U8(Some((Some(2), None))),
        Ty::Str(None),
        Ty::Str(Some((Some(1), Some(2)))),
        Ty::Str(Some((None, Some(1)))),
    ]
}

fn composites_over(children: &[Ty], pair_children: &[Ty]) -> Vec<Ty> {
    let mut v = vec![Ty::Tuple(vec![], true), Ty::Enum(vec![(0, vec![])])];
    for x in children {
        v.push(Ty::Tuple(vec![x.clone()], true));
        v.push(Ty::Enum(vec![(0, vec![x.clone()])]));
        v.push(Ty::Enum(vec![(0, vec![]), (1, vec![x.clone()])]));
        v.push(Ty::Enum(vec![(7, vec![x.clone()])]));
        v.push(Ty::Array(Box::new(x.clone()), None));
        v.push(Ty::Array(Box::new(x.clone()), Some((Some(1), Some(2)))));
        v.push(Ty::Array(Box::new(x.clone()), Some((None, Some(1)))));
    }
    for x in pair_children {
        for y in pair_children {
            v.push(Ty::Tuple(vec![x.clone(), y.clone()], true));
            v.push(Ty::Enum(vec![(0, vec![x.clone()]), (1, vec![y.clone()])]));
            v.push(Ty::Map(Box::new(x.clone()), Box::new(y.clone()), None));
            v.push(Ty::Map(Box::new(x.clone()), Box::new(y.clone()), Some((None, Some(1)))));
        }
    }
    v
}

pub fn base_types(thorough: bool) -> Vec<Ty> {
    let l = leaves();
    let mut v: Vec<Ty> = l.clone();
    let d1 = composites_over(&l, &l);
    v.extend(d1.clone());
    // second level: children from a reduced composite set
    let k: Vec<Ty> = vec![
        Ty::Tuple(vec![], true),
        Ty::Tuple(vec![Ty::U8(Some((Some(1), Some(3))))], true),
        Ty::Enum(vec![(0, vec![]), (1, vec![Ty::U8(None)])]),
        Ty::Array(Box::new(Ty::U8(None)), Some((None, Some(1)))),
        Ty::Array(Box::new(Ty::Bool), None),
        Ty::Map(Box::new(Ty::U8(None)), Box::new(Ty::Bool), None),
    ];
    let k_pairs: Vec<Ty> = k.iter().cloned().chain([Ty::Bool, Ty::U8(Some((Some(1), Some(3))))]).collect();
    v.extend(composites_over(&k, &k_pairs));
    if thorough {
        // every depth-1 composite as the single child of each one-child form, and a third level over the reduced set
        for x in &d1 {
            v.push(Ty::Tuple(vec![x.clone()], true));
            v.push(Ty::Enum(vec![(0, vec![]), (1, vec![x.clone()])]));
            v.push(Ty::Array(Box::new(x.clone()), Some((None, Some(1)))));
            v.push(Ty::Map(Box::new(Ty::U8(None)), Box::new(x.clone()), None));
        }
        let k2: Vec<Ty> = vec![
            Ty::Tuple(vec![k[2].clone()], true),
            Ty::Enum(vec![(0, vec![k[1].clone()]), (1, vec![k[3].clone()])]),
            Ty::Array(Box::new(k[2].clone()), Some((Some(1), Some(2)))),
            Ty::Map(Box::new(Ty::U8(Some((Some(1), Some(3))))), Box::new(k[2].clone()), None),
        ];
        v.extend(composites_over(&k2, &k2));
        // every depth-1 composite next to a sibling in each two-child form
        let sib = Ty::U8(Some((Some(1), Some(3))));
        for x in &d1 {
            v.push(Ty::Tuple(vec![x.clone(), sib.clone()], true));
            v.push(Ty::Tuple(vec![sib.clone(), x.clone()], false));
            v.push(Ty::Enum(vec![(0, vec![x.clone()]), (1, vec![sib.clone()])]));
            v.push(Ty::Enum(vec![(3, vec![sib.clone()]), (9, vec![x.clone()])]));
            v.push(Ty::Map(Box::new(sib.clone()), Box::new(x.clone()), Some((None, Some(1)))));
            v.push(Ty::Array(Box::new(Ty::Tuple(vec![x.clone()], true)), None));
        }
    }
    // recursive types
    v.push(Ty::Enum(vec![(0, vec![]), (1, vec![Ty::Rec])]));
    v.push(Ty::Tuple(vec![Ty::Array(Box::new(Ty::Rec), Some((None, Some(2))))], true));
    v.push(Ty::Enum(vec![(0, vec![Ty::U8(Some((Some(1), Some(3))))]), (1, vec![Ty::Rec])]));
    v.sort();
    v.dedup();
    v
}

// ---------------------------------------------------------------------------------------------------------------
// edits
// ---------------------------------------------------------------------------------------------------------------

fn children_mut(t: &mut Ty) -> Vec<&mut Ty> {
    match t {
        Ty::Tuple(f, _) => f.iter_mut().collect(),
        Ty::Enum(vs) => vs.iter_mut().flat_map(|(_, f)| f.iter_mut()).collect(),
        Ty::Array(e, _) => vec![e.as_mut()],
        Ty::Map(k, v, _) => vec![k.as_mut(), v.as_mut()],
        _ => vec![],
    }
}
fn children(t: &Ty) -> Vec<&Ty> {
    match t {
        Ty::Tuple(f, _) => f.iter().collect(),
        Ty::Enum(vs) => vs.iter().flat_map(|(_, f)| f.iter()).collect(),
        Ty::Array(e, _) => vec![e.as_ref()],
        Ty::Map(k, v, _) => vec![k.as_ref(), v.as_ref()],
        _ => vec![],
    }
}
fn all_paths(t: &Ty, path: &mut Vec<usize>, out: &mut Vec<Vec<usize>>) {
    out.push(path.clone());
    for (i, c) in children(t).into_iter().enumerate() {
        path.push(i);
        all_paths(c, path, out);
        path.pop();
    }
}
fn at_mut<'a>(t: &'a mut Ty, path: &[usize]) -> &'a mut Ty {
    if path.is_empty() {
        return t;
    }
    let mut c = children_mut(t);
    let n = c.remove(path[0]);
    at_mut(n, &path[1..])
}
fn at<'a>(t: &'a Ty, path: &[usize]) -> &'a Ty {
    if path.is_empty() {
        return t;
    }
    at(children(t)[path[0]], &path[1..])
}

fn bump(lo: Option<u32>, hi: Option<u32>) -> Vec<Len> {
    let mut v = vec![];
    if let Some(h) = hi {
        v.push((lo, Some(h + 1)));
        if h > 0 {
            v.push((lo, Some(h - 1)));
        }
        v.push((lo, None));
    } else {
        v.push((lo, Some(2)));
    }
    if let Some(l) = lo {
        v.push((Some(l + 1), hi));
        if l > 0 {
            v.push((Some(l - 1), hi));
        }
        v.push((None, hi));
    } else {
        v.push((Some(1), hi));
    }
    v
}

/// All single-node replacements for the node `n` (the edit alphabet at one position).
fn node_edits(n: &Ty) -> Vec<(String, Ty)> {
    let mut v: Vec<(String, Ty)> = vec![];
    if *n != Ty::Any {
        v.push(("replace-with-any".into(), Ty::Any));
    }
    match n {
        Ty::Any => {
            v.push(("any->bool".into(), Ty::Bool));
            v.push(("any->tuple".into(), Ty::Tuple(vec![], true)));
        }
        Ty::Bool => {
            v.push(("kind:bool->u8".into(), Ty::U8(None)));
            v.push(("kind:bool->string".into(), Ty::Str(None)));
        }
        Ty::U8(r) => {
            v.push(("kind:u8->bool".into(), Ty::Bool));
            v.push(("kind:u8->string".into(), Ty::Str(None)));
            match r {
                None => {
                    v.push(("range:add".into(), Ty::U8(Some((Some(1), Some(3))))));
                    v.push(("range:add-trivial".into(), Ty::U8(Some((None, None)))));
                    v.push(("range:add-full".into(), Ty::U8(Some((Some(0), Some(255))))));
                }
                Some((lo, hi)) => {
                    v.push(("range:drop".into(), Ty::U8(None)));
                    if let Some(h) = hi {
                        if *h < 255 {
                            v.push(("range:max+1".into(), Ty::U8(Some((*lo, Some(h + 1))))));
                        }
                        if *h > 0 {
                            v.push(("range:max-1".into(), Ty::U8(Some((*lo, Some(h - 1))))));
                        }
                        v.push(("range:max-none".into(), Ty::U8(Some((*lo, None)))));
                    } else {
                        v.push(("range:max-add".into(), Ty::U8(Some((*lo, Some(200))))));
                        v.push(("range:max-255".into(), Ty::U8(Some((*lo, Some(255))))));
                    }
                    if let Some(l) = lo {
                        v.push(("range:min+1".into(), Ty::U8(Some((Some(l + 1), *hi)))));
                        if *l > 0 {
                            v.push(("range:min-1".into(), Ty::U8(Some((Some(l - 1), *hi)))));
                        }
                        v.push(("range:min-none".into(), Ty::U8(Some((None, *hi)))));
                    } else {
                        v.push(("range:min-add".into(), Ty::U8(Some((Some(1), *hi)))));
                        v.push(("range:min-0".into(), Ty::U8(Some((Some(0), *hi)))));
                    }
                    v.push(("range:shift".into(), Ty::U8(Some((lo.map(|x| x + 1), hi.map(|x| x.saturating_add(1)))))));
                    v.push(("range:shift-down".into(), Ty::U8(Some((lo.map(|x| x.saturating_sub(1)), hi.map(|x| x.saturating_sub(1)))))));
                }
            }
        }
        Ty::Str(l) => {
            v.push(("kind:string->u8".into(), Ty::U8(None)));
            v.push(("kind:string->bytes".into(), Ty::Array(Box::new(Ty::U8(None)), None)));
            match l {
                None => v.push(("len:add".into(), Ty::Str(Some((None, Some(2)))))),
                Some((lo, hi)) => {
                    v.push(("len:drop".into(), Ty::Str(None)));
                    for (i, b) in bump(*lo, *hi).into_iter().enumerate() {
                        v.push((format!("len:bump#{i}"), Ty::Str(Some(b))));
                    }
                }
            }
        }
        Ty::Tuple(f, named) => {
            let mut g = f.clone();
            g.push(Ty::Bool);
            v.push(("tuple:add-field".into(), Ty::Tuple(g, *named)));
            if !f.is_empty() {
                let mut g = f.clone();
                g.pop();
                v.push(("tuple:remove-field".into(), Ty::Tuple(g, *named)));
                v.push(("tuple:drop-field-names".into(), Ty::Tuple(f.clone(), !*named)));
            }
            if f.len() == 2 && f[0] != f[1] {
                v.push(("tuple:swap-fields".into(), Ty::Tuple(vec![f[1].clone(), f[0].clone()], *named)));
            }
            v.push(("kind:tuple->enum".into(), Ty::Enum(vec![(0, f.clone())])));
            v.push(("kind:tuple->array".into(), Ty::Array(Box::new(Ty::Any), None)));
        }
        Ty::Enum(vs) => {
            let unused = (0u8..=255).find(|d| vs.iter().all(|(x, _)| x != d)).unwrap();
            let mut g = vs.clone();
            g.push((unused, vec![]));
            v.push(("enum:add-variant".into(), Ty::Enum(g)));
            let mut g = vs.clone();
            g.push((unused, vec![Ty::Bool]));
            v.push(("enum:add-variant-with-field".into(), Ty::Enum(g)));
            let mut g = vs.clone();
            g.insert(0, (200, vec![]));
            v.push(("enum:add-variant-first".into(), Ty::Enum(g)));
            if vs.len() > 1 {
                let mut g = vs.clone();
                g.pop();
                v.push(("enum:remove-last-variant".into(), Ty::Enum(g)));
                let mut g = vs.clone();
                g.remove(0);
                v.push(("enum:remove-first-variant".into(), Ty::Enum(g)));
                let mut g = vs.clone();
                g.reverse();
                v.push(("enum:reorder-variants".into(), Ty::Enum(g)));
                let g = vec![(vs[0].0, vs[1].1.clone()), (vs[1].0, vs[0].1.clone())];
                if g != *vs {
                    v.push(("enum:swap-variant-payloads".into(), Ty::Enum(g)));
                }
            }
            let mut g = vs.clone();
            g[0].0 = unused;
            v.push(("enum:renumber-variant".into(), Ty::Enum(g)));
            let mut g = vs.clone();
            g[0].1.push(Ty::Bool);
            v.push(("enum:add-variant-field".into(), Ty::Enum(g)));
            if !vs[0].1.is_empty() {
                let mut g = vs.clone();
                g[0].1.pop();
                v.push(("enum:remove-variant-field".into(), Ty::Enum(g)));
            }
            v.push(("kind:enum->tuple".into(), Ty::Tuple(vs[0].1.clone(), true)));
        }
        Ty::Array(e, l) => {
            match l {
                None => v.push(("len:add".into(), Ty::Array(e.clone(), Some((None, Some(2)))))),
                Some((lo, hi)) => {
                    v.push(("len:drop".into(), Ty::Array(e.clone(), None)));
                    for (i, b) in bump(*lo, *hi).into_iter().enumerate() {
                        v.push((format!("len:bump#{i}"), Ty::Array(e.clone(), Some(b))));
                    }
                }
            }
            v.push(("kind:array->tuple".into(), Ty::Tuple(vec![(**e).clone()], true)));
            v.push(("kind:array->map".into(), Ty::Map(e.clone(), e.clone(), None)));
        }
        Ty::Map(k, x, l) => {
            match l {
                None => v.push(("len:add".into(), Ty::Map(k.clone(), x.clone(), Some((None, Some(2)))))),
                Some((lo, hi)) => {
                    v.push(("len:drop".into(), Ty::Map(k.clone(), x.clone(), None)));
                    for (i, b) in bump(*lo, *hi).into_iter().enumerate() {
                        v.push((format!("len:bump#{i}"), Ty::Map(k.clone(), x.clone(), Some(b))));
                    }
                }
            }
            if k != x {
                v.push(("map:swap-key-value".into(), Ty::Map(x.clone(), k.clone(), *l)));
            }
            v.push(("kind:map->array".into(), Ty::Array(x.clone(), None)));
        }
        Ty::Rec => {
            v.push(("rec->bool".into(), Ty::Bool));
        }
    }
    v
}

pub fn edits_of(base: &Ty) -> Vec<(String, Spec, Spec)> {
    let plain = Spec::plain(base.clone());
    let mut out = vec![("identity".to_string(), plain.clone(), plain.clone())];
    let mut paths = vec![];
    all_paths(base, &mut vec![], &mut paths);
    for p in &paths {
        let node = at(base, p).clone();
        for (name, repl) in node_edits(&node) {
            let mut t = base.clone();
            *at_mut(&mut t, p) = repl;
            // a root cannot be `Rec`, and Rec needs a composite root
            out.push((format!("{name}@{p:?}"), plain.clone(), Spec::plain(t)));
        }
        for k in 0..3u8 {
            let applicable = match (&node, k) {
                (Ty::Any | Ty::Bool | Ty::U8(None) | Ty::Str(None) | Ty::Rec, _) => false,
                (Ty::Tuple(f, named), 1) => *named && !f.is_empty(),
                (Ty::Enum(vs), 1) => vs.iter().any(|(_, f)| !f.is_empty()),
                (Ty::Enum(_), 2) => true,
                (_, 0) => true,
                _ => false,
            };
            if applicable {
                let mut s = Spec::plain(base.clone());
                s.rename = Some((p.clone(), k));
                out.push((format!("rename:{}@{p:?}", ["type", "fields", "variants"][k as usize]), plain.clone(), s));
            }
        }
    }
    // structural alias, both directions (only meaningful when two identical non-well-known subtrees exist)
    {
        let mut shared = Spec::plain(base.clone());
        shared.share = true;
        let differs = match (compile(&shared), compile(&plain)) {
            (Some(a), Some(b)) => a.schema.v1().type_kinds.len() != b.schema.v1().type_kinds.len(),
            _ => false,
        };
        if differs {
            out.push(("alias:share-identical-types".into(), plain.clone(), shared.clone()));
            out.push(("alias:unshare-identical-types".into(), shared, plain.clone()));
        }
    }
    let mut s = Spec::plain(base.clone());
    s.unreachable_type = true;
    out.push(("add-unreachable-type".into(), plain.clone(), s.clone()));
    out.push(("remove-unreachable-type".into(), s, plain.clone()));
    out
}

// ---------------------------------------------------------------------------------------------------------------

#[derive(Clone, Copy, PartialEq, Eq, Debug)]
enum Claim {
    Equality,
    Extension,
}

fn presets() -> Vec<(&'static str, SchemaComparisonSettings, Claim)> {
    vec![
        ("require_equality", SchemaComparisonSettings::require_equality(), Claim::Equality),
        ("require_equality+allow_all_name_changes", SchemaComparisonSettings::require_equality().allow_all_name_changes(), Claim::Equality),
        ("allow_extension", SchemaComparisonSettings::allow_extension(), Claim::Extension),
        ("allow_extension+allow_all_name_changes", SchemaComparisonSettings::allow_extension().allow_all_name_changes(), Claim::Extension),
        (
            "allow_extension+roots-need-not-cover",
            SchemaComparisonSettings::allow_extension().set_completeness(SchemaComparisonCompletenessSettings::allow_type_roots_not_to_cover_schema()).allow_all_name_changes(),
            Claim::Extension,
        ),
    ]
}

fn valid(s: &SingleTypeSchema<NoCustomSchema>, payload: &[u8]) -> bool {
    validate_payload_against_schema::<NoCustomExtension, ()>(payload, s.schema.v1(), s.type_id, &(), 64).is_ok()
}

fn payloads_of(s: &SingleTypeSchema<NoCustomSchema>) -> Vec<Vec<u8>> {
    let b = Bound { depth: 4, len_bound: 3, product_cap: 4096, node_cap: 0, max_len: 8, root_cap: 0 };
    schema_directed::<Basic>(s.schema.v1(), s.type_id, &b).iter().map(|e| e.payload(Basic::PREFIX)).collect()
}

fn check_pair(base_spec: &Spec, edit_name: &str, edited: &Spec, l: &mut Local) {
    let base_ty = &base_spec.ty;
    let Some(base) = compile(base_spec) else {
        l.class("skipped:base-schema-invalid");
        return;
    };
    let Some(new) = compile(edited) else {
        l.class("skipped:edited-schema-invalid");
        return;
    };
    let mut p = payloads_of(&base);
    p.extend(payloads_of(&new));
    p.sort();
    p.dedup();
    let vb: Vec<bool> = p.iter().map(|x| valid(&base, x)).collect();
    let vn: Vec<bool> = p.iter().map(|x| valid(&new, x)).collect();
    let n_base_valid = vb.iter().filter(|x| **x).count();
    if n_base_valid == 0 {
        l.info("base-accepts-nothing-in-P");
    }
    let broken: Option<usize> = (0..p.len()).find(|i| vb[*i] && !vn[*i]);
    let differs: Option<usize> = (0..p.len()).find(|i| vb[*i] != vn[*i]);
    let edit_class = edit_name.split('@').next().unwrap_or(edit_name).to_string();
    for (pname, settings, claim) in presets() {
        l.eval();
        let reported_valid = match mc_core::catch(|| compare_single_type_schemas::<NoCustomSchema>(&settings, &base, &new).is_valid()) {
            Ok(r) => r,
            Err(pmsg) => {
                // The statement only constrains *reported* verdicts, so a panic of the comparison is informational.
                l.info(&format!("comparison-panic:{edit_class}"));
                l.class("comparison-panicked(informational)");
                if format!("{base_ty:?}").len() < 20 {
                    l.sample(|| json!({"informational": "comparison panicked", "base": format!("{base_ty:?}"), "edit": edit_name, "preset": pname, "panic": pmsg}));
                }
                continue;
            }
        };
        let case = |i: usize| {
            json!({"base": format!("{base_ty:?}"), "edit": edit_name, "edited": format!("{:?}", edited), "preset": pname,
                   "payload_hex": mc_core::hex(&p[i]), "valid_under_base": vb[i], "valid_under_edited": vn[i],
                   "base_schema_hex": mc_core::hex(&base.encode_to_bytes()), "edited_schema_hex": mc_core::hex(&new.encode_to_bytes())})
        };
        match (reported_valid, claim) {
            (true, Claim::Extension) => match broken {
                Some(i) => MIN.record(
                    l,
                    format!("unsound-extension:{edit_class}:{pname}"),
                    format!("comparison ({pname}) reports a valid extension for edit {edit_name} of {base_ty:?}, but payload {} is valid under the old schema and invalid under the new one", mc_core::hex(&p[i])),
                    format!("{base_ty:?}").len() + p[i].len(),
                    format!("{base_ty:?}{edit_name}"),
                    case(i),
                ),
                None => l.class(&format!("reported-valid-extension:payloads-agree:{}", if differs.is_some() { "proper-extension" } else { "same-acceptance" })),
            },
            (true, Claim::Equality) => match differs {
                Some(i) => MIN.record(
                    l,
                    format!("unsound-equality:{edit_class}:{pname}"),
                    format!("comparison ({pname}) reports equality for edit {edit_name} of {base_ty:?}, but payload {} is accepted by exactly one of the two schemas", mc_core::hex(&p[i])),
                    format!("{base_ty:?}").len() + p[i].len(),
                    format!("{base_ty:?}{edit_name}"),
                    case(i),
                ),
                None => l.class("reported-equal:payloads-agree"),
            },
            (false, Claim::Extension) => {
                if broken.is_none() {
                    l.class("reported-invalid:but-payload-compatible(converse,allowed)");
                    l.info(&format!("converse:extension-compatible-but-rejected:{edit_class}"));
                } else {
                    l.class("reported-invalid:payloads-break");
                }
            }
            (false, Claim::Equality) => {
                if differs.is_none() {
                    l.class("reported-unequal:but-same-acceptance(converse,allowed)");
                    l.info(&format!("converse:equal-acceptance-but-rejected:{edit_class}"));
                } else {
                    l.class("reported-unequal:payloads-differ");
                }
            }
        }
    }
}

pub fn run(ctx: Ctx) -> ! {
    if let Some(case) = ctx.read_replay_case() {
        // replay: decode both schemas and re-run the comparison and the payload check
        let b = SingleTypeSchema::<NoCustomSchema>::decode_from_bytes(&mc_core::unhex(case.get("base_schema_hex").and_then(|x| x.as_str()).unwrap_or("")));
        let n = SingleTypeSchema::<NoCustomSchema>::decode_from_bytes(&mc_core::unhex(case.get("edited_schema_hex").and_then(|x| x.as_str()).unwrap_or("")));
        let payload = mc_core::unhex(case.get("payload_hex").and_then(|x| x.as_str()).unwrap_or(""));
        let pname = case.get("preset").and_then(|x| x.as_str()).unwrap_or("");
        println!("base   = {:?}\nedited = {:?}", b, n);
        for (name, settings, claim) in presets() {
            if name == pname {
                let r = compare_single_type_schemas::<NoCustomSchema>(&settings, &b, &n);
                println!("preset {name} ({claim:?}): reported valid = {}", r.is_valid());
                if let Some(m) = r.error_message("base", "edited") {
                    println!("{m}");
                }
            }
        }
        println!("payload {} valid under base: {}  under edited: {}", mc_core::hex(&payload), valid(&b, &payload), valid(&n, &payload));
        ctx.finish(Level::Exploration, "replay", 0, false, Map::new(), &[]);
    }
    let thorough = !ctx.quick();
    let bases = base_types(thorough);
    let pairs = std::sync::atomic::AtomicU64::new(0);
    par_range(&ctx, bases.len() as u64, 1, |i, l| {
        let base = &bases[i as usize];
        let edits = edits_of(base);
        pairs.fetch_add(edits.len() as u64, std::sync::atomic::Ordering::Relaxed);
        for (name, base_spec, spec) in &edits {
            check_pair(base_spec, name, spec, l);
        }
        if i % 97 == 5 {
            l.sample(|| json!({"base": format!("{base:?}"), "edits": edits.len(), "first_edits": edits.iter().take(4).map(|e| e.0.clone()).collect::<Vec<_>>()}));
        }
    });
    MIN.flush(&ctx);
    let n_pairs = pairs.load(std::sync::atomic::Ordering::Relaxed);
    let classes = ctx.classes();
    let nontrivial: u64 = classes.iter().filter(|(k, _)| k.starts_with("reported-valid-extension") || k.starts_with("reported-equal")).map(|(_, v)| *v).sum();
    let mut cov = Map::new();
    cov.insert("base_types".into(), json!(bases.len()));
    cov.insert("base_edit_pairs".into(), json!(n_pairs));
    cov.insert("presets".into(), json!(presets().iter().map(|p| p.0).collect::<Vec<_>>()));
    ctx.finish(
        Level::Exploration,
        "a case = (base schema, edited schema, settings preset); evaluations count comparisons; non-trivial = comparisons that reported valid (equal / valid extension), i.e. the ones the oracle constrains, each checked against every payload of schema_directed(base) ∪ schema_directed(edited)",
        nontrivial,
        true,
        cov,
        &["basic SBOR (no custom type kinds); payload validity decided by the real validate_payload_against_schema", "only schemas accepted by validate_schema are compared (the kernel documents that it assumes valid schemas)"],
    )
}
