//! mc-ids: serves C28 C48 (one module per property).
use mc_core::Ctx;

mod c28;
mod c48;

fn main() {
    let ctx = Ctx::from_args();
    match ctx.id.as_str() {
        "C28" => c28::run(ctx),
        "C48" => c48::run(ctx),
        other => mc_core::machinery_error(&format!("mc-ids does not serve {other}")),
    }
}
