//! mc-ids: serves C28 C48 (one module per property).
use mc_core::Ctx;

mod bech32m_ref;
mod c28;
mod c48;

/// Strict hex decoder of the harness (lower or upper case digits, even length).
pub fn unhex_strict(s: &str) -> Option<Vec<u8>> {
    let b = s.as_bytes();
    if b.len() % 2 != 0 {
        return None;
    }
    fn nib(c: u8) -> Option<u8> {
        match c {
            b'0'..=b'9' => Some(c - b'0'),
            b'a'..=b'f' => Some(c - b'a' + 10),
            b'A'..=b'F' => Some(c - b'A' + 10),
            _ => None,
        }
    }
    let mut out = Vec::with_capacity(b.len() / 2);
    for p in b.chunks(2) {
        out.push(nib(p[0])? * 16 + nib(p[1])?);
    }
    Some(out)
}

fn main() {
    let ctx = Ctx::from_args();
    match ctx.id.as_str() {
        "C28" => c28::run(ctx),
        "C48" => c48::run(ctx),
        other => mc_core::machinery_error(&format!("mc-ids does not serve {other}")),
    }
}
