//! Independent reference implementation of Bech32 / Bech32m (BIP-173 / BIP-350), written from the BIPs.
//! Used as the oracle for "encodes to Bech32m text" and to craft texts the real encoder never produces
//! (foreign HRP + entity byte combinations, Bech32 (non-m) checksums, unknown entity bytes).
//! Deliberately shares no code with the `bech32` crate or with radix-common.

pub const CHARSET: &[u8; 32] = b"qpzry9x8gf2tvdw0s3jn54khce6mua7l";
pub const BECH32M_CONST: u32 = 0x2bc8_30a3;
pub const BECH32_CONST: u32 = 1;

fn polymod(values: &[u8]) -> u32 {
    const GEN: [u32; 5] = [0x3b6a_57b2, 0x2650_8e6d, 0x1ea1_19fa, 0x3d42_33dd, 0x2a14_62b3];
    let mut chk: u32 = 1;
    for v in values {
        let b = chk >> 25;
        chk = ((chk & 0x01ff_ffff) << 5) ^ (*v as u32);
        for (i, g) in GEN.iter().enumerate() {
            if (b >> i) & 1 == 1 {
                chk ^= g;
            }
        }
    }
    chk
}

fn hrp_expand(hrp: &str) -> Vec<u8> {
    let mut v: Vec<u8> = hrp.bytes().map(|c| c >> 5).collect();
    v.push(0);
    v.extend(hrp.bytes().map(|c| c & 31));
    v
}

/// 8-bit bytes -> 5-bit groups, zero padded (encoder direction).
pub fn to_u5(data: &[u8]) -> Vec<u8> {
    let mut out = vec![];
    let mut acc: u32 = 0;
    let mut bits = 0;
    for b in data {
        acc = (acc << 8) | *b as u32;
        bits += 8;
        while bits >= 5 {
            bits -= 5;
            out.push(((acc >> bits) & 31) as u8);
        }
    }
    if bits > 0 {
        out.push(((acc << (5 - bits)) & 31) as u8);
    }
    out
}

/// 5-bit groups -> bytes; `None` if the padding is 5 or more bits or non-zero (BIP-173 rule).
pub fn from_u5(data: &[u8]) -> Option<Vec<u8>> {
    let mut out = vec![];
    let mut acc: u32 = 0;
    let mut bits = 0;
    for v in data {
        acc = ((acc << 5) | *v as u32) & 0xfff;
        bits += 5;
        if bits >= 8 {
            bits -= 8;
            out.push(((acc >> bits) & 0xff) as u8);
        }
    }
    if bits >= 5 || (acc & ((1 << bits) - 1)) != 0 {
        return None;
    }
    Some(out)
}

/// Encode with an arbitrary checksum constant (lower-case hrp expected).
pub fn encode_with_const(hrp: &str, data: &[u8], constant: u32) -> String {
    let d5 = to_u5(data);
    let mut values = hrp_expand(hrp);
    values.extend_from_slice(&d5);
    values.extend_from_slice(&[0u8; 6]);
    let pm = polymod(&values) ^ constant;
    let mut s = String::with_capacity(hrp.len() + 1 + d5.len() + 6);
    s.push_str(hrp);
    s.push('1');
    for v in &d5 {
        s.push(CHARSET[*v as usize] as char);
    }
    for i in 0..6 {
        s.push(CHARSET[((pm >> (5 * (5 - i))) & 31) as usize] as char);
    }
    s
}

pub fn encode_m(hrp: &str, data: &[u8]) -> String {
    encode_with_const(hrp, data, BECH32M_CONST)
}

#[derive(Debug, Clone, PartialEq, Eq)]
pub struct Decoded {
    pub hrp: String,
    pub data: Vec<u8>,
    /// checksum constant the text verifies under
    pub constant: u32,
}

/// Strict decoder for *lower-case* texts: `None` unless `hrp '1' data checksum` with characters of the
/// charset, a checksum valid under Bech32m or Bech32, and valid 5->8 padding.
pub fn decode_lower(text: &str) -> Option<Decoded> {
    if !text.is_ascii() {
        return None;
    }
    let pos = text.rfind('1')?;
    let (hrp, rest) = (&text[..pos], &text[pos + 1..]);
    if hrp.is_empty() || rest.len() < 6 {
        return None;
    }
    if hrp.bytes().any(|b| !(33..=126).contains(&b) || b.is_ascii_uppercase()) {
        return None;
    }
    let mut d5 = Vec::with_capacity(rest.len());
    for c in rest.bytes() {
        d5.push(CHARSET.iter().position(|x| *x == c)? as u8);
    }
    let mut values = hrp_expand(hrp);
    values.extend_from_slice(&d5);
    let constant = polymod(&values);
    if constant != BECH32M_CONST && constant != BECH32_CONST {
        return None;
    }
    let data = from_u5(&d5[..d5.len() - 6])?;
    Some(Decoded { hrp: hrp.to_string(), data, constant })
}

/// Self-test against the BIP-350 test vectors; a failing reference is a machinery error.
pub fn self_test() -> Result<(), String> {
    // valid Bech32m strings from BIP-350 (lower-cased where the BIP gives upper case)
    for s in ["a1lqfn3a", "an83characterlonghumanreadablepartthatcontainsthetheexcludedcharactersbioandnumber11sg7hg6", "abcdef1l7aum6echk45nj3s0wdvt2fg8x9yrzpqzd3ryx", "split1checkupstagehandshakeupstreamerranterredcaperredlc445v", "?1v759aa"] {
        let mut values = hrp_expand(&s[..s.rfind('1').unwrap()]);
        for c in s[s.rfind('1').unwrap() + 1..].bytes() {
            values.push(CHARSET.iter().position(|x| *x == c).ok_or("charset")? as u8);
        }
        if polymod(&values) != BECH32M_CONST {
            return Err(format!("reference rejects valid BIP-350 vector {s}"));
        }
    }
    // segwit v1 address from BIP-350: witness program bytes known
    let addr = "bc1p0xlxvlhemja6c4dqv22uapctqupfhlxm9h8z3k2e72q4k9hcz7vqzk5jj0";
    let mut values = hrp_expand("bc");
    let d5: Vec<u8> = addr[3..].bytes().map(|c| CHARSET.iter().position(|x| *x == c).unwrap() as u8).collect();
    values.extend_from_slice(&d5);
    if polymod(&values) != BECH32M_CONST {
        return Err("reference rejects BIP-350 segwit v1 vector".into());
    }
    let prog = from_u5(&d5[1..d5.len() - 6]).ok_or("padding")?;
    let expect = crate::unhex_strict("79be667ef9dcbbac55a06295ce870b07029bfcdb2dce28d959f2815b16f81798").unwrap();
    if prog != expect {
        return Err("reference decodes BIP-350 segwit vector to wrong bytes".into());
    }
    // re-encode: version 1 is a raw 5-bit symbol, so rebuild by hand
    let mut v = hrp_expand("bc");
    let mut data5 = vec![1u8];
    data5.extend(to_u5(&expect));
    v.extend_from_slice(&data5);
    v.extend_from_slice(&[0u8; 6]);
    let pm = polymod(&v) ^ BECH32M_CONST;
    let chk: String = (0..6).map(|i| CHARSET[((pm >> (5 * (5 - i))) & 31) as usize] as char).collect();
    if !addr.ends_with(&chk) {
        return Err("reference checksum differs from BIP-350 vector".into());
    }
    // round trip of own encoder/decoder
    let t = encode_m("test_hrp", &[0xde, 0xad, 0xbe, 0xef, 0x01]);
    match decode_lower(&t) {
        Some(d) if d.hrp == "test_hrp" && d.data == [0xde, 0xad, 0xbe, 0xef, 0x01] && d.constant == BECH32M_CONST => Ok(()),
        other => Err(format!("reference round trip failed: {other:?}")),
    }
}
