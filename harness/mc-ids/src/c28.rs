//! C28 — addresses and identifiers have lossless, network-bound text forms.
//!
//! Bounded-exhaustive input enumeration (shape I) against three independent references written here:
//!   * `bech32m_ref`   — Bech32m from BIP-350 (checks "encodes to Bech32m text", crafts foreign texts),
//!   * `ENTS`          — the entity-type table (byte, address class, HRP class) from REP-60 / entity_type.rs docs,
//!   * `ref_parse_local_id` / `ref_display` — the documented text grammar of non-fungible local ids.
//!
//! What the oracles demand is only what the statement says:
//!   A1 encode on N -> valid Bech32m of the same bytes, HRP ends with N's hrp suffix; decode on N returns the
//!      bytes; decode on every other network fails; typed addresses accept exactly their class.
//!   A2 any text the decoder of N accepts is exactly what the encoder of N prints for the decoded bytes
//!      (modulo all-upper-case, which Bech32 permits) — so foreign HRP / foreign entity byte / Bech32 (non-m) /
//!      unknown entity byte / substituted characters are rejected.
//!   L1 local id text: accepted <=> it is the documented text of a valid id (hex in upper case: informational);
//!      integers only in canonical decimal; never panics; text->id->text and id->SBOR->id are identities.
//!   G1 global id text `resource:local` likewise, network-bound through the resource address.
use crate::bech32m_ref as b32;
use mc_core::{catch, gen, par_for, par_range, Ctx, Level, Local};
use radix_common::prelude::*;
use serde_json::{json, Map, Value};
use std::collections::{BTreeSet, HashSet};
use std::str::FromStr;
use std::sync::Mutex;

// ------------------------------------------------------------------------------------------------
// reference: entity types (REP-60; doc comments of radix-common/src/types/entity_type.rs)
// ------------------------------------------------------------------------------------------------

#[derive(Clone, Copy, PartialEq, Eq, Debug)]
enum Cls {
    Package,
    Resource,
    Component,
    Internal,
}

struct Ent {
    byte: u8,
    name: &'static str,
    cls: Cls,
    hrp: &'static str,
}

const fn e(byte: u8, name: &'static str, cls: Cls, hrp: &'static str) -> Ent {
    Ent { byte, name, cls, hrp }
}

const ENTS: [Ent; 22] = [
    e(13, "GlobalPackage", Cls::Package, "package"),
    e(134, "GlobalConsensusManager", Cls::Component, "consensusmanager"),
    e(131, "GlobalValidator", Cls::Component, "validator"),
    e(130, "GlobalTransactionTracker", Cls::Component, "transactiontracker"),
    e(192, "GlobalGenericComponent", Cls::Component, "component"),
    e(193, "GlobalAccount", Cls::Component, "account"),
    e(194, "GlobalIdentity", Cls::Component, "identity"),
    e(195, "GlobalAccessController", Cls::Component, "accesscontroller"),
    e(196, "GlobalOneResourcePool", Cls::Component, "pool"),
    e(197, "GlobalTwoResourcePool", Cls::Component, "pool"),
    e(198, "GlobalMultiResourcePool", Cls::Component, "pool"),
    e(104, "GlobalAccountLocker", Cls::Component, "locker"),
    e(209, "GlobalPreallocatedSecp256k1Account", Cls::Component, "account"),
    e(210, "GlobalPreallocatedSecp256k1Identity", Cls::Component, "identity"),
    e(81, "GlobalPreallocatedEd25519Account", Cls::Component, "account"),
    e(82, "GlobalPreallocatedEd25519Identity", Cls::Component, "identity"),
    e(93, "GlobalFungibleResourceManager", Cls::Resource, "resource"),
    e(88, "InternalFungibleVault", Cls::Internal, "internal_vault"),
    e(154, "GlobalNonFungibleResourceManager", Cls::Resource, "resource"),
    e(152, "InternalNonFungibleVault", Cls::Internal, "internal_vault"),
    e(248, "InternalGenericComponent", Cls::Internal, "internal_component"),
    e(176, "InternalKeyValueStore", Cls::Internal, "internal_keyvaluestore"),
];

fn ent(b: u8) -> Option<&'static Ent> {
    ENTS.iter().find(|x| x.byte == b)
}

/// expected acceptance by (GlobalAddress, InternalAddress, ComponentAddress, ResourceAddress, PackageAddress)
fn typed_expect(b: u8) -> [bool; 5] {
    match ent(b).map(|x| x.cls) {
        None => [false; 5],
        Some(Cls::Package) => [true, false, false, false, true],
        Some(Cls::Resource) => [true, false, false, true, false],
        Some(Cls::Component) => [true, false, true, false, false],
        Some(Cls::Internal) => [false, true, false, false, false],
    }
}
const TYPED_NAMES: [&str; 5] = ["GlobalAddress", "InternalAddress", "ComponentAddress", "ResourceAddress", "PackageAddress"];

struct Net {
    def: NetworkDefinition,
    enc: AddressBech32Encoder,
    dec: AddressBech32Decoder,
}

fn networks() -> Vec<Net> {
    let custom_a = NetworkDefinition { id: 0x21, logical_name: "custom21".into(), hrp_suffix: "tdx_21_".into() };
    // a suffix that has another network's suffix ("rdx") as a proper prefix
    let custom_b = NetworkDefinition { id: 99, logical_name: "custom99".into(), hrp_suffix: "rdx2".into() };
    [
        NetworkDefinition::mainnet(),
        NetworkDefinition::stokenet(),
        NetworkDefinition::simulator(),
        NetworkDefinition::localnet(),
        NetworkDefinition::adapanet(),
        NetworkDefinition::nebunet(),
        NetworkDefinition::kisharnet(),
        NetworkDefinition::ansharnet(),
        NetworkDefinition::zabanet(),
        custom_a,
        custom_b,
    ]
    .into_iter()
    .map(|def| Net { enc: AddressBech32Encoder::new(&def), dec: AddressBech32Decoder::new(&def), def })
    .collect()
}

fn typed_from_bech32(dec: &AddressBech32Decoder, s: &str) -> [Option<Vec<u8>>; 5] {
    [
        GlobalAddress::try_from_bech32(dec, s).map(|a| a.to_vec()),
        InternalAddress::try_from_bech32(dec, s).map(|a| a.to_vec()),
        ComponentAddress::try_from_bech32(dec, s).map(|a| a.to_vec()),
        ResourceAddress::try_from_bech32(dec, s).map(|a| a.to_vec()),
        PackageAddress::try_from_bech32(dec, s).map(|a| a.to_vec()),
    ]
}

fn typed_from_slice(raw: &[u8]) -> [bool; 5] {
    [
        GlobalAddress::try_from(raw).is_ok(),
        InternalAddress::try_from(raw).is_ok(),
        ComponentAddress::try_from(raw).is_ok(),
        ResourceAddress::try_from(raw).is_ok(),
        PackageAddress::try_from(raw).is_ok(),
    ]
}

fn typed_display(raw: &[u8; 30], enc: &AddressBech32Encoder) -> [Option<String>; 5] {
    [
        GlobalAddress::try_from(*raw).ok().map(|a| a.to_string(enc)),
        InternalAddress::try_from(*raw).ok().map(|a| a.to_string(enc)),
        ComponentAddress::try_from(*raw).ok().map(|a| a.to_string(enc)),
        ResourceAddress::try_from(*raw).ok().map(|a| a.to_string(enc)),
        PackageAddress::try_from(*raw).ok().map(|a| a.to_string(enc)),
    ]
}

fn raw_of(first: u8, body: &[u8; 29]) -> [u8; 30] {
    let mut r = [0u8; 30];
    r[0] = first;
    r[1..].copy_from_slice(body);
    r
}

// ------------------------------------------------------------------------------------------------
// A1: one address on one network
// ------------------------------------------------------------------------------------------------

fn check_address(nets: &[Net], ni: usize, raw: &[u8; 30], l: &mut Local) {
    l.eval();
    let net = &nets[ni];
    let case = || json!({"kind": "address", "network": ni, "network_name": net.def.logical_name, "raw": mc_core::hex(raw)});
    let valid_by_code = EntityType::from_repr(raw[0]).is_some();
    let encoded = match catch(|| net.enc.encode(raw)) {
        Ok(r) => r,
        Err(p) => {
            l.violation("address-encode-panic", format!("encode panicked: {p}"), case());
            return;
        }
    };
    if !valid_by_code {
        match encoded {
            Err(_) => l.class("encode-rejects-unknown-entity-byte"),
            Ok(_) => l.info("encode-accepts-unknown-entity-byte"),
        }
        if ent(raw[0]).is_some() {
            l.info("reference-entity-type-unknown-to-code");
        }
        return;
    }
    let Some(en) = ent(raw[0]) else {
        l.info("code-entity-type-unknown-to-reference");
        return;
    };
    let text = match encoded {
        Ok(t) => t,
        Err(err) => {
            l.violation("address-encode-fails", format!("{} on {}: encode failed: {err:?}", en.name, net.def.logical_name), case());
            return;
        }
    };
    // independent Bech32m reference
    match b32::decode_lower(&text) {
        Some(d) if d.constant == b32::BECH32M_CONST && d.data == raw => {
            let suffix: &str = net.def.hrp_suffix.as_ref();
            if !d.hrp.ends_with(suffix) {
                l.violation("address-hrp-not-network-bound", format!("hrp {:?} does not end with network suffix {suffix:?}", d.hrp), case());
            } else if d.hrp != format!("{}_{}", en.hrp, suffix) {
                l.info("hrp-differs-from-reference-table");
            }
            if b32::encode_m(&d.hrp, raw) != text {
                l.violation("address-not-canonical-bech32m", format!("{text} is not the canonical Bech32m text of its hrp+data"), case());
            }
        }
        other => {
            l.violation("address-not-bech32m", format!("{} on {}: encoded text {text:?} is not Bech32m of the address bytes (reference decode: {other:?})", en.name, net.def.logical_name), case());
        }
    }
    // same network: decodes back
    match catch(|| net.dec.validate_and_decode(&text)) {
        Ok(Ok((et, data))) if data == raw && et as u8 == raw[0] => l.class("address-roundtrip-ok"),
        other => {
            l.violation("address-roundtrip", format!("{} on {}: decode(encode(x)) = {other:?}", en.name, net.def.logical_name), case());
        }
    }
    // typed addresses on the same network: exactly their class; display equals the encoder's text
    let exp = typed_expect(raw[0]);
    let got = typed_from_bech32(&net.dec, &text);
    let shown = typed_display(raw, &net.enc);
    for k in 0..5 {
        match (&got[k], exp[k]) {
            (Some(b), true) if b.as_slice() == raw => {
                if shown[k].as_deref() != Some(text.as_str()) {
                    l.violation(format!("typed-display:{}", TYPED_NAMES[k]), format!("{}::to_string = {:?}, encoder text = {text}", TYPED_NAMES[k], shown[k]), case());
                }
            }
            (None, false) => {}
            (g, ex) => {
                l.violation(
                    format!("typed-class:{}", TYPED_NAMES[k]),
                    format!("{}::try_from_bech32({text}) = {:?}, expected accept={ex} for {}", TYPED_NAMES[k], g.as_ref().map(|b| mc_core::hex(b)), en.name),
                    case(),
                );
            }
        }
    }
    // every other network: rejected (low level and typed)
    for (mi, other) in nets.iter().enumerate() {
        if mi == ni {
            continue;
        }
        l.eval();
        match catch(|| other.dec.validate_and_decode(&text)) {
            Ok(Err(_)) => l.class("other-network-rejected"),
            r => {
                l.violation(
                    "address-accepted-on-other-network",
                    format!("{text} (encoded for {}) decoded on {}: {r:?}", net.def.logical_name, other.def.logical_name),
                    json!({"kind": "address", "network": ni, "other_network": mi, "raw": mc_core::hex(raw)}),
                );
            }
        }
        if typed_from_bech32(&other.dec, &text).iter().any(|x| x.is_some()) {
            l.violation(
                "typed-address-accepted-on-other-network",
                format!("{text} (encoded for {}) parsed as a typed address on {}", net.def.logical_name, other.def.logical_name),
                json!({"kind": "address", "network": ni, "other_network": mi, "raw": mc_core::hex(raw)}),
            );
        }
    }
}

// ------------------------------------------------------------------------------------------------
// A2: any text on one network. `orig` = the valid address the text was derived from by substitution.
// ------------------------------------------------------------------------------------------------

#[derive(PartialEq)]
enum TextOutcome {
    Rejected,
    Accepted,
}

fn check_text_on(nets: &[Net], ni: usize, text: &str, subst_of: Option<&[u8; 30]>, must_reject: Option<&str>, l: &mut Local) -> TextOutcome {
    l.eval();
    let net = &nets[ni];
    let case = || json!({"kind": "address-text", "network": ni, "network_name": net.def.logical_name, "text": text, "substitution_of": subst_of.map(|r| mc_core::hex(r)), "must_reject": must_reject});
    let r = match catch(|| net.dec.validate_and_decode(text)) {
        Ok(r) => r,
        Err(p) => {
            l.violation("address-decode-panic", format!("decode of {text:?} panicked: {p} at {}", mc_core::last_panic_location()), case());
            return TextOutcome::Rejected;
        }
    };
    let typed = typed_from_bech32(&net.dec, text);
    match r {
        Err(_) => {
            if typed.iter().any(|x| x.is_some()) {
                l.violation("typed-accepts-what-decoder-rejects", format!("{text:?}"), case());
            }
            TextOutcome::Rejected
        }
        Ok((et, data)) => {
            if let Some(why) = must_reject {
                l.violation(format!("address-accepts:{why}"), format!("{text:?} accepted on {} as {et:?} {}", net.def.logical_name, mc_core::hex(&data)), case());
                return TextOutcome::Accepted;
            }
            let lower = text.to_ascii_lowercase();
            let is_upper_variant = lower != text;
            // canonical: exactly what the encoder of this network prints for these bytes
            match catch(|| net.enc.encode(&data)) {
                Ok(Ok(t)) if t == lower => {}
                other => {
                    l.violation("address-decode-noncanonical", format!("{text:?} accepted on {} as {}, but encode(bytes) = {other:?}", net.def.logical_name, mc_core::hex(&data)), case());
                }
            }
            match b32::decode_lower(&lower) {
                Some(d) if d.constant == b32::BECH32M_CONST && d.data == data => {}
                other => {
                    l.violation("address-accepts-non-bech32m", format!("{text:?} accepted but the reference Bech32m decoder says {other:?}"), case());
                }
            }
            if data.first() != Some(&(et as u8)) {
                l.violation("address-entity-type-mismatch", format!("{text:?}: reported entity type {et:?} but first byte {:?}", data.first()), case());
            }
            if let Some(orig) = subst_of {
                if data != orig {
                    l.violation("address-substitution-accepted", format!("{text:?} is a character substitution of the text of {} but decodes to {}", mc_core::hex(orig), mc_core::hex(&data)), case());
                }
            }
            // typed: exactly by class, and only 30-byte payloads
            let exp = if data.len() == 30 { typed_expect(data[0]) } else { [false; 5] };
            for k in 0..5 {
                if typed[k].is_some() != exp[k] || typed[k].as_ref().map(|b| b != &data).unwrap_or(false) {
                    l.violation(format!("typed-class:{}", TYPED_NAMES[k]), format!("{}::try_from_bech32({text:?}) = {:?} for decoded bytes {}", TYPED_NAMES[k], typed[k].as_ref().map(|b| mc_core::hex(b)), mc_core::hex(&data)), case());
                }
            }
            if data.len() != 30 {
                l.info("low-level-decoder-accepts-payload-length!=30");
            }
            if is_upper_variant {
                l.info("all-upper-case-text-accepted");
            }
            TextOutcome::Accepted
        }
    }
}

/// char-level single-point mutations: substitute / insert / delete / duplicate / prefixes / suffixes
fn char_mutations(text: &str, alphabet: &[char], f: &mut impl FnMut(&str, bool)) {
    let cs: Vec<char> = text.chars().collect();
    let mut s = String::new();
    let mut emit = |v: &[char], subst: bool, f: &mut dyn FnMut(&str, bool)| {
        s.clear();
        s.extend(v.iter());
        f(&s, subst);
    };
    let mut buf = cs.clone();
    for i in 0..cs.len() {
        for &a in alphabet {
            if a != cs[i] {
                buf[i] = a;
                emit(&buf, true, f);
            }
        }
        // case flip
        let flipped = if cs[i].is_ascii_lowercase() { cs[i].to_ascii_uppercase() } else { cs[i].to_ascii_lowercase() };
        if flipped != cs[i] && !alphabet.contains(&flipped) {
            buf[i] = flipped;
            emit(&buf, true, f);
        }
        buf[i] = cs[i];
    }
    for i in 0..=cs.len() {
        for &a in alphabet {
            let mut v = cs.clone();
            v.insert(i, a);
            emit(&v, false, f);
        }
    }
    for i in 0..cs.len() {
        let mut v = cs.clone();
        v.remove(i);
        emit(&v, false, f);
        let mut v = cs.clone();
        v.insert(i, cs[i]);
        emit(&v, false, f);
        emit(&cs[..i], false, f);
        if i > 0 {
            emit(&cs[i..], false, f);
        }
    }
}

// ------------------------------------------------------------------------------------------------
// reference: non-fungible local id text grammar (doc comments of NonFungibleLocalId + Display)
// ------------------------------------------------------------------------------------------------

#[derive(Clone, PartialEq, Eq, Debug, PartialOrd, Ord)]
enum RefId {
    Str(String),
    Int(u64),
    Bytes(Vec<u8>),
    Ruid([u8; 32]),
}

#[derive(Debug, PartialEq)]
enum RefParse {
    /// canonical text of a valid id
    Accept(RefId),
    /// hex digits in upper case: the statement does not say; either outcome tolerated, value fixed
    Lenient(RefId),
    /// (reason, outcome-class label)
    Reject(&'static str, &'static str),
}

macro_rules! rej {
    ($why:literal) => {
        RefParse::Reject($why, concat!("id-rejected:", $why))
    };
}

fn hex_lower(b: &[u8]) -> String {
    mc_core::hex(b)
}

fn ref_display(id: &RefId) -> String {
    match id {
        RefId::Str(s) => format!("<{s}>"),
        RefId::Int(n) => format!("#{n}#"),
        RefId::Bytes(b) => format!("[{}]", hex_lower(b)),
        RefId::Ruid(b) => {
            let h = hex_lower(b);
            format!("{{{}-{}-{}-{}}}", &h[0..16], &h[16..32], &h[32..48], &h[48..64])
        }
    }
}

fn ref_content_valid(id: &RefId) -> bool {
    match id {
        RefId::Str(s) => (1..=64).contains(&s.len()) && s.bytes().all(|b| b.is_ascii_alphanumeric() || b == b'_'),
        RefId::Bytes(b) => (1..=64).contains(&b.len()),
        RefId::Int(_) | RefId::Ruid(_) => true,
    }
}

fn ref_parse_local_id(s: &str) -> RefParse {
    let cs: Vec<char> = s.chars().collect();
    if cs.len() < 2 {
        return rej!("too-short");
    }
    let (first, last) = (cs[0], cs[cs.len() - 1]);
    let inner = &cs[1..cs.len() - 1];
    let is_hex = |c: &char| c.is_ascii_digit() || ('a'..='f').contains(c) || ('A'..='F').contains(c);
    match (first, last) {
        ('<', '>') => {
            if inner.is_empty() || inner.len() > 64 {
                return rej!("string-length");
            }
            if !inner.iter().all(|c| c.is_ascii_alphanumeric() || *c == '_') {
                return rej!("string-char");
            }
            RefParse::Accept(RefId::Str(inner.iter().collect()))
        }
        ('#', '#') => {
            if inner.is_empty() {
                return rej!("integer-empty");
            }
            if !inner.iter().all(|c| c.is_ascii_digit()) {
                return rej!("integer-non-digit");
            }
            if inner.len() > 1 && inner[0] == '0' {
                return rej!("integer-leading-zero");
            }
            if inner.len() > 20 {
                return rej!("integer-range");
            }
            let mut v: u128 = 0;
            for c in inner {
                v = v * 10 + (*c as u128 - '0' as u128);
            }
            if v > u64::MAX as u128 {
                return rej!("integer-range");
            }
            RefParse::Accept(RefId::Int(v as u64))
        }
        ('[', ']') => {
            if inner.is_empty() || inner.len() % 2 != 0 || inner.len() > 128 || !inner.iter().all(is_hex) {
                return rej!("bytes");
            }
            let txt: String = inner.iter().collect();
            let bytes = crate::unhex_strict(&txt).unwrap();
            if inner.iter().any(|c| c.is_ascii_uppercase()) {
                RefParse::Lenient(RefId::Bytes(bytes))
            } else {
                RefParse::Accept(RefId::Bytes(bytes))
            }
        }
        ('{', '}') => {
            if inner.len() != 67 {
                return rej!("ruid-length");
            }
            let mut hex = String::new();
            for (i, c) in inner.iter().enumerate() {
                if i == 16 || i == 33 || i == 50 {
                    if *c != '-' {
                        return rej!("ruid-hyphen");
                    }
                } else if is_hex(c) {
                    hex.push(*c);
                } else {
                    return rej!("ruid-char");
                }
            }
            let b: [u8; 32] = crate::unhex_strict(&hex).unwrap().try_into().unwrap();
            if hex.chars().any(|c| c.is_ascii_uppercase()) {
                RefParse::Lenient(RefId::Ruid(b))
            } else {
                RefParse::Accept(RefId::Ruid(b))
            }
        }
        _ => rej!("unknown-brackets"),
    }
}

fn to_ref(x: &NonFungibleLocalId) -> RefId {
    match x {
        NonFungibleLocalId::String(v) => RefId::Str(v.value().to_string()),
        NonFungibleLocalId::Integer(v) => RefId::Int(v.value()),
        NonFungibleLocalId::Bytes(v) => RefId::Bytes(v.value().to_vec()),
        NonFungibleLocalId::RUID(v) => RefId::Ruid(*v.value()),
    }
}

fn kind_of(r: &RefId) -> &'static str {
    match r {
        RefId::Str(_) => "string",
        RefId::Int(_) => "integer",
        RefId::Bytes(_) => "bytes",
        RefId::Ruid(_) => "ruid",
    }
}

/// Distinct accepted texts (sharded set of 128-bit fingerprints).
struct Acc {
    accepted_texts: Vec<Mutex<HashSet<[u8; 16]>>>,
}

impl Acc {
    fn new() -> Acc {
        Acc { accepted_texts: (0..256).map(|_| Mutex::new(HashSet::new())).collect() }
    }
    fn accept(&self, s: &str) {
        let fp: [u8; 16] = mc_core::fp128(s.as_bytes()).try_into().unwrap();
        if let Ok(mut g) = self.accepted_texts[fp[0] as usize].lock() {
            g.insert(fp);
        }
    }
    fn distinct_accepted(&self) -> u64 {
        self.accepted_texts.iter().map(|m| m.lock().unwrap().len() as u64).sum()
    }
}

/// Everything demanded of an id value the code produced: content valid, text and SBOR round trips.
fn check_id_value(x: &NonFungibleLocalId, l: &mut Local, case: &dyn Fn() -> Value) -> RefId {
    let r = to_ref(x);
    if !ref_content_valid(&r) {
        l.violation(format!("local-id-invalid-content:{}", kind_of(&r)), format!("the code produced an id whose content is not valid: {r:?}"), case());
    }
    match catch(|| x.to_string()) {
        Ok(shown) => {
            if shown != ref_display(&r) {
                l.violation(format!("local-id-display:{}", kind_of(&r)), format!("to_string = {shown:?}, documented form = {:?}", ref_display(&r)), case());
            }
            match catch(|| NonFungibleLocalId::from_str(&shown)) {
                Ok(Ok(y)) if &y == x => {}
                other => {
                    l.violation(format!("local-id-text-roundtrip:{}", kind_of(&r)), format!("from_str(to_string(id)) = {other:?} for id {r:?}"), case());
                }
            }
        }
        Err(p) => l.violation("local-id-display-panic", format!("to_string panicked: {p}"), case()),
    }
    match catch(|| scrypto_encode(x).map(|b| (scrypto_decode::<NonFungibleLocalId>(&b), b))) {
        Ok(Ok((Ok(y), _))) if &y == x => {}
        other => {
            l.violation(format!("local-id-sbor-roundtrip:{}", kind_of(&r)), format!("scrypto round trip of {r:?} = {:?}", other.map(|o| o.map(|p| p.0))), case());
        }
    }
    match catch(|| manifest_encode(x).map(|b| manifest_decode::<NonFungibleLocalId>(&b))) {
        Ok(Ok(Ok(y))) if &y == x => {}
        other => {
            l.violation(format!("local-id-manifest-sbor-roundtrip:{}", kind_of(&r)), format!("manifest round trip of {r:?} = {other:?}"), case());
        }
    }
    r
}

fn check_local_id_text(s: &str, l: &mut Local, acc: &Acc) {
    l.eval();
    let case = || json!({"kind": "local-id-text", "text": s});
    let expect = ref_parse_local_id(s);
    let real = match catch(|| NonFungibleLocalId::from_str(s)) {
        Ok(r) => r,
        Err(p) => {
            l.violation(format!("local-id-parse-panic@{}", mc_core::last_panic_location()), format!("from_str({s:?}) panicked: {p}"), case());
            return;
        }
    };
    match (&expect, &real) {
        (RefParse::Reject(_, label), Err(_)) => {
            l.class(label);
        }
        (RefParse::Reject(why, _), Ok(x)) => {
            let r = to_ref(x);
            l.violation(format!("local-id-accepts-invalid:{why}"), format!("from_str({s:?}) = Ok({r:?}) but the text is not the text of a valid id ({why})"), case());
        }
        (RefParse::Accept(id), Ok(x)) | (RefParse::Lenient(id), Ok(x)) => {
            let r = check_id_value(x, l, &case);
            if &r != id {
                l.violation(format!("local-id-wrong-value:{}", kind_of(id)), format!("from_str({s:?}) = {r:?}, expected {id:?}"), case());
            }
            if matches!(expect, RefParse::Accept(_)) {
                // canonical text: text -> id -> text is the identity
                if ref_display(&r) != s {
                    l.violation("local-id-text-not-canonical", format!("{s:?} parsed to {r:?} whose text is {:?}", ref_display(&r)), case());
                }
                l.class(&format!("id-accepted:{}", kind_of(id)));
                acc.accept(s);
                l.sample(|| json!({"text": s, "id": format!("{r:?}")}));
            } else {
                l.info("upper-case-hex-accepted");
                l.class("id-accepted:lenient-hex-case");
            }
        }
        (RefParse::Accept(id), Err(err)) => {
            l.violation(format!("local-id-rejects-valid:{}", kind_of(id)), format!("from_str({s:?}) = Err({err:?}) but it is the text of {id:?}"), case());
        }
        (RefParse::Lenient(_), Err(_)) => {
            l.info("upper-case-hex-rejected");
            l.class("id-rejected:lenient-hex-case");
        }
    }
}

fn check_local_id_binary(bytes: &[u8], l: &mut Local) {
    l.eval();
    let case = || json!({"kind": "local-id-binary", "hex": mc_core::hex(bytes)});
    match catch(|| scrypto_decode::<NonFungibleLocalId>(bytes)) {
        Err(p) => l.violation(format!("local-id-binary-decode-panic@{}", mc_core::last_panic_location()), format!("scrypto_decode panicked: {p}"), case()),
        Ok(Err(_)) => l.class("binary-rejected"),
        Ok(Ok(x)) => {
            check_id_value(&x, l, &case);
            match scrypto_encode(&x) {
                Ok(b) if b == bytes => l.class("binary-accepted"),
                _ => {
                    l.class("binary-accepted");
                    l.info("binary-noncanonical-encoding-accepted");
                }
            }
        }
    }
}

/// A valid id built from the reference side: constructors, text, SBOR.
fn check_valid_id(id: &RefId, l: &mut Local, acc: &Acc, texts: &mut BTreeSet<String>, encs: &mut BTreeSet<Vec<u8>>) {
    let built = match id {
        RefId::Str(s) => NonFungibleLocalId::string(s.as_str()).ok(),
        RefId::Int(n) => Some(NonFungibleLocalId::integer(*n)),
        RefId::Bytes(b) => NonFungibleLocalId::bytes(b.clone()).ok(),
        RefId::Ruid(b) => Some(NonFungibleLocalId::ruid(*b)),
    };
    let case = || json!({"kind": "local-id-value", "id": format!("{id:?}")});
    let Some(x) = built else {
        l.eval();
        l.violation(format!("local-id-constructor-rejects-valid:{}", kind_of(id)), format!("{id:?}"), case());
        return;
    };
    let text = ref_display(id);
    check_local_id_text(&text, l, acc);
    match NonFungibleLocalId::from_str(&text) {
        Ok(y) if y == x => {}
        other => l.violation(format!("local-id-constructor-vs-text:{}", kind_of(id)), format!("constructor gives {:?}, from_str({text:?}) gives {other:?}", to_ref(&x)), case()),
    }
    texts.insert(x.to_string());
    if let Ok(b) = scrypto_encode(&x) {
        encs.insert(b);
    }
    if let Ok(b) = manifest_encode(&x) {
        encs.insert(b);
    }
}

fn valid_id_set(thorough: bool) -> Vec<RefId> {
    let mut v = vec![];
    // strings: every allowed single character, lengths 1..=64, mixed
    for c in ('a'..='z').chain('A'..='Z').chain('0'..='9').chain(['_']) {
        v.push(RefId::Str(c.to_string()));
    }
    for n in 1..=64usize {
        v.push(RefId::Str("a".repeat(n)));
        v.push(RefId::Str((0..n).map(|i| b"_0Zz9A"[i % 6] as char).collect()));
    }
    // integers: boundary lattice
    let mut ints: BTreeSet<u64> = (0..=20u64).collect();
    for k in 0..64 {
        let p = 1u64 << k;
        ints.extend([p, p - 1, p.wrapping_add(1)]);
    }
    let mut p = 1u64;
    for _ in 0..20 {
        ints.extend([p, p - 1, p + 1]);
        p = p.saturating_mul(10);
    }
    ints.extend([u64::MAX, u64::MAX - 1, 12345678901234567890]);
    v.extend(ints.into_iter().map(RefId::Int));
    // bytes: every single byte, lengths 1..=64, patterns
    for b in 0..=255u8 {
        v.push(RefId::Bytes(vec![b]));
    }
    for n in 1..=64usize {
        v.push(RefId::Bytes(vec![0; n]));
        v.push(RefId::Bytes(vec![0xff; n]));
        v.push(RefId::Bytes((0..n).map(|i| (i * 37 + 11) as u8).collect()));
    }
    // ruid: zero, ones, ascending, every single bit
    v.push(RefId::Ruid([0; 32]));
    v.push(RefId::Ruid([0xff; 32]));
    v.push(RefId::Ruid(core::array::from_fn(|i| (i * 8 + 1) as u8)));
    for bit in 0..256 {
        let mut b = [0u8; 32];
        b[bit / 8] = 1 << (bit % 8);
        v.push(RefId::Ruid(b));
    }
    if thorough {
        for hi in 0..=255u8 {
            for lo in [0u8, 1, 0x7f, 0x80, 0xff] {
                v.push(RefId::Bytes(vec![hi, lo]));
            }
        }
        for byte in 0..32 {
            for val in 0..=255u8 {
                let mut b = [0x5au8; 32];
                b[byte] = val;
                v.push(RefId::Ruid(b));
            }
        }
    }
    v
}

fn strings_over(alphabet: &[char], max_len: u32, prefix: &str, suffix: &str, ctx: &Ctx, acc: &Acc) {
    let n = gen::count_upto(alphabet.len() as u64, max_len);
    par_range(ctx, n, 8192, |i, l| {
        let mut buf: Vec<char> = Vec::with_capacity(8);
        gen::nth_string(alphabet, i, &mut buf);
        let mut s = String::with_capacity(prefix.len() + suffix.len() + 4 * buf.len());
        s.push_str(prefix);
        s.extend(buf.iter());
        s.push_str(suffix);
        check_local_id_text(&s, l, acc);
    });
}

// ------------------------------------------------------------------------------------------------
// G1: global ids
// ------------------------------------------------------------------------------------------------

fn check_global_text(nets: &[Net], ni: usize, s: &str, expect: Option<(&[u8; 30], &RefId)>, must_reject: Option<&str>, l: &mut Local) {
    l.eval();
    let net = &nets[ni];
    let case = || json!({"kind": "global-id-text", "network": ni, "network_name": net.def.logical_name, "text": s, "must_reject": must_reject});
    let r = match catch(|| NonFungibleGlobalId::try_from_canonical_string(&net.dec, s)) {
        Ok(r) => r,
        Err(p) => {
            l.violation(format!("global-id-parse-panic@{}", mc_core::last_panic_location()), format!("try_from_canonical_string({s:?}) panicked: {p}"), case());
            return;
        }
    };
    match r {
        Err(err) => {
            if let Some((raw, id)) = expect {
                l.violation("global-id-rejects-valid", format!("{s:?} on {} = Err({err:?}); expected ({}, {id:?})", net.def.logical_name, mc_core::hex(raw)), case());
            } else {
                l.class("global-id-rejected");
            }
        }
        Ok(g) => {
            if let Some(why) = must_reject {
                l.violation(format!("global-id-accepts:{why}"), format!("{s:?} accepted on {} as {g:?}", net.def.logical_name), case());
                return;
            }
            let raw = g.resource_address().to_vec();
            let rid = check_id_value(g.local_id(), l, &case);
            if let Some((eraw, eid)) = expect {
                if raw != eraw || &rid != eid {
                    l.violation("global-id-wrong-value", format!("{s:?} parsed to ({}, {rid:?}), expected ({}, {eid:?})", mc_core::hex(&raw), mc_core::hex(eraw)), case());
                }
            }
            // canonical: text -> id -> text (modulo hex / bech32 letter case, which is informational)
            let shown = g.to_canonical_string(&net.enc);
            if shown != s {
                if shown.to_ascii_lowercase() == s.to_ascii_lowercase() {
                    l.info("global-id-case-variant-accepted");
                } else {
                    l.violation("global-id-text-not-canonical", format!("{s:?} parsed to an id whose canonical text is {shown:?}"), case());
                }
            }
            match (scrypto_encode(&g).map(|b| scrypto_decode::<NonFungibleGlobalId>(&b)), manifest_encode(&g).map(|b| manifest_decode::<NonFungibleGlobalId>(&b))) {
                (Ok(Ok(a)), Ok(Ok(b))) if a == g && b == g => {}
                other => l.violation("global-id-sbor-roundtrip", format!("{s:?}: {other:?}"), case()),
            }
            l.class("global-id-accepted");
        }
    }
}

// ------------------------------------------------------------------------------------------------
// driver
// ------------------------------------------------------------------------------------------------

fn bodies(thorough: bool) -> Vec<[u8; 29]> {
    let mut v: Vec<[u8; 29]> = vec![[0u8; 29], [0xFF; 29], core::array::from_fn(|i| i as u8), core::array::from_fn(|i| (255 - i) as u8)];
    for bit in 0..29 * 8 {
        let mut b = [0u8; 29];
        b[bit / 8] = 1 << (bit % 8);
        v.push(b);
    }
    if thorough {
        for pos in 0..29 {
            for val in 1..=255u8 {
                if val.count_ones() > 1 {
                    let mut b = [0u8; 29];
                    b[pos] = val;
                    v.push(b);
                }
            }
        }
    }
    v
}

const ASC: [u8; 29] = {
    let mut a = [0u8; 29];
    let mut i = 0;
    while i < 29 {
        a[i] = (i * 9 + 5) as u8;
        i += 1;
    }
    a
};

fn addr_mutation_alphabet() -> Vec<char> {
    let mut a: Vec<char> = b32::CHARSET.iter().map(|c| *c as char).collect();
    a.extend(['1', '_', 'b', 'i', 'o', 'A', 'Q', 'é', ' ']);
    a
}

fn id_mutation_alphabet() -> Vec<char> {
    let mut a: Vec<char> = (0x20u8..0x7f).map(|b| b as char).collect();
    a.extend(['\0', '\n', 'é', '١', '１', 'Ａ']);
    a
}

fn replay(ctx: Ctx, case: Value) -> ! {
    let nets = networks();
    let acc = Acc::new();
    let mut l = Local::new();
    let kind = case.get("kind").and_then(|k| k.as_str()).unwrap_or("").to_string();
    let ni = case.get("network").and_then(|n| n.as_u64()).unwrap_or(0) as usize;
    let text = case.get("text").and_then(|t| t.as_str()).unwrap_or("").to_string();
    match kind.as_str() {
        "address" => {
            let raw: [u8; 30] = mc_core::unhex(case["raw"].as_str().unwrap_or("")).try_into().unwrap_or([0; 30]);
            check_address(&nets, ni, &raw, &mut l);
            println!("REPLAY address {} on {}: encode = {:?}", mc_core::hex(&raw), nets[ni].def.logical_name, nets[ni].enc.encode(&raw));
        }
        "address-text" => {
            let orig: Option<[u8; 30]> = case.get("substitution_of").and_then(|x| x.as_str()).and_then(|h| mc_core::unhex(h).try_into().ok());
            let mr = case.get("must_reject").and_then(|x| x.as_str()).map(|s| s.to_string());
            check_text_on(&nets, ni, &text, orig.as_ref(), mr.as_deref(), &mut l);
            println!("REPLAY decode {text:?} on {}: {:?}", nets[ni].def.logical_name, catch(|| nets[ni].dec.validate_and_decode(&text)));
        }
        "local-id-text" => {
            check_local_id_text(&text, &mut l, &acc);
            println!("REPLAY from_str({text:?}) = {:?}; reference = {:?}", catch(|| NonFungibleLocalId::from_str(&text)), ref_parse_local_id(&text));
        }
        "local-id-binary" => {
            let b = mc_core::unhex(case["hex"].as_str().unwrap_or(""));
            check_local_id_binary(&b, &mut l);
            println!("REPLAY scrypto_decode({}) = {:?}", mc_core::hex(&b), catch(|| scrypto_decode::<NonFungibleLocalId>(&b)));
        }
        "global-id-text" => {
            let mr = case.get("must_reject").and_then(|x| x.as_str()).map(|s| s.to_string());
            check_global_text(&nets, ni, &text, None, mr.as_deref(), &mut l);
            println!("REPLAY try_from_canonical_string({text:?}) on {} = {:?}", nets[ni].def.logical_name, catch(|| NonFungibleGlobalId::try_from_canonical_string(&nets[ni].dec, &text)));
        }
        other => mc_core::machinery_error(&format!("C28 replay: case kind {other:?} is an aggregate law (injectivity / typed try_from sweep); rerun the tier instead")),
    }
    ctx.merge(l);
    ctx.finish(Level::Exploration, "replay of one case", 0, false, Map::new(), &[])
}

pub fn run(ctx: Ctx) -> ! {
    if let Err(e) = b32::self_test() {
        mc_core::machinery_error(&format!("C28: Bech32m reference self-test failed: {e}"));
    }
    if let Some(case) = ctx.read_replay_case() {
        replay(ctx, case);
    }
    let thorough = !ctx.quick();
    let phase = |ctx: &Ctx, next: &str| ctx.note(format!("t={:.1}s: starting {next}", ctx.elapsed_s()));
    let nets = networks();
    let acc = Acc::new();

    phase(&ctx, "A0");
    // ---- A0: typed try_from on raw bytes: all 256 first bytes x 4 bodies, wrong lengths
    {
        let mut l = Local::new();
        let code_valid: Vec<u8> = (0..=255u8).filter(|b| EntityType::from_repr(*b).is_some()).collect();
        let ref_valid: Vec<u8> = {
            let mut v: Vec<u8> = ENTS.iter().map(|x| x.byte).collect();
            v.sort();
            v
        };
        if code_valid != ref_valid {
            l.info("entity-type-set-differs-from-reference-table");
        }
        for first in 0..=255u8 {
            for body in bodies(false).iter().take(4) {
                l.eval();
                let raw = raw_of(first, body);
                let got = typed_from_slice(&raw);
                let exp = typed_expect(first);
                let node = NodeId(raw);
                let got_node = [
                    GlobalAddress::try_from(node).is_ok(),
                    InternalAddress::try_from(node).is_ok(),
                    ComponentAddress::try_from(node).is_ok(),
                    ResourceAddress::try_from(node).is_ok(),
                    PackageAddress::try_from(node).is_ok(),
                ];
                let hexs = mc_core::hex(&raw);
                let got_hex = [
                    GlobalAddress::try_from_hex(&hexs).is_some(),
                    InternalAddress::try_from_hex(&hexs).is_some(),
                    ComponentAddress::try_from_hex(&hexs).is_some(),
                    ResourceAddress::try_from_hex(&hexs).is_some(),
                    PackageAddress::try_from_hex(&hexs).is_some(),
                ];
                if ent(first).is_none() != EntityType::from_repr(first).is_none() {
                    continue; // table and code disagree on validity: informational above
                }
                for k in 0..5 {
                    if got[k] != exp[k] || got_node[k] != exp[k] || got_hex[k] != exp[k] {
                        l.violation(
                            format!("typed-try_from-class:{}", TYPED_NAMES[k]),
                            format!("{}::try_from(first byte {first}) slice={} node={} hex={}, expected {}", TYPED_NAMES[k], got[k], got_node[k], got_hex[k], exp[k]),
                            json!({"kind": "typed-try-from", "raw": hexs}),
                        );
                    }
                }
                l.class(if exp.iter().any(|x| *x) { "typed-try_from:some-class-accepts" } else { "typed-try_from:all-reject" });
            }
        }
        // wrong lengths
        for en in ENTS.iter() {
            for len in [0usize, 1, 29, 31, 60] {
                l.eval();
                let mut v = vec![en.byte; len];
                if len > 0 {
                    v[0] = en.byte;
                }
                if typed_from_slice(&v).iter().any(|x| *x) {
                    l.violation("typed-try_from-length", format!("a {len}-byte slice starting with {} was accepted", en.byte), json!({"kind": "typed-try-from", "raw": mc_core::hex(&v)}));
                }
                l.class("typed-try_from:wrong-length-rejected");
            }
        }
        ctx.merge(l);
    }

    phase(&ctx, "A1");
    // ---- A1: every network x every first byte x bodies
    let bodies_v = bodies(thorough);
    let nb = bodies_v.len() as u64;
    let n_items = nets.len() as u64 * 256 * nb;
    par_range(&ctx, n_items, 64, |i, l| {
        let body = &bodies_v[(i % nb) as usize];
        let first = ((i / nb) % 256) as u8;
        let ni = (i / nb / 256) as usize;
        // unknown entity bytes: 4 bodies are enough (the encoder looks at the first byte only)
        if EntityType::from_repr(first).is_none() && (i % nb) >= 4 {
            return;
        }
        let raw = raw_of(first, body);
        check_address(&nets, ni, &raw, l);
        if first == 93 && (i % nb) == 2 {
            l.sample(|| json!({"network": nets[ni].def.logical_name, "raw": mc_core::hex(&raw), "text": nets[ni].enc.encode(&raw).ok()}));
        }
    });

    // hrp classes as printed by the real encoder; distinct reference classes must have distinct hrps
    {
        let mut l = Local::new();
        for (ni, net) in nets.iter().enumerate() {
            for a in ENTS.iter() {
                for b in ENTS.iter() {
                    l.eval();
                    let ha = net.enc.encode(&raw_of(a.byte, &ASC)).ok().and_then(|t| t.rfind('1').map(|p| t[..p].to_string()));
                    let hb = net.enc.encode(&raw_of(b.byte, &ASC)).ok().and_then(|t| t.rfind('1').map(|p| t[..p].to_string()));
                    if ha.is_none() || hb.is_none() {
                        continue; // reported by A1
                    }
                    if a.hrp != b.hrp && ha == hb {
                        l.violation("hrp-shared-by-different-entity-classes", format!("{} and {} both print hrp {ha:?} on {}", a.name, b.name, net.def.logical_name), json!({"kind": "hrp-classes", "network": ni, "a": a.byte, "b": b.byte}));
                    } else if a.hrp == b.hrp && ha != hb {
                        l.info("same-reference-class-different-hrp");
                    }
                    l.class(if ha == hb { "hrp-class:same" } else { "hrp-class:distinct" });
                }
            }
        }
        ctx.merge(l);
    }

    phase(&ctx, "A2a");
    // ---- A2a: crafted texts: hrp of A (reference table and as printed) x first byte B, on every network
    let crafted: Vec<(usize, usize)> = (0..nets.len()).flat_map(|n| (0..ENTS.len()).map(move |a| (n, a))).collect();
    par_for(&ctx, &crafted, |(ni, ai), l| {
        let net = &nets[*ni];
        let a = &ENTS[*ai];
        let suffix: &str = net.def.hrp_suffix.as_ref();
        let mut hrps = vec![format!("{}_{}", a.hrp, suffix)];
        if let Ok(t) = net.enc.encode(&raw_of(a.byte, &ASC)) {
            if let Some(p) = t.rfind('1') {
                if !hrps.contains(&t[..p].to_string()) {
                    hrps.push(t[..p].to_string());
                }
            }
        }
        // hrps of the same entity class on every other network: must be rejected here
        for other in nets.iter() {
            let h = format!("{}_{}", a.hrp, other.def.hrp_suffix);
            if !hrps.contains(&h) {
                hrps.push(h);
            }
        }
        hrps.push(a.hrp.to_string()); // hrp without any network suffix
        hrps.push(format!("{}_", a.hrp));
        for hrp in &hrps {
            for b in 0..=255u8 {
                let raw = raw_of(b, &ASC);
                let text = b32::encode_m(hrp, &raw);
                // consistency with the encoder of this network; independent part: different reference
                // class, unknown entity byte => must be rejected
                let enc_same = matches!(net.enc.encode(&raw), Ok(t) if t == text);
                let must_reject = match ent(b) {
                    None if EntityType::from_repr(b).is_none() => Some("unknown-entity-byte"),
                    Some(eb) if eb.hrp != a.hrp => Some("entity-type-mismatching-hrp"),
                    Some(_) if !hrp.ends_with(suffix) => Some("hrp-without-this-network-suffix"),
                    _ => None,
                };
                let out = check_text_on(&nets, *ni, &text, None, must_reject, l);
                match (out, enc_same) {
                    (TextOutcome::Accepted, true) => l.class("crafted:own-text-accepted"),
                    (TextOutcome::Rejected, false) => l.class(if must_reject == Some("unknown-entity-byte") { "crafted:unknown-entity-byte-rejected" } else { "crafted:foreign-hrp-or-entity-rejected" }),
                    (TextOutcome::Rejected, true) => l.violation("address-roundtrip", format!("{text} is what the encoder prints on {} but the decoder rejects it", net.def.logical_name), json!({"kind": "address-text", "network": ni, "text": text})),
                    (TextOutcome::Accepted, false) => {} // reported as non-canonical / must_reject by check_text_on
                }
            }
        }
        // wrong checksum constants, empty payload, odd payload lengths, upper case
        let own = format!("{}_{}", a.hrp, suffix);
        let raw = raw_of(a.byte, &ASC);
        for (c, why) in [(b32::BECH32_CONST, "bech32-not-bech32m"), (0, "zero-checksum-constant"), (0x3fff_ffff, "other-checksum-constant")] {
            check_text_on(&nets, *ni, &b32::encode_with_const(&own, &raw, c), None, Some(why), l);
            l.class("crafted:wrong-checksum-constant");
        }
        check_text_on(&nets, *ni, &b32::encode_m(&own, &[]), None, Some("empty-payload"), l);
        for len in [1usize, 2, 29, 31, 32, 60] {
            let mut v = vec![0x11u8; len];
            v[0] = a.byte;
            check_text_on(&nets, *ni, &b32::encode_m(&own, &v), None, None, l);
            l.class("crafted:payload-length!=30");
        }
        let good = b32::encode_m(&own, &raw);
        check_text_on(&nets, *ni, &good.to_ascii_uppercase(), Some(&raw), None, l);
        l.class("crafted:all-upper-case");
    });

    phase(&ctx, "A2b");
    // ---- A2b: single-point mutations of one text per (network, entity type)
    let alpha = addr_mutation_alphabet();
    par_for(&ctx, &crafted, |(ni, ai), l| {
        let raw = raw_of(ENTS[*ai].byte, &ASC);
        let Ok(text) = nets[*ni].enc.encode(&raw) else { return };
        char_mutations(&text, &alpha, &mut |t, subst| {
            let out = check_text_on(&nets, *ni, t, if subst { Some(&raw) } else { None }, None, l);
            l.class(match (subst, out) {
                (true, TextOutcome::Rejected) => "mutation:substitution-rejected",
                (true, TextOutcome::Accepted) => "mutation:substitution-accepted-same-bytes",
                (false, TextOutcome::Rejected) => "mutation:indel-rejected",
                (false, TextOutcome::Accepted) => "mutation:indel-accepted-canonical",
            });
        });
    });

    phase(&ctx, "A2c (thorough)");
    // ---- A2c (thorough): every double substitution in the data part, one text per entity type (simulator)
    let mut double_subst = 0u64;
    if thorough {
        let sim = 2usize;
        let cs: Vec<char> = b32::CHARSET.iter().map(|c| *c as char).collect();
        for en in ENTS.iter() {
            let raw = raw_of(en.byte, &ASC);
            let Ok(text) = nets[sim].enc.encode(&raw) else { continue };
            let sep = text.rfind('1').unwrap() + 1;
            let chars: Vec<char> = text.chars().collect();
            let n = chars.len() - sep;
            let pairs: Vec<(usize, usize)> = (0..n).flat_map(|i| (i + 1..n).map(move |j| (i, j))).collect();
            double_subst += pairs.len() as u64 * 31 * 31;
            par_for(&ctx, &pairs, |(i, j), l| {
                let mut buf = chars.clone();
                let mut s = String::with_capacity(chars.len());
                for a in &cs {
                    if *a == chars[sep + i] {
                        continue;
                    }
                    buf[sep + i] = *a;
                    for b in &cs {
                        if *b == chars[sep + j] {
                            continue;
                        }
                        buf[sep + j] = *b;
                        s.clear();
                        s.extend(buf.iter());
                        let out = check_text_on(&nets, sim, &s, Some(&raw), None, l);
                        l.class(if out == TextOutcome::Rejected { "mutation:double-substitution-rejected" } else { "mutation:double-substitution-accepted-same-bytes" });
                    }
                }
            });
        }
    }

    phase(&ctx, "L1a");
    // ---- L1a: all strings up to a length over the bracket alphabet
    let alpha_ids: Vec<char> = vec!['<', '>', '#', '[', ']', '{', '}', '0', '1', '9', 'a', 'f', 'g', '_', '-', 'é', '+'];
    let max_len = ctx.pick(5, 7);
    strings_over(&alpha_ids, max_len, "", "", &ctx, &acc);
    phase(&ctx, "L1b");
    // ---- L1b: per-kind families: fixed brackets, richer inner alphabets
    let fam_len = ctx.pick(4, 6);
    strings_over(&['0', '1', '2', '9', '+', '-', '_', ' ', 'a', 'é', '١', '.', 'x'], fam_len, "#", "#", &ctx, &acc);
    strings_over(&['0', '1', '9', 'a', 'f', 'A', 'F', 'g', '-', ' ', 'é'], fam_len, "[", "]", &ctx, &acc);
    strings_over(&['a', 'Z', '0', '_', '-', 'é', ' ', '<', '>', '#', ':'], fam_len, "<", ">", &ctx, &acc);
    if thorough {
        // digits only, up to 8 digits: every canonical / non-canonical numeral of that size
        strings_over(&['0', '1', '2', '3', '4', '5', '6', '7', '8', '9'], 7, "#", "#", &ctx, &acc);
    }

    phase(&ctx, "L1c");
    // ---- L1c: boundary numerals, long contents, RUID forms, single-point mutations of valid texts
    {
        let mut texts: Vec<String> = vec![];
        let big = [
            "18446744073709551614", "18446744073709551615", "18446744073709551616", "18446744073709551617", "18446744073709551625", "18446744073709551715",
            "28446744073709551615", "99999999999999999999", "100000000000000000000", "184467440737095516150", "340282366920938463463374607431768211455",
            "340282366920938463463374607431768211456", "36893488147419103231", "36893488147419103232", "9223372036854775807", "9223372036854775808", "4294967296", "0", "1", "10",
        ];
        for b in big {
            for pre in ["", "0", "00", "+", "-", " ", "0x", "_"] {
                for post in ["", " ", "0", "_", ".0", "e0"] {
                    texts.push(format!("#{pre}{b}{post}#"));
                }
            }
        }
        texts.push(format!("#{}#", "9".repeat(40)));
        texts.push(format!("#{}1#", "0".repeat(40)));
        for s in ["#١٢٣#", "#１#", "#1１#", "##", "#", "###", "#1##", "##1#", "#1#2#", "# #", "#\0#", "#1\0#", "#-0#", "#+0#", "#00#", "#0_0#"] {
            texts.push(s.to_string());
        }
        for n in 0..=70usize {
            texts.push(format!("<{}>", "a".repeat(n)));
            texts.push(format!("<{}>", "_Z9".repeat(n)));
            texts.push(format!("[{}]", "ab".repeat(n)));
            texts.push(format!("[{}]", "AB".repeat(n)));
            texts.push(format!("[{}]", "a".repeat(n)));
            texts.push(format!("#{}#", "1".repeat(n)));
        }
        for c in (0u32..0x80).chain([0xe9, 0x661, 0xff11, 0xff21, 0x1f600]) {
            if let Some(c) = char::from_u32(c) {
                texts.push(format!("<{c}>"));
                texts.push(format!("<a{c}>"));
                texts.push(format!("#{c}#"));
                texts.push(format!("[{c}{c}]"));
                texts.push(format!("[0{c}]"));
            }
        }
        let ruids = [
            "{0000000000000000-0000000000000000-0000000000000000-0000000000000000}".to_string(),
            "{ffffffffffffffff-ffffffffffffffff-ffffffffffffffff-ffffffffffffffff}".to_string(),
            "{0123456789abcdef-fedcba9876543210-1111111111111111-aaaaaaaaaaaaaaaa}".to_string(),
        ];
        for r in &ruids {
            texts.push(r.clone());
            texts.push(r.to_ascii_uppercase());
            texts.push(r.replace('-', ""));
            texts.push(r.replace('-', "_"));
            texts.push(r.replace('-', "--"));
        }
        // RUID-shape family: every single hex position and every PAIR of hex positions substituted by each
        // (pair of) character(s) of {'-','g','G',' ','{','}'}; length and the three separators stay in place
        {
            let subs = ['-', 'g', 'G', ' ', '{', '}'];
            for r in &ruids {
                let cs: Vec<char> = r.chars().collect();
                let hexpos: Vec<usize> = (1..cs.len() - 1).filter(|i| ![17usize, 34, 51].contains(i)).collect();
                for (ai, &i) in hexpos.iter().enumerate() {
                    for a in subs {
                        let mut one = cs.clone();
                        one[i] = a;
                        texts.push(one.iter().collect());
                        for &j in &hexpos[ai + 1..] {
                            for b in subs {
                                let mut two = one.clone();
                                two[j] = b;
                                texts.push(two.iter().collect());
                            }
                        }
                    }
                }
                // hyphen runs around each separator: k positions before and m after replaced by '-'
                for sep in [17usize, 34, 51] {
                    for k in 0..=6usize {
                        for m in 0..=6usize {
                            if k + m == 0 {
                                continue;
                            }
                            let mut v = cs.clone();
                            for d in 1..=k {
                                v[sep - d] = '-';
                            }
                            for d in 1..=m {
                                v[sep + d] = '-';
                            }
                            texts.push(v.iter().collect());
                        }
                    }
                }
            }
        }
        // hyphens moved: 4 groups with lengths summing to 64 around the documented 16/16/16/16
        for a in 14..=18usize {
            for b in 14..=18usize {
                for c in 14..=18usize {
                    let d = 64usize.wrapping_sub(a + b + c);
                    if d <= 64 {
                        texts.push(format!("{{{}-{}-{}-{}}}", "1".repeat(a), "2".repeat(b), "3".repeat(c), "4".repeat(d)));
                    }
                }
            }
        }
        // non-ASCII / multi-byte characters placed so that byte and char counts differ
        texts.push(format!("{{{}-{}-{}-{}}}", "é".repeat(16), "1".repeat(16), "1".repeat(16), "1".repeat(16)));
        texts.push(format!("{{{}é-{}-{}-{}}}", "1".repeat(15), "1".repeat(16), "1".repeat(16), "1".repeat(16)));
        texts.push(format!("{{{}é-{}-{}-{}-}}", "1".repeat(15), "1".repeat(16), "1".repeat(16), "1".repeat(14)));
        texts.push(format!("{{{}-{}-{}-{}é-}}", "1".repeat(16), "1".repeat(16), "1".repeat(16), "1".repeat(13)));
        let malpha = id_mutation_alphabet();
        let mut seeds: Vec<String> = vec!["<abc_123>".into(), "#12345#".into(), "#0#".into(), "#18446744073709551615#".into(), "[deadbeef]".into(), "[00]".into(), "<a>".into()];
        seeds.extend(ruids.iter().cloned());
        for s in &seeds {
            char_mutations(s, &malpha, &mut |t, _| texts.push(t.to_string()));
        }
        par_for(&ctx, &texts, |t, l| check_local_id_text(t, l, &acc));
    }

    phase(&ctx, "L1d");
    // ---- L1d: valid ids from the reference side: constructors, text, SBOR, injectivity
    let ids = valid_id_set(thorough);
    {
        let mut l = Local::new();
        let mut texts = BTreeSet::new();
        let mut encs = BTreeSet::new();
        let distinct: BTreeSet<&RefId> = ids.iter().collect();
        for id in &ids {
            check_valid_id(id, &mut l, &acc, &mut texts, &mut encs);
        }
        if texts.len() != distinct.len() {
            l.violation("local-id-text-injective", format!("{} distinct texts for {} distinct ids", texts.len(), distinct.len()), json!({"kind": "aggregate"}));
        }
        if encs.len() != 2 * distinct.len() {
            l.violation("local-id-sbor-injective", format!("{} distinct SBOR encodings (scrypto+manifest) for {} distinct ids", encs.len(), distinct.len()), json!({"kind": "aggregate"}));
        }
        // constructors reject invalid content
        for n in [0usize, 65, 66, 100] {
            l.eval();
            if NonFungibleLocalId::string("a".repeat(n)).is_ok() || NonFungibleLocalId::bytes(vec![1u8; n]).is_ok() {
                l.violation("local-id-constructor-accepts-invalid-length", format!("length {n}"), json!({"kind": "aggregate"}));
            }
            l.class("constructor-rejects-invalid-length");
        }
        for c in (0u32..0x80).chain([0xe9, 0x661]) {
            let c = char::from_u32(c).unwrap();
            l.eval();
            let ok = NonFungibleLocalId::string(c.to_string()).is_ok();
            let exp = c.is_ascii_alphanumeric() || c == '_';
            if ok != exp {
                l.violation("local-id-constructor-charset", format!("string id {c:?}: accepted={ok}, expected {exp}"), json!({"kind": "aggregate"}));
            }
            l.class(if ok { "constructor-accepts-char" } else { "constructor-rejects-char" });
        }
        ctx.merge(l);
    }

    phase(&ctx, "L1e");
    // ---- L1e: single-point mutations of binary encodings
    {
        let seeds: Vec<Vec<u8>> = [
            RefId::Str("a".into()),
            RefId::Str("abc_XYZ09".into()),
            RefId::Str("z".repeat(64)),
            RefId::Int(0),
            RefId::Int(u64::MAX),
            RefId::Int(0x0102030405060708),
            RefId::Bytes(vec![0]),
            RefId::Bytes(vec![0xde, 0xad, 0xbe, 0xef]),
            RefId::Bytes(vec![0x7f; 64]),
            RefId::Ruid([0; 32]),
            RefId::Ruid(core::array::from_fn(|i| i as u8)),
        ]
        .iter()
        .map(|id| {
            let x = match id {
                RefId::Str(s) => NonFungibleLocalId::string(s.as_str()).unwrap(),
                RefId::Int(n) => NonFungibleLocalId::integer(*n),
                RefId::Bytes(b) => NonFungibleLocalId::bytes(b.clone()).unwrap(),
                RefId::Ruid(b) => NonFungibleLocalId::ruid(*b),
            };
            scrypto_encode(&x).unwrap()
        })
        .collect();
        let quick_alpha: Vec<u8> = vec![0x00, 0x01, 0x02, 0x03, 0x04, 0x08, 0x20, 0x40, 0x41, 0x5c, 0x7f, 0x80, 0xc0, 0xc1, 0xff, b'a', b'-', b'_'];
        let alpha: &[u8] = if thorough { &gen::ALL_BYTES } else { &quick_alpha };
        par_for(&ctx, &seeds, |seed, l| {
            gen::mutations(seed, alpha, |m| check_local_id_binary(m, l));
        });
    }

    phase(&ctx, "G1");
    // ---- G1: global ids
    {
        let local_ids: Vec<RefId> = vec![
            RefId::Str("a".into()),
            RefId::Str("Hello_World_9".into()),
            RefId::Int(0),
            RefId::Int(1),
            RefId::Int(u64::MAX),
            RefId::Bytes(vec![0xab]),
            RefId::Bytes(vec![1; 64]),
            RefId::Ruid(core::array::from_fn(|i| (255 - i) as u8)),
        ];
        let res_bodies = [[0u8; 29], ASC];
        let items: Vec<(usize, u8, usize, usize)> = (0..nets.len())
            .flat_map(|n| [93u8, 154].into_iter().flat_map(move |b| (0..2usize).flat_map(move |bi| (0..8usize).map(move |li| (n, b, bi, li)))))
            .collect();
        par_for(&ctx, &items, |(ni, b, bi, li), l| {
            let net = &nets[*ni];
            let raw = raw_of(*b, &res_bodies[*bi]);
            let id = &local_ids[*li];
            let suffix: &str = net.def.hrp_suffix.as_ref();
            // the global id value, built through the public constructors
            let Ok(res) = ResourceAddress::try_from(raw) else {
                l.violation("typed-try_from-class:ResourceAddress", format!("resource byte {b} rejected"), json!({"kind": "typed-try-from", "raw": mc_core::hex(&raw)}));
                return;
            };
            let lid = NonFungibleLocalId::from_str(&ref_display(id)).ok();
            let Some(lid) = lid else { return }; // reported by L1
            let g = NonFungibleGlobalId::new(res, lid);
            let text = g.to_canonical_string(&net.enc);
            let addr_text = net.enc.encode(&raw).unwrap_or_default();
            let expected_text = format!("{addr_text}:{}", ref_display(id));
            l.eval();
            if text != expected_text {
                l.violation("global-id-display", format!("to_canonical_string = {text:?}, expected {expected_text:?}"), json!({"kind": "global-id-text", "network": ni, "text": expected_text}));
            }
            check_global_text(&nets, *ni, &expected_text, Some((&raw, id)), None, l);
            // other networks
            for (mi, _) in nets.iter().enumerate() {
                if mi != *ni {
                    check_global_text(&nets, mi, &expected_text, None, Some("text-of-another-network"), l);
                }
            }
            if *bi == 1 {
                let lt = ref_display(id);
                // not a resource address
                for en in ENTS.iter().filter(|x| x.cls != Cls::Resource) {
                    if let Ok(t) = net.enc.encode(&raw_of(en.byte, &ASC)) {
                        check_global_text(&nets, *ni, &format!("{t}:{lt}"), None, Some("address-is-not-a-resource"), l);
                    }
                    // resource hrp with a foreign entity byte, valid checksum
                    let t = b32::encode_m(&format!("resource_{suffix}"), &raw_of(en.byte, &ASC));
                    check_global_text(&nets, *ni, &format!("{t}:{lt}"), None, Some("resource-hrp-with-foreign-entity-byte"), l);
                }
                // structure
                for (t, why) in [
                    (format!("{addr_text}{lt}"), "missing-colon"),
                    (format!("{addr_text}::{lt}"), "double-colon"),
                    (format!("{addr_text}:{lt}:"), "trailing-colon"),
                    (format!(":{addr_text}:{lt}"), "leading-colon"),
                    (format!("{addr_text}:{lt}:{lt}"), "three-parts"),
                    (format!("{addr_text}:"), "empty-local-id"),
                    (format!(":{lt}"), "empty-address"),
                    (format!("{lt}:{addr_text}"), "swapped-parts"),
                    (format!(" {addr_text}:{lt}"), "leading-space"),
                    (format!("{addr_text}:{lt} "), "trailing-space"),
                    (format!("{addr_text} : {lt}"), "spaces-around-colon"),
                    (format!("{addr_text};{lt}"), "semicolon"),
                    (format!("{addr_text}:{}", &lt[..lt.len() - 1]), "local-id-truncated"),
                    (format!("{}:{lt}", &addr_text[..addr_text.len() - 1]), "address-truncated"),
                    (String::new(), "empty"),
                    (":".to_string(), "only-colon"),
                ] {
                    check_global_text(&nets, *ni, &t, None, Some(why), l);
                }
                // case variants: informational when accepted
                check_global_text(&nets, *ni, &expected_text.to_ascii_uppercase(), None, None, l);
            }
        });
    }

    phase(&ctx, "finish");
    // ---- finish
    let classes = ctx.classes();
    let get = |k: &str| classes.get(k).copied().unwrap_or(0);
    let addr_rt = get("address-roundtrip-ok");
    let accepted_texts = acc.distinct_accepted();
    let gid_ok = get("global-id-accepted");
    // evaluations whose text had a recognised bracket pair (got past the first rejection branch)
    let bracketed: u64 = classes.iter().filter(|(k, _)| (k.starts_with("id-accepted:") || k.starts_with("id-rejected:")) && !k.ends_with(":unknown-brackets") && !k.ends_with(":too-short")).map(|(_, v)| *v).sum();
    let nontrivial = addr_rt + accepted_texts + gid_ok;
    let mut cov = Map::new();
    cov.insert("networks".into(), json!(nets.iter().map(|n| format!("{}({})", n.def.logical_name, n.def.hrp_suffix)).collect::<Vec<_>>()));
    cov.insert("entity_types".into(), json!(ENTS.len()));
    cov.insert("bodies_per_entity_type".into(), json!(bodies_v.len()));
    cov.insert("address_roundtrips".into(), json!(addr_rt));
    cov.insert("cross_network_decodes".into(), json!(get("other-network-rejected")));
    cov.insert("local_id_alphabet".into(), json!(alpha_ids.iter().collect::<String>()));
    cov.insert("local_id_max_len".into(), json!(max_len));
    cov.insert("local_id_family_inner_max_len".into(), json!(fam_len));
    cov.insert("local_id_texts_past_bracket_recognition".into(), json!(bracketed));
    cov.insert("local_id_distinct_accepted_texts".into(), json!(accepted_texts));
    cov.insert("valid_ids_from_reference".into(), json!(ids.len()));
    cov.insert("global_id_texts_accepted".into(), json!(gid_ok));
    cov.insert("double_substitutions".into(), json!(double_subst));
    ctx.finish(
        Level::Exploration,
        "addresses: every network (9 built-in + 2 custom) x every first byte x bodies (4 patterns + every single-bit body; thorough: + every single-byte body), every hrp-class x first-byte crafted Bech32m text on every network, every single-character substitution/insertion/deletion of one text per (network, entity type) (thorough: every double substitution in the data part, simulator); local ids: every string up to the stated length over the stated alphabet, per-kind families, boundary numerals, mutations; a case is one input text / address / id; non-trivial = (network,address) pairs that round-tripped + distinct local-id texts accepted + global-id texts accepted",
        nontrivial,
        true,
        cov,
        &[
            "network definitions have pairwise distinct, lower-case, Bech32-valid hrp suffixes",
            "hrp class names are not fixed by the statement: a difference from the reference table is informational; only 'ends with the network suffix' and 'distinct entity classes have distinct hrps' are demanded",
            "upper-case hex in [..]/{..} ids and all-upper-case Bech32m text are not decided by the statement (informational)",
            "the low-level decoder returning payloads of length != 30 is informational; typed addresses must reject them",
        ],
    )
}
