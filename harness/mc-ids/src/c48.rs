//! C48 — signature primitives verify exactly the signed messages.
//!
//! Shape I (bounded-exhaustive single-byte / single-bit mutation). For a fixed set of keys (incl. the boundary
//! scalars) and messages, on the real `radix_common::crypto` primitives:
//!   * sign -> verify is true; secp256k1 recovery returns the signer (compressed and uncompressed form agree);
//!   * every single-bit flip and every single-byte substitution by 00/FF (thorough: by every other value) of
//!     the signature, of the message and of the public key makes verification fail (and recovery not return
//!     the signer); every signature also fails against every *other* (key, message) of the set;
//!   * BLS aggregate / fast-aggregate verification over every list (length 1..=3, duplicates allowed) of
//!     (key, message) pairs with every component replaced by a signature on another message / by another key /
//!     by another pair's signature: succeeds <=> the multiset of (signer, message) equals the multiset of
//!     claimed (key, message) pairs (i.e. every component is valid for its message, up to the order in which
//!     the aggregate was summed, which the aggregate does not record).
//! The oracle is the algebraic law of the statement; no second crypto implementation is involved.
//! Informational only (statement silent): high-s ECDSA twin signatures, empty aggregate lists, infinity points.
use mc_core::{catch, par_for, Ctx, Level, Local};
use radix_common::prelude::*;
use serde_json::{json, Map, Value};
use std::collections::BTreeMap;
use std::sync::atomic::{AtomicU64, Ordering};

#[derive(Clone, Copy, PartialEq, Eq, Debug)]
enum Scheme {
    Secp,
    Ed,
    Bls,
}

impl Scheme {
    fn name(&self) -> &'static str {
        match self {
            Scheme::Secp => "secp256k1",
            Scheme::Ed => "ed25519",
            Scheme::Bls => "bls12381",
        }
    }
    fn from_name(s: &str) -> Option<Scheme> {
        match s {
            "secp256k1" => Some(Scheme::Secp),
            "ed25519" => Some(Scheme::Ed),
            "bls12381" => Some(Scheme::Bls),
            _ => None,
        }
    }
}

const SECP_N: [u8; 32] = [
    0xFF, 0xFF, 0xFF, 0xFF, 0xFF, 0xFF, 0xFF, 0xFF, 0xFF, 0xFF, 0xFF, 0xFF, 0xFF, 0xFF, 0xFF, 0xFE, 0xBA, 0xAE, 0xDC, 0xE6, 0xAF, 0x48, 0xA0, 0x3B, 0xBF, 0xD2, 0x5E, 0x8C, 0xD0, 0x36, 0x41, 0x41,
];
const BLS_R: [u8; 32] = [
    0x73, 0xed, 0xa7, 0x53, 0x29, 0x9d, 0x7d, 0x48, 0x33, 0x39, 0xd8, 0x08, 0x09, 0xa1, 0xd8, 0x05, 0x53, 0xbd, 0xa4, 0x02, 0xff, 0xfe, 0x5b, 0xfe, 0xff, 0xff, 0xff, 0xff, 0x00, 0x00, 0x00, 0x01,
];

/// big-endian a - b (a >= b)
fn sub_be(a: &[u8; 32], b: &[u8; 32]) -> [u8; 32] {
    let mut out = [0u8; 32];
    let mut borrow = 0i16;
    for i in (0..32).rev() {
        let mut d = a[i] as i16 - b[i] as i16 - borrow;
        if d < 0 {
            d += 256;
            borrow = 1;
        } else {
            borrow = 0;
        }
        out[i] = d as u8;
    }
    out
}

fn small(n: u8) -> [u8; 32] {
    let mut b = [0u8; 32];
    b[31] = n;
    b
}

fn derived(tag: &str, i: usize) -> [u8; 32] {
    hash(format!("verif-c48-{tag}-{i}").as_bytes()).0
}

struct Signed {
    scheme: Scheme,
    key: usize,
    msg_i: usize,
    key_label: String,
    pk: Vec<u8>,
    msg: Vec<u8>,
    sig: Vec<u8>,
}

#[derive(Debug, Clone, PartialEq)]
struct Outcome {
    verified: bool,
    /// secp256k1 only: recovered compressed key
    recovered: Option<Vec<u8>>,
    recovered_uncompressed: Option<Vec<u8>>,
}

/// Run the real verification primitives on raw bytes (lengths are the types' fixed lengths).
fn verify_raw(scheme: Scheme, pk: &[u8], msg: &[u8], sig: &[u8]) -> Result<Outcome, String> {
    catch(|| match scheme {
        Scheme::Secp => {
            let h = Hash(msg.try_into().expect("32-byte hash"));
            let p = Secp256k1PublicKey(pk.try_into().expect("33-byte key"));
            let s = Secp256k1Signature(sig.try_into().expect("65-byte signature"));
            Outcome {
                verified: verify_secp256k1(&h, &p, &s),
                recovered: verify_and_recover_secp256k1(&h, &s).map(|k| k.0.to_vec()),
                recovered_uncompressed: verify_and_recover_secp256k1_uncompressed(&h, &s).map(|k| k.0.to_vec()),
            }
        }
        Scheme::Ed => {
            let p = Ed25519PublicKey(pk.try_into().expect("32-byte key"));
            let s = Ed25519Signature(sig.try_into().expect("64-byte signature"));
            Outcome { verified: verify_ed25519(msg, &p, &s), recovered: None, recovered_uncompressed: None }
        }
        Scheme::Bls => {
            let p = Bls12381G1PublicKey(pk.try_into().expect("48-byte key"));
            let s = Bls12381G2Signature(sig.try_into().expect("96-byte signature"));
            Outcome { verified: verify_bls12381_v1(msg, &p, &s), recovered: None, recovered_uncompressed: None }
        }
    })
}

fn case_json(kind: &str, s: &Signed, pk: &[u8], msg: &[u8], sig: &[u8], target: &str, pos: usize) -> Value {
    json!({
        "kind": kind, "scheme": s.scheme.name(), "key": s.key_label, "target": target, "position": pos,
        "signer_public_key": mc_core::hex(&s.pk), "public_key": mc_core::hex(pk), "message": mc_core::hex(msg), "signature": mc_core::hex(sig),
        "signed_message": mc_core::hex(&s.msg), "original_signature": mc_core::hex(&s.sig),
    })
}

/// A changed (pk, msg, sig) triple must not verify; for secp256k1, recovery from the changed (msg, sig) must not
/// return the key the triple claims (`pk`). `target` = which component differs from what was signed
/// ("signature" | "message" | "public_key" | "pair" = signature presented for another (key, message)).
fn check_changed(s: &Signed, pk: &[u8], msg: &[u8], sig: &[u8], target: &str, pos: usize, l: &mut Local, hard: &AtomicU64) {
    l.eval();
    let name = s.scheme.name();
    match verify_raw(s.scheme, pk, msg, sig) {
        Err(p) => l.violation(format!("{name}:verify-panics:{target}"), format!("verification panicked on a changed {target}: {p} at {}", mc_core::last_panic_location()), case_json("changed", s, pk, msg, sig, target, pos)),
        Ok(o) => {
            let mut bad = false;
            // ECDSA itself (any correct implementation): the 32-byte hash is used as z = hash mod n, and the
            // verification equation R = (z/s)*G + (r/s)*P maps to -R (same x coordinate, same r) under
            // (z, P) -> (-z mod n, -P). So the *same* signature is valid (a) for a hash congruent mod n to the
            // signed one under the same key and (b) for a hash congruent to the negated one under the negated key
            // (for z == 0 that is the same hash). The message/key sets contain such pairs on purpose (0, n, 1,
            // n-1; scalars 1 and n-1). Not decided by the implementation => informational; exactly these
            // algebraic twins, everything else stays demanded.
            if s.scheme == Scheme::Secp && sig == &s.sig[..] && msg.len() == 32 && pk.len() == 33 {
                let red = |m: &[u8]| -> [u8; 32] {
                    let a: [u8; 32] = m.try_into().unwrap();
                    if a >= SECP_N { sub_be(&a, &SECP_N) } else { a }
                };
                let (z_given, z_signed) = (red(msg), red(&s.msg));
                let neg_signed = if z_signed == [0u8; 32] { z_signed } else { sub_be(&SECP_N, &z_signed) };
                let same_key = pk == &s.pk[..];
                let negated_key = pk[1..] == s.pk[1..] && pk[0] == s.pk[0] ^ 1;
                let twin = (same_key && z_given == z_signed) || (negated_key && z_given == neg_signed);
                if twin && !(same_key && msg == &s.msg[..]) {
                    if o.verified {
                        l.info(if same_key { "ecdsa-hash-congruent-mod-n:verifies(mathematical)" } else { "ecdsa-negated-hash-and-key:verifies(mathematical)" });
                    }
                    l.class("changed:ecdsa-algebraic-twin(informational)");
                    return;
                }
            }
            if o.verified {
                bad = true;
                let key = if s.scheme == Scheme::Secp && target == "signature" && pos == 0 {
                    format!("{name}:verify-ignores-recovery-id")
                } else {
                    format!("{name}:verify-accepts-changed-{target}")
                };
                l.violation(key, format!("{name} verify returned true although the {target} differs from the signed one (byte {pos})"), case_json("changed", s, pk, msg, sig, target, pos));
            }
            if s.scheme == Scheme::Secp {
                if o.recovered.as_deref() == Some(pk) {
                    bad = true;
                    l.violation(format!("{name}:recovery-returns-claimed-key-for-changed-{target}"), format!("recovery returned the claimed key although the {target} differs from the signed one (byte {pos})"), case_json("changed", s, pk, msg, sig, target, pos));
                }
                secp_recover_forms_agree(s, &o, pk, msg, sig, l);
            }
            if bad {
                return;
            }
            if target == "pair" {
                hard.fetch_add(1, Ordering::Relaxed);
                l.class("other-pair:rejected");
            } else if s.scheme == Scheme::Secp && target != "public_key" && o.recovered.is_some() {
                // recovery produced *some other* key: the changed input got through parsing to the curve arithmetic
                hard.fetch_add(1, Ordering::Relaxed);
                l.class("changed:recovers-a-different-key");
            } else {
                l.class(match target {
                    "signature" => "changed-signature:rejected",
                    "message" => "changed-message:rejected",
                    _ => "changed-public-key:rejected",
                });
            }
        }
    }
}

fn secp_recover_forms_agree(s: &Signed, o: &Outcome, pk: &[u8], msg: &[u8], sig: &[u8], l: &mut Local) {
    match (&o.recovered, &o.recovered_uncompressed) {
        (None, None) => {}
        (Some(c), Some(u)) if u.len() == 65 && c.len() == 33 && u[0] == 4 && u[1..33] == c[1..33] && (c[0] == 2 || c[0] == 3) && (u[64] & 1) == (c[0] & 1) => {}
        (c, u) => l.violation(
            "secp256k1:recover-compressed-vs-uncompressed",
            format!("compressed recovery {:?} and uncompressed recovery {:?} do not denote the same point", c.as_ref().map(|x| mc_core::hex(x)), u.as_ref().map(|x| mc_core::hex(x))),
            case_json("recover-forms", s, pk, msg, sig, "signature", 0),
        ),
    }
}

fn candidates(orig: u8, thorough: bool) -> Vec<u8> {
    if thorough {
        (0..=255u8).filter(|v| *v != orig).collect()
    } else {
        let mut v: Vec<u8> = (0..8).map(|b| orig ^ (1 << b)).collect();
        for x in [0x00u8, 0xFF] {
            if x != orig && !v.contains(&x) {
                v.push(x);
            }
        }
        v
    }
}

fn check_valid(s: &Signed, l: &mut Local) -> bool {
    l.eval();
    let name = s.scheme.name();
    match verify_raw(s.scheme, &s.pk, &s.msg, &s.sig) {
        Err(p) => {
            l.violation(format!("{name}:verify-panics:valid"), format!("verification of a fresh signature panicked: {p}"), case_json("valid", s, &s.pk, &s.msg, &s.sig, "none", 0));
            false
        }
        Ok(o) => {
            let mut ok = true;
            if !o.verified {
                ok = false;
                l.violation(format!("{name}:valid-signature-rejected"), format!("{name}: signature by key {} does not verify", s.key_label), case_json("valid", s, &s.pk, &s.msg, &s.sig, "none", 0));
            }
            if s.scheme == Scheme::Secp {
                if o.recovered.as_deref() != Some(&s.pk[..]) {
                    ok = false;
                    l.violation("secp256k1:recovery-does-not-return-signer", format!("recovered {:?}, signer {}", o.recovered.as_ref().map(|x| mc_core::hex(x)), mc_core::hex(&s.pk)), case_json("valid", s, &s.pk, &s.msg, &s.sig, "none", 0));
                }
                secp_recover_forms_agree(s, &o, &s.pk, &s.msg, &s.sig, l);
            }
            if ok {
                l.class(match s.scheme {
                    Scheme::Secp => "valid:secp256k1-verified-and-recovered",
                    Scheme::Ed => "valid:ed25519-verified",
                    Scheme::Bls => "valid:bls12381-verified",
                });
                l.sample(|| json!({"scheme": name, "key": s.key_label, "public_key": mc_core::hex(&s.pk), "message": mc_core::hex(&s.msg), "signature": mc_core::hex(&s.sig)}));
            }
            ok
        }
    }
}

// ------------------------------------------------------------------------------------------------
// key / message sets
// ------------------------------------------------------------------------------------------------

fn secp_keys(thorough: bool) -> Vec<(String, [u8; 32])> {
    let mut v = vec![
        ("scalar-1".to_string(), small(1)),
        ("scalar-n-1".to_string(), sub_be(&SECP_N, &small(1))),
        ("derived-0".to_string(), derived("secp", 0)),
        ("derived-1".to_string(), derived("secp", 1)),
    ];
    if thorough {
        v.push(("scalar-2".into(), small(2)));
        v.push(("scalar-3".into(), small(3)));
        v.push(("scalar-n-2".into(), sub_be(&SECP_N, &small(2))));
        let mut half = SECP_N; // (n-1)/2 : shift right by one
        let mut carry = 0u8;
        for b in half.iter_mut() {
            let nc = *b & 1;
            *b = (*b >> 1) | (carry << 7);
            carry = nc;
        }
        v.push(("scalar-(n-1)/2".into(), half));
        for i in 2..6 {
            v.push((format!("derived-{i}"), derived("secp", i)));
        }
    }
    v
}

fn hashes(thorough: bool) -> Vec<Vec<u8>> {
    let mut v = vec![vec![0u8; 32], vec![0xFF; 32], derived("msg", 0).to_vec(), derived("msg", 1).to_vec()];
    if thorough {
        v.push(SECP_N.to_vec()); // z = n  (== 0 mod n)
        v.push(sub_be(&SECP_N, &small(1)).to_vec());
        v.push(small(1).to_vec());
        v.push(derived("msg", 2).to_vec());
    }
    v
}

fn var_messages(thorough: bool) -> Vec<Vec<u8>> {
    let mut v = vec![vec![], vec![0x00], derived("vmsg", 0).to_vec(), (0..100u8).collect::<Vec<u8>>()];
    if thorough {
        v.push(vec![0xFF]);
        v.push((0..33u8).map(|i| i.wrapping_mul(29)).collect());
    }
    v
}

fn ed_seeds(thorough: bool) -> Vec<(String, [u8; 32])> {
    let mut v = vec![("seed-zero".to_string(), [0u8; 32]), ("seed-ones".to_string(), [0xFF; 32]), ("derived-0".to_string(), derived("ed", 0)), ("derived-1".to_string(), derived("ed", 1))];
    if thorough {
        v.push(("seed-1".into(), small(1)));
        for i in 2..5 {
            v.push((format!("derived-{i}"), derived("ed", i)));
        }
    }
    v
}

fn bls_scalar(tag: &str, i: usize) -> [u8; 32] {
    let mut b = derived(tag, i);
    b[0] &= 0x3f; // < r
    b
}

fn bls_keys(thorough: bool) -> Vec<(String, [u8; 32])> {
    let mut v = vec![("scalar-1".to_string(), small(1)), ("scalar-r-1".to_string(), sub_be(&BLS_R, &small(1))), ("derived-0".to_string(), bls_scalar("bls", 0))];
    if thorough {
        v.push(("derived-1".into(), bls_scalar("bls", 1)));
        v.push(("derived-2".into(), bls_scalar("bls", 2)));
        v.push(("scalar-2".into(), small(2)));
    }
    v
}

fn sign_all(ctx: &Ctx, thorough: bool) -> Vec<Signed> {
    let mut out = vec![];
    let mut l = Local::new();
    for (ki, (label, sk)) in secp_keys(thorough).iter().enumerate() {
        let Ok(k) = Secp256k1PrivateKey::from_bytes(sk) else {
            l.violation("secp256k1:valid-secret-scalar-rejected", format!("secret scalar {label} rejected"), json!({"kind": "key", "scheme": "secp256k1", "key": label}));
            continue;
        };
        let pk = k.public_key().0.to_vec();
        for (mi, m) in hashes(thorough).iter().enumerate() {
            let h = Hash(m.as_slice().try_into().unwrap());
            match catch(|| k.sign(&h)) {
                Ok(sig) => out.push(Signed { scheme: Scheme::Secp, key: ki, msg_i: mi, key_label: label.clone(), pk: pk.clone(), msg: m.clone(), sig: sig.0.to_vec() }),
                Err(p) => l.violation("secp256k1:sign-panics", format!("sign panicked: {p}"), json!({"kind": "key", "scheme": "secp256k1", "key": label, "message": mc_core::hex(m)})),
            }
        }
    }
    for (ki, (label, seed)) in ed_seeds(thorough).iter().enumerate() {
        let Ok(k) = Ed25519PrivateKey::from_bytes(seed) else {
            l.violation("ed25519:valid-seed-rejected", format!("seed {label} rejected"), json!({"kind": "key", "scheme": "ed25519", "key": label}));
            continue;
        };
        let pk = k.public_key().0.to_vec();
        let mut msgs = hashes(false);
        msgs.extend(var_messages(thorough));
        for (mi, m) in msgs.iter().enumerate() {
            match catch(|| k.sign(m)) {
                Ok(sig) => out.push(Signed { scheme: Scheme::Ed, key: ki, msg_i: mi, key_label: label.clone(), pk: pk.clone(), msg: m.clone(), sig: sig.0.to_vec() }),
                Err(p) => l.violation("ed25519:sign-panics", format!("sign panicked: {p}"), json!({"kind": "key", "scheme": "ed25519", "key": label, "message": mc_core::hex(m)})),
            }
        }
    }
    for (ki, (label, sk)) in bls_keys(thorough).iter().enumerate() {
        let Ok(k) = Bls12381G1PrivateKey::from_bytes(sk) else {
            l.violation("bls12381:valid-secret-scalar-rejected", format!("secret scalar {label} rejected"), json!({"kind": "key", "scheme": "bls12381", "key": label}));
            continue;
        };
        let pk = k.public_key().0.to_vec();
        for (mi, m) in var_messages(thorough).iter().enumerate() {
            match catch(|| k.sign_v1(m)) {
                Ok(sig) => out.push(Signed { scheme: Scheme::Bls, key: ki, msg_i: mi, key_label: label.clone(), pk: pk.clone(), msg: m.clone(), sig: sig.0.to_vec() }),
                Err(p) => l.violation("bls12381:sign-panics", format!("sign panicked: {p}"), json!({"kind": "key", "scheme": "bls12381", "key": label, "message": mc_core::hex(m)})),
            }
        }
    }
    ctx.merge(l);
    out
}

// ------------------------------------------------------------------------------------------------
// degenerate encodings: keys no private key produces, signatures no signer produces
// ------------------------------------------------------------------------------------------------

fn hx(s: &str) -> Vec<u8> {
    crate::unhex_strict(s).expect("hex literal")
}

/// The 8 points of small order on edwards25519 (canonical encodings) + their non-canonical encodings
/// (y >= p, i.e. y = p and y = p + 1, and the "negative zero" x sign bit on the points with x = 0).
fn ed_small_order_encodings() -> Vec<(String, Vec<u8>)> {
    let mut v: Vec<(String, Vec<u8>)> = vec![
        ("identity(order1)".into(), hx("0100000000000000000000000000000000000000000000000000000000000000")),
        ("y=-1(order2)".into(), hx("ecffffffffffffffffffffffffffffffffffffffffffffffffffffffffffff7f")),
        ("y=0(order4)".into(), hx("0000000000000000000000000000000000000000000000000000000000000000")),
        ("y=0,sign(order4)".into(), hx("0000000000000000000000000000000000000000000000000000000000000080")),
        ("order8-a".into(), hx("26e8958fc2b227b045c3f489f2ef98f0d5dfac05d3c63339b13802886d53fc05")),
        ("order8-a,sign".into(), hx("26e8958fc2b227b045c3f489f2ef98f0d5dfac05d3c63339b13802886d53fc85")),
        ("order8-b".into(), hx("c7176a703d4dd84fba3c0b760d10670f2a2053fa2c39ccc64ec7fd7792ac037a")),
        ("order8-b,sign".into(), hx("c7176a703d4dd84fba3c0b760d10670f2a2053fa2c39ccc64ec7fd7792ac03fa")),
        // non-canonical
        ("identity,negative-zero".into(), hx("0100000000000000000000000000000000000000000000000000000000000080")),
        ("y=-1,negative-zero".into(), hx("ecffffffffffffffffffffffffffffffffffffffffffffffffffffffffffffff")),
        ("y=p(=0)".into(), hx("edffffffffffffffffffffffffffffffffffffffffffffffffffffffffffff7f")),
        ("y=p(=0),sign".into(), hx("edffffffffffffffffffffffffffffffffffffffffffffffffffffffffffffff")),
        ("y=p+1(=1)".into(), hx("eeffffffffffffffffffffffffffffffffffffffffffffffffffffffffffff7f")),
        ("y=p+1(=1),sign".into(), hx("eeffffffffffffffffffffffffffffffffffffffffffffffffffffffffffffff")),
    ];
    v.push(("all-ones".into(), vec![0xff; 32]));
    v
}

const ED_L_LE: &str = "edd3f55c1a631258d69cf7a2def9de1400000000000000000000000000000010";

struct Degenerate {
    scheme: Scheme,
    label: String,
    pk: Vec<u8>,
    sig: Vec<u8>,
}

/// (key, signature) pairs built from degenerate encodings, crossed with an honest key / honest signature parts.
fn degenerate_space(signed: &[Signed]) -> Vec<Degenerate> {
    let mut out = vec![];
    // ---- ed25519: pk in small-order encodings (+ honest) x R in the same set (+ honest R) x s in {0,1,L,L-1,honest s}
    if let Some(h) = signed.iter().find(|s| s.scheme == Scheme::Ed && s.key_label.starts_with("derived")) {
        let mut pks = ed_small_order_encodings();
        pks.push(("honest-key".into(), h.pk.clone()));
        let mut rs = ed_small_order_encodings();
        rs.push(("honest-R".into(), h.sig[..32].to_vec()));
        let l = hx(ED_L_LE);
        let mut l_minus_1 = l.clone();
        l_minus_1[0] -= 1;
        let mut one = vec![0u8; 32];
        one[0] = 1;
        let ss: Vec<(String, Vec<u8>)> = vec![("s=0".into(), vec![0u8; 32]), ("s=1".into(), one), ("s=L".into(), l), ("s=L-1".into(), l_minus_1), ("honest-s".into(), h.sig[32..].to_vec()), ("s=ones".into(), vec![0xff; 32])];
        for (pl, pk) in &pks {
            for (rl, r) in &rs {
                for (sl, sv) in &ss {
                    if pl == "honest-key" && rl == "honest-R" && sl == "honest-s" {
                        continue; // the honest triple is covered by the main sweep
                    }
                    let mut sig = r.clone();
                    sig.extend_from_slice(sv);
                    out.push(Degenerate { scheme: Scheme::Ed, label: format!("pk={pl} R={rl} {sl}"), pk: pk.clone(), sig });
                }
            }
        }
    }
    // ---- secp256k1: invalid / infinity key encodings (+ honest) x r,s in {0, 1, n, n-1, honest} x recovery id 0..=3
    if let Some(h) = signed.iter().find(|s| s.scheme == Scheme::Secp && s.key_label.starts_with("derived")) {
        let p_hex = "fffffffffffffffffffffffffffffffffffffffffffffffffffffffefffffc2f";
        let mut pks: Vec<(String, Vec<u8>)> = vec![
            ("all-zero(infinity)".into(), vec![0u8; 33]),
            ("02,x=0(not-on-curve)".into(), hx(&format!("02{}", "00".repeat(32)))),
            ("03,x=0(not-on-curve)".into(), hx(&format!("03{}", "00".repeat(32)))),
            ("02,x=p".into(), hx(&format!("02{p_hex}"))),
            ("02,x=ones".into(), hx(&format!("02{}", "ff".repeat(32)))),
            ("all-ones".into(), vec![0xff; 33]),
        ];
        for prefix in [0x00u8, 0x01, 0x04, 0x05, 0x06, 0x07] {
            let mut k = h.pk.clone();
            k[0] = prefix;
            pks.push((format!("honest-x,prefix={prefix:02x}"), k));
        }
        pks.push(("honest-key".into(), h.pk.clone()));
        let n_minus_1 = sub_be(&SECP_N, &small(1));
        let vals: Vec<(String, Vec<u8>)> = vec![("0".into(), vec![0u8; 32]), ("1".into(), small(1).to_vec()), ("n".into(), SECP_N.to_vec()), ("n-1".into(), n_minus_1.to_vec()), ("ones".into(), vec![0xff; 32])];
        let mut rvals = vals.clone();
        rvals.push(("honest".into(), h.sig[1..33].to_vec()));
        let mut svals = vals;
        svals.push(("honest".into(), h.sig[33..65].to_vec()));
        for (pl, pk) in &pks {
            for (rl, r) in &rvals {
                for (sl, sv) in &svals {
                    let honest_rs = rl == "honest" && sl == "honest";
                    if pl == "honest-key" && honest_rs {
                        continue;
                    }
                    for recid in 0..4u8 {
                        if !honest_rs && pl != "honest-key" && recid > 0 {
                            continue; // the recovery id only matters for recovery, which ignores the key
                        }
                        let mut sig = vec![recid];
                        sig.extend_from_slice(r);
                        sig.extend_from_slice(sv);
                        out.push(Degenerate { scheme: Scheme::Secp, label: format!("pk={pl} r={rl} s={sl} recid={recid}"), pk: pk.clone(), sig });
                    }
                }
            }
        }
    }
    // ---- BLS12-381: infinity / zero / flag-only encodings of key and signature (+ honest)
    if let Some(h) = signed.iter().find(|s| s.scheme == Scheme::Bls && s.key_label.starts_with("derived")) {
        let enc = |len: usize, first: u8, last: u8| {
            let mut v = vec![0u8; len];
            v[0] = first;
            v[len - 1] |= last;
            v
        };
        let mut pks: Vec<(String, Vec<u8>)> = vec![
            ("infinity(c0)".into(), enc(48, 0xc0, 0)),
            ("infinity-flag,not-compressed(40)".into(), enc(48, 0x40, 0)),
            ("infinity+sign(e0)".into(), enc(48, 0xe0, 0)),
            ("infinity,trailing-1".into(), enc(48, 0xc0, 1)),
            ("all-zero".into(), enc(48, 0, 0)),
            ("compressed,x=0(80)".into(), enc(48, 0x80, 0)),
            ("all-ones".into(), vec![0xff; 48]),
        ];
        pks.push(("honest-key".into(), h.pk.clone()));
        let mut sigs: Vec<(String, Vec<u8>)> = vec![
            ("infinity(c0)".into(), enc(96, 0xc0, 0)),
            ("infinity-flag,not-compressed(40)".into(), enc(96, 0x40, 0)),
            ("infinity+sign(e0)".into(), enc(96, 0xe0, 0)),
            ("infinity,trailing-1".into(), enc(96, 0xc0, 1)),
            ("all-zero".into(), enc(96, 0, 0)),
            ("compressed,x=0(80)".into(), enc(96, 0x80, 0)),
            ("all-ones".into(), vec![0xff; 96]),
        ];
        sigs.push(("honest-signature".into(), h.sig.clone()));
        for (pl, pk) in &pks {
            for (sl, sig) in &sigs {
                if pl == "honest-key" && sl == "honest-signature" {
                    continue;
                }
                out.push(Degenerate { scheme: Scheme::Bls, label: format!("pk={pl} sig={sl}"), pk: pk.clone(), sig: sig.clone() });
            }
        }
    }
    out
}

/// secp256k1: two hashes denote the same ECDSA message iff congruent mod n
fn secp_same_z(a: &[u8], b: &[u8]) -> bool {
    let red = |m: &[u8]| -> [u8; 32] {
        let a: [u8; 32] = m.try_into().unwrap();
        if a >= SECP_N {
            sub_be(&a, &SECP_N)
        } else {
            a
        }
    };
    red(a) == red(b)
}

/// Literal consequence of the statement ("any change to the message makes verification fail"): one fixed
/// (key, signature) pair must not verify for two different messages; for secp256k1 recovery, one signature must
/// not recover the same key for two different messages. A single acceptance is informational (the statement
/// does not say that only signers can produce verifying signatures).
fn check_degenerate(d: &Degenerate, msgs: &[Vec<u8>], l: &mut Local) {
    let name = d.scheme.name();
    let mut verified: Vec<&Vec<u8>> = vec![];
    let mut recovered: Vec<(&Vec<u8>, Vec<u8>)> = vec![];
    let case = |extra: Value| json!({"kind": "degenerate", "scheme": name, "label": d.label, "public_key": mc_core::hex(&d.pk), "signature": mc_core::hex(&d.sig), "messages": extra});
    for m in msgs {
        l.eval();
        match verify_raw(d.scheme, &d.pk, m, &d.sig) {
            Err(p) => {
                l.violation(format!("{name}:verify-panics:degenerate"), format!("verification panicked on degenerate input {}: {p} at {}", d.label, mc_core::last_panic_location()), case(json!([mc_core::hex(m)])));
                return;
            }
            Ok(o) => {
                if o.verified {
                    verified.push(m);
                }
                if let Some(k) = o.recovered {
                    recovered.push((m, k));
                }
            }
        }
    }
    let mut bad = false;
    for (i, a) in verified.iter().enumerate() {
        for b in verified.iter().skip(i + 1) {
            if d.scheme == Scheme::Secp && secp_same_z(a, b) {
                continue;
            }
            if !bad {
                l.violation(
                    format!("{name}:one-key-and-signature-verify-two-messages"),
                    format!("{name}: the fixed pair ({}) verifies for two different messages {} and {} ({} of {} messages verify)", d.label, mc_core::hex(a), mc_core::hex(b), verified.len(), msgs.len()),
                    case(json!([mc_core::hex(a), mc_core::hex(b)])),
                );
            }
            bad = true;
        }
    }
    let mut bad_rec = false;
    for (i, (ma, ka)) in recovered.iter().enumerate() {
        for (mb, kb) in recovered.iter().skip(i + 1) {
            if ka == kb && !secp_same_z(ma, mb) && !bad_rec {
                bad_rec = true;
                l.violation(
                    "secp256k1:one-signature-recovers-same-key-for-two-messages",
                    format!("signature ({}) recovers {} for both {} and {}", d.label, mc_core::hex(ka), mc_core::hex(ma), mc_core::hex(mb)),
                    case(json!([mc_core::hex(ma), mc_core::hex(mb)])),
                );
            }
        }
    }
    if bad || bad_rec {
        return;
    }
    if verified.is_empty() {
        l.class(match d.scheme {
            Scheme::Secp => "degenerate:secp256k1-rejected-for-every-message",
            Scheme::Ed => "degenerate:ed25519-rejected-for-every-message",
            Scheme::Bls => "degenerate:bls12381-rejected-for-every-message",
        });
    } else {
        l.class("degenerate:verifies-for-exactly-one-message");
        l.info(&format!("{name}:degenerate-pair-verifies-for-one-message"));
    }
    if !recovered.is_empty() {
        l.info("secp256k1:degenerate-signature-recovers-some-key");
    }
}

// ------------------------------------------------------------------------------------------------
// BLS aggregates
// ------------------------------------------------------------------------------------------------

#[derive(Clone, Copy, Debug, PartialEq, Eq)]
enum Comp {
    Good,
    WrongMsg,
    WrongKey,
    OtherPair,
}
const COMPS: [Comp; 4] = [Comp::Good, Comp::WrongMsg, Comp::WrongKey, Comp::OtherPair];

struct AggWorld {
    sks: Vec<Bls12381G1PrivateKey>,
    pks: Vec<Bls12381G1PublicKey>,
    msgs: Vec<Vec<u8>>,
    alts: Vec<Vec<u8>>,
}

// Bls12381G1PrivateKey wraps a plain scalar; it is only read (sign) from the workers.
unsafe impl Sync for AggWorld {}

fn agg_world() -> AggWorld {
    // derived (not small) scalars: no linear relation between the keys is known, so the formal
    // multiset comparison below is the exact success criterion
    let sks: Vec<Bls12381G1PrivateKey> = (0..3).map(|i| Bls12381G1PrivateKey::from_bytes(&bls_scalar("bls-agg", i)).expect("derived BLS scalar")).collect();
    let pks = sks.iter().map(|k| k.public_key()).collect();
    AggWorld { sks, pks, msgs: vec![vec![], vec![0x01], derived("agg-msg", 2).to_vec()], alts: vec![vec![0x00], vec![0x01, 0x00], derived("agg-alt", 2).to_vec()] }
}

/// One aggregate scenario. `list` = key indices of the claimed pairs, `same_msg` = all pairs claim message 0
/// (the fast-aggregate shape), `comps` = what each component signature really signs.
fn agg_scenario(w: &AggWorld, list: &[usize], same_msg: bool, comps: &[Comp]) -> (Vec<(Bls12381G1PublicKey, Vec<u8>)>, Vec<Bls12381G2Signature>, bool) {
    let claimed_msg = |i: usize| if same_msg { w.msgs[0].clone() } else { w.msgs[i].clone() };
    let mut claimed: Vec<(usize, Vec<u8>)> = vec![];
    let mut signed: Vec<(usize, Vec<u8>)> = vec![];
    let mut sigs = vec![];
    for (p, &i) in list.iter().enumerate() {
        let j = (i + 1) % 3;
        let (signer, m) = match comps[p] {
            Comp::Good => (i, claimed_msg(i)),
            Comp::WrongMsg => (i, w.alts[i].clone()),
            Comp::WrongKey => (j, claimed_msg(i)),
            Comp::OtherPair => (j, if same_msg { w.alts[j].clone() } else { w.msgs[j].clone() }),
        };
        sigs.push(w.sks[signer].sign_v1(&m));
        signed.push((signer, m));
        claimed.push((i, claimed_msg(i)));
    }
    let pairs = claimed.iter().map(|(i, m)| (w.pks[*i], m.clone())).collect();
    claimed.sort();
    signed.sort();
    (pairs, sigs, claimed == signed)
}

fn check_aggregate(w: &AggWorld, list: &[usize], same_msg: bool, comps: &[Comp], l: &mut Local, hard: &AtomicU64) {
    let (pairs, sigs, expect) = agg_scenario(w, list, same_msg, comps);
    let all_good = comps.iter().all(|c| *c == Comp::Good);
    let case = || json!({"kind": "bls-aggregate", "list": list, "same_message": same_msg, "components": comps.iter().map(|c| format!("{c:?}")).collect::<Vec<_>>(), "expected": expect});
    // the two aggregators must agree with each other on well-formed signatures
    let agg = match catch(|| (Bls12381G2Signature::aggregate(&sigs, true), Bls12381G2Signature::aggregate_anemone(&sigs))) {
        Ok((Ok(a), Ok(b))) if a == b => a,
        other => {
            l.eval();
            l.violation("bls12381:aggregate-of-valid-signatures-fails", format!("aggregate / aggregate_anemone of well-formed signatures: {other:?}"), case());
            return;
        }
    };
    let mut run = |name: &str, f: &dyn Fn() -> bool| {
        l.eval();
        match catch(f) {
            Err(p) => l.violation(format!("bls12381:{name}-panics"), format!("{name} panicked: {p}"), case()),
            Ok(got) if got == expect => {
                if expect && !all_good {
                    l.info("aggregate-valid-up-to-component-order");
                }
                if !expect {
                    hard.fetch_add(1, Ordering::Relaxed);
                }
                l.class(&format!("{name}:{}", if expect { "accepted-all-components-valid" } else { "rejected-some-component-invalid" }));
            }
            Ok(got) => {
                let key = if expect { format!("bls12381:{name}-rejects-valid-aggregate") } else { format!("bls12381:{name}-accepts-invalid-component") };
                l.violation(key, format!("{name} returned {got}, but the components {comps:?} for pairs {list:?} (same_message={same_msg}) make the aggregate {}", if expect { "valid" } else { "invalid" }), case());
            }
        }
    };
    run("aggregate_verify", &|| aggregate_verify_bls12381_v1(&pairs, &agg));
    if same_msg {
        let pks: Vec<Bls12381G1PublicKey> = pairs.iter().map(|p| p.0).collect();
        let m = pairs[0].1.clone();
        run("fast_aggregate_verify", &|| fast_aggregate_verify_bls12381_v1(&m, &pks, &agg));
        run("fast_aggregate_verify_anemone", &|| fast_aggregate_verify_bls12381_v1_anemone(&m, &pks, &agg));
    }
    if list.len() == 1 {
        run("verify(single)", &|| verify_bls12381_v1(&pairs[0].1, &pairs[0].0, &agg));
    }
}

fn all_lists(max_len: usize) -> Vec<Vec<usize>> {
    let mut out = vec![];
    for n in 1..=max_len {
        mc_core::gen::seqs_exact(3, n, &mut |s| out.push(s.to_vec()));
    }
    out
}

/// Every single-byte change of the aggregate signature, of each claimed key and of each claimed message of
/// one valid 3-pair aggregate.
fn aggregate_mutation_items(w: &AggWorld, same_msg: bool) -> (Vec<(Bls12381G1PublicKey, Vec<u8>)>, Bls12381G2Signature, Vec<(u8, usize, usize)>) {
    let (pairs, sigs, _) = agg_scenario(w, &[0, 1, 2], same_msg, &[Comp::Good; 3]);
    let agg = Bls12381G2Signature::aggregate(&sigs, true).expect("aggregate");
    let mut items = vec![];
    for pos in 0..96 {
        items.push((0u8, 0usize, pos));
    }
    for (i, (_, m)) in pairs.iter().enumerate() {
        for pos in 0..48 {
            items.push((1, i, pos));
        }
        for pos in 0..m.len() {
            items.push((2, i, pos));
        }
        items.push((3, i, 0)); // append one byte / drop last byte
    }
    (pairs, agg, items)
}

fn replay(ctx: Ctx, case: Value) -> ! {
    let mut l = Local::new();
    let hard = AtomicU64::new(0);
    let gs = |k: &str| case.get(k).and_then(|x| x.as_str()).unwrap_or("").to_string();
    match gs("kind").as_str() {
        "changed" | "valid" | "recover-forms" => {
            let scheme = Scheme::from_name(&gs("scheme")).unwrap_or_else(|| mc_core::machinery_error("C48 replay: unknown scheme"));
            let s = Signed { scheme, key: 0, msg_i: 0, key_label: gs("key"), pk: mc_core::unhex(&gs("signer_public_key")), msg: mc_core::unhex(&gs("signed_message")), sig: mc_core::unhex(&gs("original_signature")) };
            let (pk, msg, sig) = (mc_core::unhex(&gs("public_key")), mc_core::unhex(&gs("message")), mc_core::unhex(&gs("signature")));
            println!("REPLAY {} original: {:?}", scheme.name(), verify_raw(scheme, &s.pk, &s.msg, &s.sig));
            println!("REPLAY {} given   : {:?}", scheme.name(), verify_raw(scheme, &pk, &msg, &sig));
            if gs("kind") == "valid" {
                check_valid(&s, &mut l);
            } else {
                check_changed(&s, &pk, &msg, &sig, &gs("target"), case.get("position").and_then(|p| p.as_u64()).unwrap_or(0) as usize, &mut l, &hard);
            }
        }
        "bls-aggregate" => {
            let w = agg_world();
            let list: Vec<usize> = case["list"].as_array().map(|a| a.iter().map(|x| x.as_u64().unwrap_or(0) as usize).collect()).unwrap_or_default();
            let comps: Vec<Comp> = case["components"].as_array().map(|a| a.iter().map(|x| COMPS.iter().copied().find(|c| format!("{c:?}") == x.as_str().unwrap_or("")).unwrap_or(Comp::Good)).collect()).unwrap_or_default();
            let same = case["same_message"].as_bool().unwrap_or(false);
            check_aggregate(&w, &list, same, &comps, &mut l, &hard);
            println!("REPLAY aggregate list={list:?} same_message={same} components={comps:?}");
        }
        "degenerate" => {
            let scheme = Scheme::from_name(&gs("scheme")).unwrap_or_else(|| mc_core::machinery_error("C48 replay: unknown scheme"));
            let d = Degenerate { scheme, label: gs("label"), pk: mc_core::unhex(&gs("public_key")), sig: mc_core::unhex(&gs("signature")) };
            let msgs: Vec<Vec<u8>> = case["messages"].as_array().map(|a| a.iter().map(|m| mc_core::unhex(m.as_str().unwrap_or(""))).collect()).unwrap_or_default();
            for m in &msgs {
                println!("REPLAY {} pk={} sig={} msg={} -> {:?}", scheme.name(), gs("public_key"), gs("signature"), mc_core::hex(m), verify_raw(scheme, &d.pk, m, &d.sig));
            }
            check_degenerate(&d, &msgs, &mut l);
        }
        "bls-aggregate-changed" => {
            let pairs: Vec<(Bls12381G1PublicKey, Vec<u8>)> = case["pairs"]
                .as_array()
                .map(|a| a.iter().map(|p| (Bls12381G1PublicKey(mc_core::unhex(p[0].as_str().unwrap_or("")).try_into().unwrap_or([0; 48])), mc_core::unhex(p[1].as_str().unwrap_or("")))).collect())
                .unwrap_or_default();
            let sig = Bls12381G2Signature(mc_core::unhex(&gs("signature")).try_into().unwrap_or([0; 96]));
            let got = catch(|| aggregate_verify_bls12381_v1(&pairs, &sig));
            println!("REPLAY aggregate_verify on the recorded (changed) pairs/signature = {got:?} (must be false)");
            l.eval();
            if !matches!(got, Ok(false)) {
                l.violation("bls12381:aggregate-accepts-changed-input", format!("{got:?}"), case.clone());
            }
        }
        other => mc_core::machinery_error(&format!("C48 replay: unknown case kind {other:?}")),
    }
    ctx.merge(l);
    ctx.finish(Level::Exploration, "replay of one case", 0, false, Map::new(), &[])
}

pub fn run(ctx: Ctx) -> ! {
    if let Some(case) = ctx.read_replay_case() {
        replay(ctx, case);
    }
    let thorough = !ctx.quick();
    let hard = AtomicU64::new(0);

    // ---- sign everything, verify the fresh signatures
    let signed = sign_all(&ctx, thorough);
    let mut l = Local::new();
    let mut n_valid = 0u64;
    for s in &signed {
        if check_valid(s, &mut l) {
            n_valid += 1;
        }
    }
    // ---- informational: high-s twin of every secp256k1 signature (not a single-byte change)
    for s in signed.iter().filter(|s| s.scheme == Scheme::Secp) {
        let sv: [u8; 32] = s.sig[33..65].try_into().unwrap();
        let mut twin = s.sig.clone();
        twin[33..65].copy_from_slice(&sub_be(&SECP_N, &sv));
        twin[0] ^= 1;
        l.eval();
        match verify_raw(Scheme::Secp, &s.pk, &s.msg, &twin) {
            Ok(o) => {
                l.info(if o.verified { "high-s-twin:verify-accepts" } else { "high-s-twin:verify-rejects" });
                l.info(if o.recovered.as_deref() == Some(&s.pk[..]) { "high-s-twin:recovery-returns-signer" } else { "high-s-twin:recovery-does-not-return-signer" });
            }
            Err(_) => l.info("high-s-twin:panics"),
        }
    }
    ctx.merge(l);

    // ---- every signature against every other (key, message) of its scheme
    {
        let idx: Vec<usize> = (0..signed.len()).collect();
        par_for(&ctx, &idx, |&a, l| {
            let s = &signed[a];
            for t in signed.iter().filter(|t| t.scheme == s.scheme && (t.key != s.key || t.msg_i != s.msg_i)) {
                // s's signature presented for t's (key, message); when only the key differs this is a key
                // change, when only the message differs a message change
                if t.pk == s.pk && t.msg == s.msg {
                    continue;
                }
                check_changed(s, &t.pk, &t.msg, &s.sig, "pair", 0, l, &hard);
            }
        });
    }

    // ---- single-byte / single-bit changes
    let mut items: Vec<(usize, u8, usize)> = vec![]; // (signed idx, target 0=sig 1=msg 2=pk 3=msg length, position)
    for (si, s) in signed.iter().enumerate() {
        for pos in 0..s.sig.len() {
            items.push((si, 0, pos));
        }
        for pos in 0..s.msg.len() {
            items.push((si, 1, pos));
        }
        for pos in 0..s.pk.len() {
            items.push((si, 2, pos));
        }
        if s.scheme != Scheme::Secp {
            items.push((si, 3, 0));
        }
    }
    par_for(&ctx, &items, |&(si, target, pos), l| {
        let s = &signed[si];
        match target {
            0 => {
                let mut sig = s.sig.clone();
                for v in candidates(s.sig[pos], thorough) {
                    sig[pos] = v;
                    check_changed(s, &s.pk, &s.msg, &sig, "signature", pos, l, &hard);
                }
            }
            1 => {
                let mut msg = s.msg.clone();
                for v in candidates(s.msg[pos], thorough) {
                    msg[pos] = v;
                    check_changed(s, &s.pk, &msg, &s.sig, "message", pos, l, &hard);
                }
            }
            2 => {
                let mut pk = s.pk.clone();
                for v in candidates(s.pk[pos], thorough) {
                    pk[pos] = v;
                    check_changed(s, &pk, &s.msg, &s.sig, "public_key", pos, l, &hard);
                }
            }
            _ => {
                // variable-length messages: one byte appended / last byte dropped
                for extra in [0x00u8, 0x01, 0xFF] {
                    let mut msg = s.msg.clone();
                    msg.push(extra);
                    check_changed(s, &s.pk, &msg, &s.sig, "message", s.msg.len(), l, &hard);
                }
                if !s.msg.is_empty() {
                    check_changed(s, &s.pk, &s.msg[..s.msg.len() - 1], &s.sig, "message", s.msg.len() - 1, l, &hard);
                }
            }
        }
    });

    // ---- degenerate encodings (small-order / infinity / invalid keys, r,s in {0,n}, s in {0,1,L,L-1})
    let degenerate = degenerate_space(&signed);
    {
        let msgs_of = |sc: Scheme| -> Vec<Vec<u8>> {
            match sc {
                Scheme::Secp => hashes(thorough),
                Scheme::Ed => {
                    let mut m = hashes(false);
                    m.extend(var_messages(thorough));
                    m
                }
                Scheme::Bls => var_messages(thorough),
            }
        };
        let (ms, me, mb) = (msgs_of(Scheme::Secp), msgs_of(Scheme::Ed), msgs_of(Scheme::Bls));
        par_for(&ctx, &degenerate, |d, l| {
            check_degenerate(
                d,
                match d.scheme {
                    Scheme::Secp => &ms,
                    Scheme::Ed => &me,
                    Scheme::Bls => &mb,
                },
                l,
            )
        });
        // BLS aggregates over degenerate members: the same two-message law for the list forms
        let mut l = Local::new();
        let w0 = agg_world();
        let mut inf_pk = [0u8; 48];
        inf_pk[0] = 0xc0;
        let mut inf_sig = [0u8; 96];
        inf_sig[0] = 0xc0;
        let honest_sig = w0.sks[0].sign_v1(&mb[0]);
        for (label, keys, sig) in [
            ("[infinity key] / infinity signature", vec![Bls12381G1PublicKey(inf_pk)], Bls12381G2Signature(inf_sig)),
            ("[infinity key, infinity key] / infinity signature", vec![Bls12381G1PublicKey(inf_pk); 2], Bls12381G2Signature(inf_sig)),
            ("[honest key, infinity key] / honest signature", vec![w0.pks[0], Bls12381G1PublicKey(inf_pk)], honest_sig),
            ("[honest key] / infinity signature", vec![w0.pks[0]], Bls12381G2Signature(inf_sig)),
        ] {
            for (fname, f) in [
                ("aggregate_verify", &(|m: &Vec<u8>| aggregate_verify_bls12381_v1(&keys.iter().map(|k| (*k, m.clone())).collect::<Vec<_>>(), &sig)) as &dyn Fn(&Vec<u8>) -> bool),
                ("fast_aggregate_verify", &|m: &Vec<u8>| fast_aggregate_verify_bls12381_v1(m, &keys, &sig)),
                ("fast_aggregate_verify_anemone", &|m: &Vec<u8>| fast_aggregate_verify_bls12381_v1_anemone(m, &keys, &sig)),
            ] {
                let mut ok_msgs = vec![];
                for m in &mb {
                    l.eval();
                    match catch(|| f(m)) {
                        Ok(true) => ok_msgs.push(mc_core::hex(m)),
                        Ok(false) => {}
                        Err(p) => l.violation(format!("bls12381:{fname}-panics:degenerate"), format!("{fname} on {label} panicked: {p}"), json!({"kind": "degenerate-aggregate", "label": label, "function": fname})),
                    }
                }
                if ok_msgs.len() >= 2 {
                    l.violation(format!("bls12381:{fname}:one-key-list-and-signature-verify-two-messages"), format!("{fname} on {label} verifies for {} different messages", ok_msgs.len()), json!({"kind": "degenerate-aggregate", "label": label, "function": fname, "messages": ok_msgs}));
                } else if ok_msgs.len() == 1 {
                    l.info(&format!("bls12381:{fname}:degenerate-list-verifies-for-one-message"));
                    l.class("degenerate:verifies-for-exactly-one-message");
                } else {
                    l.class("degenerate:bls12381-aggregate-rejected-for-every-message");
                }
            }
        }
        ctx.merge(l);
    }

    // ---- BLS aggregates
    let w = agg_world();
    let mut scenarios: Vec<(Vec<usize>, bool, Vec<Comp>)> = vec![];
    for list in all_lists(3) {
        for same in [false, true] {
            let mut combos = vec![];
            mc_core::gen::seqs_exact(4, list.len(), &mut |c| combos.push(c.iter().map(|i| COMPS[*i]).collect::<Vec<_>>()));
            for c in combos {
                scenarios.push((list.clone(), same, c));
            }
        }
    }
    par_for(&ctx, &scenarios, |(list, same, comps), l| check_aggregate(&w, list, *same, comps, l, &hard));

    // single-byte changes of one valid 3-pair aggregate (distinct messages, and one common message)
    for same in [false, true] {
        let (pairs, agg, items) = aggregate_mutation_items(&w, same);
        let label = |what: u8| match what {
            0 => "aggregate-signature",
            1 => "aggregate-public-key",
            _ => "aggregate-message",
        };
        par_for(&ctx, &items, |&(what, i, pos), l| {
            let mut variants: Vec<(Vec<(Bls12381G1PublicKey, Vec<u8>)>, Bls12381G2Signature)> = vec![];
            match what {
                0 => {
                    for v in candidates(agg.0[pos], thorough) {
                        let mut a = agg;
                        a.0[pos] = v;
                        variants.push((pairs.clone(), a));
                    }
                }
                1 => {
                    for v in candidates(pairs[i].0 .0[pos], thorough) {
                        let mut p = pairs.clone();
                        p[i].0 .0[pos] = v;
                        variants.push((p, agg));
                    }
                }
                2 => {
                    for v in candidates(pairs[i].1[pos], thorough) {
                        let mut p = pairs.clone();
                        p[i].1[pos] = v;
                        variants.push((p, agg));
                    }
                }
                _ => {
                    let mut p = pairs.clone();
                    p[i].1.push(0);
                    variants.push((p, agg));
                    if !pairs[i].1.is_empty() {
                        let mut p = pairs.clone();
                        p[i].1.pop();
                        variants.push((p, agg));
                    }
                }
            }
            for (p, a) in variants {
                l.eval();
                let case = || json!({"kind": "bls-aggregate-changed", "same_message": same, "what": label(what), "pair": i, "position": pos,
                    "pairs": p.iter().map(|(k, m)| json!([mc_core::hex(&k.0), mc_core::hex(m)])).collect::<Vec<_>>(), "signature": mc_core::hex(&a.0)});
                // with a common message, changing one message breaks the fast-aggregate shape: only aggregate_verify applies
                let pks: Vec<Bls12381G1PublicKey> = p.iter().map(|x| x.0).collect();
                let common = same && p.iter().all(|x| x.1 == p[0].1);
                let r = catch(|| {
                    let a1 = aggregate_verify_bls12381_v1(&p, &a);
                    let a2 = common && fast_aggregate_verify_bls12381_v1(&p[0].1, &pks, &a);
                    let a3 = common && fast_aggregate_verify_bls12381_v1_anemone(&p[0].1, &pks, &a);
                    (a1, a2, a3)
                });
                match r {
                    Ok((false, false, false)) => l.class(match what {
                        0 => "changed-aggregate-signature:rejected",
                        1 => "changed-aggregate-public-key:rejected",
                        _ => "changed-aggregate-message:rejected",
                    }),
                    Ok(got) => l.violation(format!("bls12381:aggregate-accepts-changed-{}", label(what)), format!("(aggregate_verify, fast, fast_anemone) = {got:?} after changing the {} of pair {i} at byte {pos}", label(what)), case()),
                    Err(pn) => l.violation("bls12381:aggregate-verify-panics", format!("panicked: {pn}"), case()),
                }
            }
        });
    }

    // ---- informational: shapes the statement does not decide
    {
        let mut l = Local::new();
        let some_sig = w.sks[0].sign_v1(&w.msgs[0]);
        let mut inf_sig = [0u8; 96];
        inf_sig[0] = 0xc0;
        let mut inf_pk = [0u8; 48];
        inf_pk[0] = 0xc0;
        let tell = |l: &mut Local, name: &str, r: Result<bool, String>| {
            l.eval();
            match r {
                Ok(b) => l.info(&format!("{name}:{}", if b { "accepts" } else { "rejects" })),
                Err(_) => l.info(&format!("{name}:panics")),
            }
        };
        tell(&mut l, "aggregate_verify(empty list, valid signature)", catch(|| aggregate_verify_bls12381_v1(&[], &some_sig)));
        tell(&mut l, "aggregate_verify(empty list, infinity signature)", catch(|| aggregate_verify_bls12381_v1(&[], &Bls12381G2Signature(inf_sig))));
        tell(&mut l, "fast_aggregate_verify(empty key list)", catch(|| fast_aggregate_verify_bls12381_v1(&w.msgs[0], &[], &some_sig)));
        tell(&mut l, "fast_aggregate_verify_anemone(empty key list)", catch(|| fast_aggregate_verify_bls12381_v1_anemone(&w.msgs[0], &[], &some_sig)));
        tell(&mut l, "verify(infinity key, infinity signature)", catch(|| verify_bls12381_v1(&w.msgs[0], &Bls12381G1PublicKey(inf_pk), &Bls12381G2Signature(inf_sig))));
        tell(&mut l, "aggregate_verify(infinity key, infinity signature)", catch(|| aggregate_verify_bls12381_v1(&[(Bls12381G1PublicKey(inf_pk), w.msgs[0].clone())], &Bls12381G2Signature(inf_sig))));
        tell(&mut l, "signature aggregate(empty list) is an error", catch(|| Bls12381G2Signature::aggregate(&[], true).is_ok()));
        ctx.merge(l);
    }

    // ---- finish
    let classes: BTreeMap<String, u64> = ctx.classes();
    let get = |k: &str| classes.get(k).copied().unwrap_or(0);
    let agg_valid: u64 = classes.iter().filter(|(k, _)| k.ends_with(":accepted-all-components-valid")).map(|(_, v)| *v).sum();
    let nontrivial = n_valid + agg_valid + hard.load(Ordering::Relaxed);
    let mut cov = Map::new();
    let count = |sc: Scheme| signed.iter().filter(|s| s.scheme == sc).count();
    cov.insert("signatures_signed_and_verified".into(), json!(n_valid));
    cov.insert("secp256k1_key_message_pairs".into(), json!(count(Scheme::Secp)));
    cov.insert("ed25519_key_message_pairs".into(), json!(count(Scheme::Ed)));
    cov.insert("bls12381_key_message_pairs".into(), json!(count(Scheme::Bls)));
    cov.insert("secp256k1_keys".into(), json!(secp_keys(thorough).iter().map(|k| k.0.clone()).collect::<Vec<_>>()));
    cov.insert("ed25519_keys".into(), json!(ed_seeds(thorough).iter().map(|k| k.0.clone()).collect::<Vec<_>>()));
    cov.insert("bls12381_keys".into(), json!(bls_keys(thorough).iter().map(|k| k.0.clone()).collect::<Vec<_>>()));
    cov.insert("byte_change_set".into(), json!(if thorough { "every position x every other byte value (255)" } else { "every position x {each single-bit flip, 00, FF}" }));
    cov.insert("changed_signature_rejected".into(), json!(get("changed-signature:rejected")));
    cov.insert("changed_message_rejected".into(), json!(get("changed-message:rejected")));
    cov.insert("changed_public_key_rejected".into(), json!(get("changed-public-key:rejected")));
    cov.insert("changed_inputs_that_recover_a_different_key".into(), json!(get("changed:recovers-a-different-key")));
    cov.insert("degenerate_key_signature_pairs".into(), json!(degenerate.len()));
    cov.insert("aggregate_scenarios".into(), json!(scenarios.len()));
    cov.insert("aggregate_scenarios_valid".into(), json!(agg_valid));
    cov.insert("well_formed_but_wrong_verifications".into(), json!(hard.load(Ordering::Relaxed)));
    ctx.finish(
        Level::Exploration,
        "per scheme: every (key, message) of the stated sets signed and verified; every single-byte change (quick: bit flips + 00/FF; thorough: all 255 values) at every position of signature, message and public key; every signature against every other (key, message); BLS: every list of 1..=3 (key,message) pairs (duplicates allowed) x {distinct messages, common message} x every assignment of {good, wrong message, wrong key, other pair's signature} to the components, and every single-byte change of one valid 3-pair aggregate; degenerate space: ed25519 all 8 small-order points + non-canonical encodings as key and as R x s in {0,1,L,L-1,honest,ones}, secp256k1 invalid/infinity/hybrid-prefix keys x r,s in {0,1,n,n-1,ones,honest} x recovery ids, BLS infinity/zero/flag-only keys and signatures (single and list forms), each fixed (key, signature) against the whole message set: must not verify (or recover the same key) for two different messages; a case is one verification call; non-trivial = fresh signatures verified + valid aggregates accepted + well-formed-but-wrong verifications (other key/message/pair, invalid aggregate components, changed inputs that still recover a key) rejected",
        nontrivial,
        true,
        cov,
        &[
            "the oracle is the algebraic law of the statement (sign->verify, change->reject); it does not re-implement the curves",
            "BLS aggregate success criterion = multiset equality of (signer, message) and claimed (key, message); sound because the derived secret scalars have no known linear relation",
            "high-s ECDSA twins, empty aggregate lists and infinity points are not decided by the statement (informational)",
            "ECDSA algebra, not the implementation: the same signature verifies for a hash congruent mod n to the signed one (0 <-> n in the message set) and, under the negated key, for a hash congruent to the negated one (z -> -z mod n, P -> -P; includes z == 0); exactly these twins are informational",
        ],
    )
}
