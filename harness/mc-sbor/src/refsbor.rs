//! Independent reference reader / writer for the SBOR wire format (basic, Scrypto, manifest flavours).
//!
//! Written from the wire format, not from the codec: prefix byte, value-kind table, LEB128 sizes
//! (at most 4 bytes, no trailing zero byte), UTF-8 strings, bool in {0,1}, fixed-width little-endian
//! integers, and the per-flavour custom value kinds with their own length / validity rules.
//! Nothing in this file calls into `sbor` or `radix-common`.
//!
//! Acceptance rule of the reference: a payload is acceptable at depth limit L iff it is well formed
//! and the depth of its value tree (a leaf or an empty container has depth 1) is <= L.

#[derive(Clone, Copy, PartialEq, Eq, Debug)]
pub enum Fl {
    Basic,
    Scrypto,
    Manifest,
}

impl Fl {
    pub fn prefix(self) -> u8 {
        match self {
            Fl::Basic => 0x5b,
            Fl::Scrypto => 0x5c,
            Fl::Manifest => 0x4d,
        }
    }
    pub fn name(self) -> &'static str {
        match self {
            Fl::Basic => "basic",
            Fl::Scrypto => "scrypto",
            Fl::Manifest => "manifest",
        }
    }
    pub fn from_name(s: &str) -> Option<Fl> {
        match s {
            "basic" => Some(Fl::Basic),
            "scrypto" => Some(Fl::Scrypto),
            "manifest" => Some(Fl::Manifest),
            _ => None,
        }
    }
    /// custom value kind bytes of the flavour
    pub fn custom_kinds(self) -> &'static [u8] {
        match self {
            Fl::Basic => &[],
            Fl::Scrypto => &[0x80, 0x90, 0xa0, 0xb0, 0xc0],
            Fl::Manifest => &[0x80, 0x81, 0x82, 0x83, 0x84, 0x85, 0x86, 0x87, 0x88],
        }
    }
    pub fn kind_known(self, k: u8) -> bool {
        matches!(k, 0x01..=0x0c | 0x20..=0x23) || self.custom_kinds().contains(&k)
    }
    pub fn all_kinds(self) -> Vec<u8> {
        let mut v: Vec<u8> = (0x01..=0x0c).collect();
        v.extend(0x20..=0x23u8);
        v.extend_from_slice(self.custom_kinds());
        v
    }
}

pub const K_BOOL: u8 = 0x01;
pub const K_I8: u8 = 0x02;
pub const K_I16: u8 = 0x03;
pub const K_I32: u8 = 0x04;
pub const K_I64: u8 = 0x05;
pub const K_I128: u8 = 0x06;
pub const K_U8: u8 = 0x07;
pub const K_U16: u8 = 0x08;
pub const K_U32: u8 = 0x09;
pub const K_U64: u8 = 0x0a;
pub const K_U128: u8 = 0x0b;
pub const K_STRING: u8 = 0x0c;
pub const K_ARRAY: u8 = 0x20;
pub const K_TUPLE: u8 = 0x21;
pub const K_ENUM: u8 = 0x22;
pub const K_MAP: u8 = 0x23;

/// First byte of a static manifest address must be one of the 22 entity-type bytes.
pub const ENTITY_TYPE_BYTES: [u8; 22] = [
    0x0d, 0x86, 0x83, 0x82, 0xc0, 0xc1, 0xc2, 0xc3, 0xc4, 0xc5, 0xc6, 0x68, 0xd1, 0xd2, 0x51, 0x52, 0x5d, 0x58, 0x9a, 0x98, 0xf8, 0xb0,
];

pub const LOCAL_ID_MAX: usize = 64;

#[derive(Clone, PartialEq, Eq, Debug)]
pub enum RefCustom {
    /// Scrypto Reference / Own: 30 raw bytes
    NodeId([u8; 30]),
    /// 192-bit two's complement little endian (Scrypto and manifest Decimal)
    Dec([u8; 24]),
    /// 256-bit two's complement little endian
    PDec([u8; 32]),
    IdString(String),
    IdInteger(u64),
    IdBytes(Vec<u8>),
    IdRuid([u8; 32]),
    AddrStatic([u8; 30]),
    AddrNamed(u32),
    /// manifest bucket / proof / address reservation
    Handle(u32),
    /// manifest expression: 0 = entire worktop, 1 = entire auth zone
    Expr(u8),
    Blob([u8; 32]),
}

#[derive(Clone, PartialEq, Eq, Debug)]
pub enum RefTree {
    Bool(bool),
    I8(i8),
    I16(i16),
    I32(i32),
    I64(i64),
    I128(i128),
    U8(u8),
    U16(u16),
    U32(u32),
    U64(u64),
    U128(u128),
    Str(String),
    Tuple(Vec<RefTree>),
    Enum(u8, Vec<RefTree>),
    /// element kind byte, elements
    Array(u8, Vec<RefTree>),
    /// key kind byte, value kind byte, entries
    Map(u8, u8, Vec<(RefTree, RefTree)>),
    /// custom kind byte, content
    Custom(u8, RefCustom),
}

impl RefTree {
    pub fn kind(&self) -> u8 {
        match self {
            RefTree::Bool(_) => K_BOOL,
            RefTree::I8(_) => K_I8,
            RefTree::I16(_) => K_I16,
            RefTree::I32(_) => K_I32,
            RefTree::I64(_) => K_I64,
            RefTree::I128(_) => K_I128,
            RefTree::U8(_) => K_U8,
            RefTree::U16(_) => K_U16,
            RefTree::U32(_) => K_U32,
            RefTree::U64(_) => K_U64,
            RefTree::U128(_) => K_U128,
            RefTree::Str(_) => K_STRING,
            RefTree::Tuple(_) => K_TUPLE,
            RefTree::Enum(..) => K_ENUM,
            RefTree::Array(..) => K_ARRAY,
            RefTree::Map(..) => K_MAP,
            RefTree::Custom(k, _) => *k,
        }
    }

    /// A leaf or an empty container has depth 1.
    pub fn depth(&self) -> usize {
        match self {
            RefTree::Tuple(c) | RefTree::Enum(_, c) | RefTree::Array(_, c) => 1 + c.iter().map(|x| x.depth()).max().unwrap_or(0),
            RefTree::Map(_, _, e) => 1 + e.iter().map(|(k, v)| k.depth().max(v.depth())).max().unwrap_or(0),
            _ => 1,
        }
    }

    pub fn is_container(&self) -> bool {
        matches!(self, RefTree::Tuple(_) | RefTree::Enum(..) | RefTree::Array(..) | RefTree::Map(..))
    }

    /// Element kinds of arrays / maps agree with the declared kinds everywhere (what the wire format can express).
    pub fn kind_consistent(&self) -> bool {
        match self {
            RefTree::Tuple(c) | RefTree::Enum(_, c) => c.iter().all(|x| x.kind_consistent()),
            RefTree::Array(k, c) => c.iter().all(|x| x.kind() == *k && x.kind_consistent()),
            RefTree::Map(kk, vk, e) => e.iter().all(|(k, v)| k.kind() == *kk && v.kind() == *vk && k.kind_consistent() && v.kind_consistent()),
            _ => true,
        }
    }
}

/// Why the reference rejects (coarse; only accept / depth / other is ever compared with the code).
#[derive(Clone, Copy, PartialEq, Eq, Debug)]
pub enum RefErr {
    Depth,
    Empty,
    BadPrefix,
    UnknownKind,
    Underflow,
    SizeNonCanonical,
    SizeTooLong,
    BadBool,
    BadUtf8,
    BadCustom,
    TrailingBytes,
}

impl RefErr {
    pub fn label(self) -> &'static str {
        match self {
            RefErr::Depth => "depth",
            RefErr::Empty => "empty",
            RefErr::BadPrefix => "bad-prefix",
            RefErr::UnknownKind => "unknown-kind",
            RefErr::Underflow => "underflow",
            RefErr::SizeNonCanonical => "size-non-canonical",
            RefErr::SizeTooLong => "size-too-long",
            RefErr::BadBool => "bad-bool",
            RefErr::BadUtf8 => "bad-utf8",
            RefErr::BadCustom => "bad-custom",
            RefErr::TrailingBytes => "trailing-bytes",
        }
    }
}

struct Rd<'a> {
    b: &'a [u8],
    p: usize,
    fl: Fl,
}

impl<'a> Rd<'a> {
    fn byte(&mut self) -> Result<u8, RefErr> {
        if self.p < self.b.len() {
            self.p += 1;
            Ok(self.b[self.p - 1])
        } else {
            Err(RefErr::Underflow)
        }
    }
    fn take(&mut self, n: usize) -> Result<&'a [u8], RefErr> {
        if self.b.len() - self.p < n {
            return Err(RefErr::Underflow);
        }
        let s = &self.b[self.p..self.p + n];
        self.p += n;
        Ok(s)
    }
    fn arr<const N: usize>(&mut self) -> Result<[u8; N], RefErr> {
        let s = self.take(N)?;
        let mut a = [0u8; N];
        a.copy_from_slice(s);
        Ok(a)
    }
    /// LEB128, at most 4 bytes (28 bits), the last byte of a multi-byte form is not zero.
    fn size(&mut self) -> Result<usize, RefErr> {
        let mut v = 0usize;
        for i in 0..4 {
            let b = self.byte()?;
            v |= ((b & 0x7f) as usize) << (7 * i);
            if b & 0x80 == 0 {
                if i > 0 && b == 0 {
                    return Err(RefErr::SizeNonCanonical);
                }
                return Ok(v);
            }
        }
        Err(RefErr::SizeTooLong)
    }
    fn kind(&mut self) -> Result<u8, RefErr> {
        let k = self.byte()?;
        if self.fl.kind_known(k) {
            Ok(k)
        } else {
            Err(RefErr::UnknownKind)
        }
    }
    fn value(&mut self) -> Result<RefTree, RefErr> {
        let k = self.kind()?;
        self.body(k)
    }
    fn children(&mut self, n: usize) -> Result<Vec<RefTree>, RefErr> {
        // never pre-allocate from a declared count: every child needs at least one byte
        let mut v = Vec::new();
        for _ in 0..n {
            v.push(self.value()?);
        }
        Ok(v)
    }
    fn body(&mut self, k: u8) -> Result<RefTree, RefErr> {
        Ok(match k {
            K_BOOL => match self.byte()? {
                0 => RefTree::Bool(false),
                1 => RefTree::Bool(true),
                _ => return Err(RefErr::BadBool),
            },
            K_I8 => RefTree::I8(self.byte()? as i8),
            K_I16 => RefTree::I16(i16::from_le_bytes(self.arr()?)),
            K_I32 => RefTree::I32(i32::from_le_bytes(self.arr()?)),
            K_I64 => RefTree::I64(i64::from_le_bytes(self.arr()?)),
            K_I128 => RefTree::I128(i128::from_le_bytes(self.arr()?)),
            K_U8 => RefTree::U8(self.byte()?),
            K_U16 => RefTree::U16(u16::from_le_bytes(self.arr()?)),
            K_U32 => RefTree::U32(u32::from_le_bytes(self.arr()?)),
            K_U64 => RefTree::U64(u64::from_le_bytes(self.arr()?)),
            K_U128 => RefTree::U128(u128::from_le_bytes(self.arr()?)),
            K_STRING => {
                let n = self.size()?;
                let s = self.take(n)?;
                RefTree::Str(std::str::from_utf8(s).map_err(|_| RefErr::BadUtf8)?.to_string())
            }
            K_TUPLE => {
                let n = self.size()?;
                RefTree::Tuple(self.children(n)?)
            }
            K_ENUM => {
                let d = self.byte()?;
                let n = self.size()?;
                RefTree::Enum(d, self.children(n)?)
            }
            K_ARRAY => {
                let ek = self.kind()?;
                let n = self.size()?;
                let mut v = Vec::new();
                for _ in 0..n {
                    v.push(self.body(ek)?);
                }
                RefTree::Array(ek, v)
            }
            K_MAP => {
                let kk = self.kind()?;
                let vk = self.kind()?;
                let n = self.size()?;
                let mut v = Vec::new();
                for _ in 0..n {
                    let key = self.body(kk)?;
                    let val = self.body(vk)?;
                    v.push((key, val));
                }
                RefTree::Map(kk, vk, v)
            }
            _ => RefTree::Custom(k, self.custom(k)?),
        })
    }
    fn local_id(&mut self) -> Result<RefCustom, RefErr> {
        Ok(match self.byte()? {
            0 => {
                let n = self.size()?;
                let s = self.take(n)?;
                if n == 0 || n > LOCAL_ID_MAX || !s.iter().all(|c| c.is_ascii_alphanumeric() || *c == b'_') {
                    return Err(RefErr::BadCustom);
                }
                RefCustom::IdString(String::from_utf8(s.to_vec()).map_err(|_| RefErr::BadCustom)?)
            }
            1 => RefCustom::IdInteger(u64::from_be_bytes(self.arr()?)),
            2 => {
                let n = self.size()?;
                let s = self.take(n)?;
                if n == 0 || n > LOCAL_ID_MAX {
                    return Err(RefErr::BadCustom);
                }
                RefCustom::IdBytes(s.to_vec())
            }
            3 => RefCustom::IdRuid(self.arr()?),
            _ => return Err(RefErr::BadCustom),
        })
    }
    fn custom(&mut self, k: u8) -> Result<RefCustom, RefErr> {
        Ok(match (self.fl, k) {
            (Fl::Scrypto, 0x80) | (Fl::Scrypto, 0x90) => RefCustom::NodeId(self.arr()?),
            (Fl::Scrypto, 0xa0) | (Fl::Manifest, 0x85) => RefCustom::Dec(self.arr()?),
            (Fl::Scrypto, 0xb0) | (Fl::Manifest, 0x86) => RefCustom::PDec(self.arr()?),
            (Fl::Scrypto, 0xc0) | (Fl::Manifest, 0x87) => self.local_id()?,
            (Fl::Manifest, 0x80) => match self.byte()? {
                0 => {
                    let a: [u8; 30] = self.arr()?;
                    if !ENTITY_TYPE_BYTES.contains(&a[0]) {
                        return Err(RefErr::BadCustom);
                    }
                    RefCustom::AddrStatic(a)
                }
                1 => RefCustom::AddrNamed(u32::from_le_bytes(self.arr()?)),
                _ => return Err(RefErr::BadCustom),
            },
            (Fl::Manifest, 0x81) | (Fl::Manifest, 0x82) | (Fl::Manifest, 0x88) => RefCustom::Handle(u32::from_le_bytes(self.arr()?)),
            (Fl::Manifest, 0x83) => match self.byte()? {
                e @ (0 | 1) => RefCustom::Expr(e),
                _ => return Err(RefErr::BadCustom),
            },
            (Fl::Manifest, 0x84) => RefCustom::Blob(self.arr()?),
            _ => return Err(RefErr::UnknownKind),
        })
    }
}

/// Well-formedness only (no depth limit): the value tree and its depth, or why the payload is malformed.
pub fn ref_parse_unlimited(bytes: &[u8], fl: Fl) -> Result<(RefTree, usize), RefErr> {
    if bytes.is_empty() {
        return Err(RefErr::Empty);
    }
    if bytes[0] != fl.prefix() {
        return Err(RefErr::BadPrefix);
    }
    let mut r = Rd { b: bytes, p: 1, fl };
    let t = r.value()?;
    if r.p != bytes.len() {
        return Err(RefErr::TrailingBytes);
    }
    let d = t.depth();
    Ok((t, d))
}

pub fn ref_parse(bytes: &[u8], fl: Fl, depth_limit: usize) -> Result<RefTree, RefErr> {
    let (t, d) = ref_parse_unlimited(bytes, fl)?;
    if d > depth_limit {
        return Err(RefErr::Depth);
    }
    Ok(t)
}

// ------------------------------------------------------------------------------------------------
// writer
// ------------------------------------------------------------------------------------------------

pub fn write_size(out: &mut Vec<u8>, mut n: usize) {
    assert!(n <= 0x0fff_ffff);
    loop {
        let low = (n & 0x7f) as u8;
        n >>= 7;
        if n == 0 {
            out.push(low);
            return;
        }
        out.push(low | 0x80);
    }
}

fn write_body(out: &mut Vec<u8>, t: &RefTree) {
    match t {
        RefTree::Bool(b) => out.push(*b as u8),
        RefTree::I8(v) => out.push(*v as u8),
        RefTree::I16(v) => out.extend_from_slice(&v.to_le_bytes()),
        RefTree::I32(v) => out.extend_from_slice(&v.to_le_bytes()),
        RefTree::I64(v) => out.extend_from_slice(&v.to_le_bytes()),
        RefTree::I128(v) => out.extend_from_slice(&v.to_le_bytes()),
        RefTree::U8(v) => out.push(*v),
        RefTree::U16(v) => out.extend_from_slice(&v.to_le_bytes()),
        RefTree::U32(v) => out.extend_from_slice(&v.to_le_bytes()),
        RefTree::U64(v) => out.extend_from_slice(&v.to_le_bytes()),
        RefTree::U128(v) => out.extend_from_slice(&v.to_le_bytes()),
        RefTree::Str(s) => {
            write_size(out, s.len());
            out.extend_from_slice(s.as_bytes());
        }
        RefTree::Tuple(c) => {
            write_size(out, c.len());
            for x in c {
                write_value(out, x);
            }
        }
        RefTree::Enum(d, c) => {
            out.push(*d);
            write_size(out, c.len());
            for x in c {
                write_value(out, x);
            }
        }
        RefTree::Array(k, c) => {
            out.push(*k);
            write_size(out, c.len());
            for x in c {
                write_body(out, x);
            }
        }
        RefTree::Map(kk, vk, e) => {
            out.push(*kk);
            out.push(*vk);
            write_size(out, e.len());
            for (k, v) in e {
                write_body(out, k);
                write_body(out, v);
            }
        }
        RefTree::Custom(kind, c) => match c {
            RefCustom::NodeId(a) => out.extend_from_slice(a),
            RefCustom::Dec(a) => out.extend_from_slice(a),
            RefCustom::PDec(a) => out.extend_from_slice(a),
            RefCustom::IdString(s) => {
                out.push(0);
                write_size(out, s.len());
                out.extend_from_slice(s.as_bytes());
            }
            RefCustom::IdInteger(v) => {
                out.push(1);
                out.extend_from_slice(&v.to_be_bytes());
            }
            RefCustom::IdBytes(b) => {
                out.push(2);
                write_size(out, b.len());
                out.extend_from_slice(b);
            }
            RefCustom::IdRuid(a) => {
                out.push(3);
                out.extend_from_slice(a);
            }
            RefCustom::AddrStatic(a) => {
                out.push(0);
                out.extend_from_slice(a);
            }
            RefCustom::AddrNamed(v) => {
                out.push(1);
                out.extend_from_slice(&v.to_le_bytes());
            }
            RefCustom::Handle(v) => out.extend_from_slice(&v.to_le_bytes()),
            RefCustom::Expr(e) => out.push(*e),
            RefCustom::Blob(a) => {
                let _ = kind;
                out.extend_from_slice(a)
            }
        },
    }
}

fn write_value(out: &mut Vec<u8>, t: &RefTree) {
    out.push(t.kind());
    write_body(out, t);
}

/// Reference encoding of a kind-consistent tree as a full payload of the flavour.
pub fn ref_encode(t: &RefTree, fl: Fl) -> Vec<u8> {
    debug_assert!(t.kind_consistent());
    let mut out = Vec::with_capacity(64);
    out.push(fl.prefix());
    write_value(&mut out, t);
    out
}
