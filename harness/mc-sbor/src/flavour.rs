//! The three real SBOR flavours behind one non-generic-looking interface: the real value decoder,
//! the real encoder, the real streaming traverser (events re-assembled into a real `Value`), plus the
//! bridges between real values and the reference tree of `refsbor` (construction through the public
//! constructors / arithmetic, comparison through the public accessors — never through the codec).
use crate::refsbor::*;
use radix_common::data::manifest::model::*;
use radix_common::data::manifest::*;
use radix_common::data::scrypto::model::*;
use radix_common::data::scrypto::*;
use radix_common::math::{Decimal, PreciseDecimal, I192, I256};
use radix_common::types::NodeId;
use sbor::traversal::*;
use sbor::*;

pub struct TravOut<V> {
    pub result: Result<V, DecodeError>,
    pub events: usize,
    /// the event stream itself was malformed (unbalanced containers, two roots, no termination…)
    pub anomaly: Option<String>,
}

pub trait Flv: Sync + Send + 'static {
    const FL: Fl;
    /// the depth limit the flavour uses by default
    const DEFAULT_DEPTH: usize;
    type V: Clone + PartialEq + std::fmt::Debug + Send;
    fn decode(bytes: &[u8], limit: usize) -> Result<Self::V, DecodeError>;
    fn encode(v: &Self::V, limit: usize) -> Result<Vec<u8>, EncodeError>;
    fn traverse(bytes: &[u8], limit: usize) -> TravOut<Self::V>;
    fn from_ref(r: &RefTree) -> Self::V;
    fn matches_ref(v: &Self::V, r: &RefTree) -> bool;
}

// ------------------------------------------------------------------------------------------------
// generic pieces
// ------------------------------------------------------------------------------------------------

fn vk<X: CustomValueKind>(b: u8) -> ValueKind<X> {
    ValueKind::<X>::from_u8(b).unwrap_or_else(|| mc_core::machinery_error(&format!("harness: value kind byte {b:#x} unknown to the real flavour")))
}

fn from_ref_generic<X: CustomValueKind, Y: CustomValue<X>>(r: &RefTree, custom: &dyn Fn(u8, &RefCustom) -> Y) -> Value<X, Y> {
    let many = |c: &Vec<RefTree>| c.iter().map(|x| from_ref_generic(x, custom)).collect::<Vec<_>>();
    match r {
        RefTree::Bool(v) => Value::Bool { value: *v },
        RefTree::I8(v) => Value::I8 { value: *v },
        RefTree::I16(v) => Value::I16 { value: *v },
        RefTree::I32(v) => Value::I32 { value: *v },
        RefTree::I64(v) => Value::I64 { value: *v },
        RefTree::I128(v) => Value::I128 { value: *v },
        RefTree::U8(v) => Value::U8 { value: *v },
        RefTree::U16(v) => Value::U16 { value: *v },
        RefTree::U32(v) => Value::U32 { value: *v },
        RefTree::U64(v) => Value::U64 { value: *v },
        RefTree::U128(v) => Value::U128 { value: *v },
        RefTree::Str(s) => Value::String { value: s.clone() },
        RefTree::Tuple(c) => Value::Tuple { fields: many(c) },
        RefTree::Enum(d, c) => Value::Enum { discriminator: *d, fields: many(c) },
        RefTree::Array(k, c) => Value::Array { element_value_kind: vk(*k), elements: many(c) },
        RefTree::Map(kk, vkk, e) => Value::Map {
            key_value_kind: vk(*kk),
            value_value_kind: vk(*vkk),
            entries: e.iter().map(|(k, v)| (from_ref_generic(k, custom), from_ref_generic(v, custom))).collect(),
        },
        RefTree::Custom(k, c) => Value::Custom { value: custom(*k, c) },
    }
}

fn matches_generic<X: CustomValueKind, Y: CustomValue<X>>(v: &Value<X, Y>, r: &RefTree, custom: &dyn Fn(&Y, u8, &RefCustom) -> bool) -> bool {
    let all = |a: &Vec<Value<X, Y>>, b: &Vec<RefTree>| a.len() == b.len() && a.iter().zip(b.iter()).all(|(x, y)| matches_generic(x, y, custom));
    match (v, r) {
        (Value::Bool { value }, RefTree::Bool(x)) => value == x,
        (Value::I8 { value }, RefTree::I8(x)) => value == x,
        (Value::I16 { value }, RefTree::I16(x)) => value == x,
        (Value::I32 { value }, RefTree::I32(x)) => value == x,
        (Value::I64 { value }, RefTree::I64(x)) => value == x,
        (Value::I128 { value }, RefTree::I128(x)) => value == x,
        (Value::U8 { value }, RefTree::U8(x)) => value == x,
        (Value::U16 { value }, RefTree::U16(x)) => value == x,
        (Value::U32 { value }, RefTree::U32(x)) => value == x,
        (Value::U64 { value }, RefTree::U64(x)) => value == x,
        (Value::U128 { value }, RefTree::U128(x)) => value == x,
        (Value::String { value }, RefTree::Str(x)) => value == x,
        (Value::Tuple { fields }, RefTree::Tuple(c)) => all(fields, c),
        (Value::Enum { discriminator, fields }, RefTree::Enum(d, c)) => discriminator == d && all(fields, c),
        (Value::Array { element_value_kind, elements }, RefTree::Array(k, c)) => element_value_kind.as_u8() == *k && all(elements, c),
        (Value::Map { key_value_kind, value_value_kind, entries }, RefTree::Map(kk, vkk, e)) => {
            key_value_kind.as_u8() == *kk
                && value_value_kind.as_u8() == *vkk
                && entries.len() == e.len()
                && entries.iter().zip(e.iter()).all(|((k, v), (rk, rv))| matches_generic(k, rk, custom) && matches_generic(v, rv, custom))
        }
        (Value::Custom { value }, RefTree::Custom(k, c)) => value.get_custom_value_kind().as_u8() == *k && custom(value, *k, c),
        _ => false,
    }
}

/// Run the real traverser to End / DecodeError and re-assemble the event stream into a real Value.
fn traverse_generic<'de, T: CustomTraversal, Y: CustomValue<T::CustomValueKind>>(
    bytes: &'de [u8],
    prefix: u8,
    limit: usize,
    custom: fn(&T::CustomTerminalValueRef<'de>) -> Y,
) -> TravOut<Value<T::CustomValueKind, Y>> {
    type Val<T, Y> = Value<<T as CustomTraversal>::CustomValueKind, Y>;
    let mut tr = VecTraverser::<T>::new(bytes, ExpectedStart::PayloadPrefix(prefix), VecTraverserConfig { max_depth: limit, check_exact_end: true });
    let mut stack: Vec<(ContainerHeader<T>, Vec<Val<T, Y>>)> = vec![];
    let mut root: Option<Val<T, Y>> = None;
    let mut events = 0usize;
    let cap = 4 * bytes.len() + 16;
    let anomaly = |events: usize, s: String| TravOut { result: Err(DecodeError::InvalidCustomValue), events, anomaly: Some(s) };
    fn attach<V>(stack_top: Option<&mut Vec<V>>, root: &mut Option<V>, v: V) -> Result<(), String> {
        match stack_top {
            Some(ch) => {
                ch.push(v);
                Ok(())
            }
            None => {
                if root.is_some() {
                    return Err("second root value in event stream".into());
                }
                *root = Some(v);
                Ok(())
            }
        }
    }
    loop {
        events += 1;
        if events > cap {
            return anomaly(events, format!("no End/DecodeError after {cap} events"));
        }
        let ev = tr.next_event();
        let r: Result<(), String> = match ev.event {
            TraversalEvent::ContainerStart(h) => {
                stack.push((h, vec![]));
                Ok(())
            }
            TraversalEvent::ContainerEnd(h) => match stack.pop() {
                None => Err("ContainerEnd without ContainerStart".into()),
                Some((h0, ch)) => {
                    if h0 != h {
                        Err(format!("ContainerEnd header {h:?} differs from ContainerStart header {h0:?}"))
                    } else if ch.len() != h0.get_child_count() {
                        Err(format!("container {h0:?} closed after {} children", ch.len()))
                    } else {
                        let v = match h0 {
                            ContainerHeader::Tuple(_) => Value::Tuple { fields: ch },
                            ContainerHeader::EnumVariant(e) => Value::Enum { discriminator: e.variant, fields: ch },
                            ContainerHeader::Array(a) => Value::Array { element_value_kind: a.element_value_kind, elements: ch },
                            ContainerHeader::Map(m) => {
                                let mut entries = Vec::with_capacity(ch.len() / 2);
                                let mut it = ch.into_iter();
                                while let (Some(k), Some(v)) = (it.next(), it.next()) {
                                    entries.push((k, v));
                                }
                                Value::Map { key_value_kind: m.key_value_kind, value_value_kind: m.value_value_kind, entries }
                            }
                        };
                        attach(stack.last_mut().map(|x| &mut x.1), &mut root, v)
                    }
                }
            },
            TraversalEvent::TerminalValue(t) => {
                let v = match t {
                    TerminalValueRef::Bool(x) => Value::Bool { value: x },
                    TerminalValueRef::I8(x) => Value::I8 { value: x },
                    TerminalValueRef::I16(x) => Value::I16 { value: x },
                    TerminalValueRef::I32(x) => Value::I32 { value: x },
                    TerminalValueRef::I64(x) => Value::I64 { value: x },
                    TerminalValueRef::I128(x) => Value::I128 { value: x },
                    TerminalValueRef::U8(x) => Value::U8 { value: x },
                    TerminalValueRef::U16(x) => Value::U16 { value: x },
                    TerminalValueRef::U32(x) => Value::U32 { value: x },
                    TerminalValueRef::U64(x) => Value::U64 { value: x },
                    TerminalValueRef::U128(x) => Value::U128 { value: x },
                    TerminalValueRef::String(s) => Value::String { value: s.to_string() },
                    TerminalValueRef::Custom(c) => Value::Custom { value: custom(&c) },
                };
                attach(stack.last_mut().map(|x| &mut x.1), &mut root, v)
            }
            TraversalEvent::TerminalValueBatch(TerminalValueBatchRef::U8(bs)) => {
                let mut r = Ok(());
                if stack.is_empty() {
                    r = Err("byte batch outside a container".into());
                } else {
                    for b in bs {
                        stack.last_mut().unwrap().1.push(Value::U8 { value: *b });
                    }
                }
                r
            }
            TraversalEvent::End => {
                if !stack.is_empty() {
                    return anomaly(events, "End inside an open container".into());
                }
                return match root {
                    Some(v) => TravOut { result: Ok(v), events, anomaly: None },
                    None => anomaly(events, "End without a root value".into()),
                };
            }
            TraversalEvent::DecodeError(e) => return TravOut { result: Err(e), events, anomaly: None },
        };
        if let Err(s) = r {
            return anomaly(events, s);
        }
    }
}

// ------------------------------------------------------------------------------------------------
// decimals through arithmetic only (no from/to byte conversions of the library)
// ------------------------------------------------------------------------------------------------

pub fn i192_from_le(b: &[u8; 24]) -> I192 {
    let mut acc = I192::ZERO;
    for (i, x) in b.iter().enumerate() {
        acc = acc | (I192::from(*x) << (8 * i as u32));
    }
    acc
}

pub fn i256_from_le(b: &[u8; 32]) -> I256 {
    let mut acc = I256::ZERO;
    for (i, x) in b.iter().enumerate() {
        acc = acc | (I256::from(*x) << (8 * i as u32));
    }
    acc
}

// ------------------------------------------------------------------------------------------------
// basic
// ------------------------------------------------------------------------------------------------

pub struct Basic;

impl Flv for Basic {
    const FL: Fl = Fl::Basic;
    const DEFAULT_DEPTH: usize = BASIC_SBOR_V1_MAX_DEPTH;
    type V = BasicValue;
    fn decode(bytes: &[u8], limit: usize) -> Result<BasicValue, DecodeError> {
        BasicDecoder::new(bytes, limit).decode_payload(BASIC_SBOR_V1_PAYLOAD_PREFIX)
    }
    fn encode(v: &BasicValue, limit: usize) -> Result<Vec<u8>, EncodeError> {
        let mut buf = Vec::with_capacity(64);
        BasicEncoder::new(&mut buf, limit).encode_payload(v, BASIC_SBOR_V1_PAYLOAD_PREFIX)?;
        Ok(buf)
    }
    fn traverse(bytes: &[u8], limit: usize) -> TravOut<BasicValue> {
        traverse_generic::<NoCustomTraversal, NoCustomValue>(bytes, BASIC_SBOR_V1_PAYLOAD_PREFIX, limit, |c| match *c {})
    }
    fn from_ref(r: &RefTree) -> BasicValue {
        from_ref_generic(r, &|k, _| mc_core::machinery_error(&format!("harness: custom kind {k:#x} in a basic tree")))
    }
    fn matches_ref(v: &BasicValue, r: &RefTree) -> bool {
        matches_generic(v, r, &|y, _, _| match *y {})
    }
}

// ------------------------------------------------------------------------------------------------
// scrypto
// ------------------------------------------------------------------------------------------------

pub struct Scrypto;

fn scrypto_custom_from_ref(k: u8, c: &RefCustom) -> ScryptoCustomValue {
    match (k, c) {
        (0x80, RefCustom::NodeId(a)) => ScryptoCustomValue::Reference(Reference(NodeId(*a))),
        (0x90, RefCustom::NodeId(a)) => ScryptoCustomValue::Own(Own(NodeId(*a))),
        (0xa0, RefCustom::Dec(a)) => ScryptoCustomValue::Decimal(Decimal::from_attos(i192_from_le(a))),
        (0xb0, RefCustom::PDec(a)) => ScryptoCustomValue::PreciseDecimal(PreciseDecimal::from_precise_subunits(i256_from_le(a))),
        (0xc0, RefCustom::IdString(s)) => ScryptoCustomValue::NonFungibleLocalId(NonFungibleLocalId::string(s.as_str()).expect("harness: valid string id")),
        (0xc0, RefCustom::IdInteger(v)) => ScryptoCustomValue::NonFungibleLocalId(NonFungibleLocalId::integer(*v)),
        (0xc0, RefCustom::IdBytes(b)) => ScryptoCustomValue::NonFungibleLocalId(NonFungibleLocalId::bytes(b.clone()).expect("harness: valid bytes id")),
        (0xc0, RefCustom::IdRuid(a)) => ScryptoCustomValue::NonFungibleLocalId(NonFungibleLocalId::ruid(*a)),
        _ => mc_core::machinery_error(&format!("harness: no scrypto custom value for kind {k:#x} / {c:?}")),
    }
}

fn scrypto_custom_matches(y: &ScryptoCustomValue, _k: u8, c: &RefCustom) -> bool {
    match (y, c) {
        (ScryptoCustomValue::Reference(r), RefCustom::NodeId(a)) => r.0 .0 == *a,
        (ScryptoCustomValue::Own(o), RefCustom::NodeId(a)) => o.0 .0 == *a,
        (ScryptoCustomValue::Decimal(d), RefCustom::Dec(a)) => d.attos() == i192_from_le(a),
        (ScryptoCustomValue::PreciseDecimal(d), RefCustom::PDec(a)) => d.precise_subunits() == i256_from_le(a),
        (ScryptoCustomValue::NonFungibleLocalId(NonFungibleLocalId::String(s)), RefCustom::IdString(x)) => s.value() == x.as_str(),
        (ScryptoCustomValue::NonFungibleLocalId(NonFungibleLocalId::Integer(i)), RefCustom::IdInteger(x)) => i.value() == *x,
        (ScryptoCustomValue::NonFungibleLocalId(NonFungibleLocalId::Bytes(b)), RefCustom::IdBytes(x)) => b.value() == x.as_slice(),
        (ScryptoCustomValue::NonFungibleLocalId(NonFungibleLocalId::RUID(r)), RefCustom::IdRuid(x)) => r.value() == x,
        _ => false,
    }
}

impl Flv for Scrypto {
    const FL: Fl = Fl::Scrypto;
    const DEFAULT_DEPTH: usize = SCRYPTO_SBOR_V1_MAX_DEPTH;
    type V = ScryptoValue;
    fn decode(bytes: &[u8], limit: usize) -> Result<ScryptoValue, DecodeError> {
        ScryptoDecoder::new(bytes, limit).decode_payload(SCRYPTO_SBOR_V1_PAYLOAD_PREFIX)
    }
    fn encode(v: &ScryptoValue, limit: usize) -> Result<Vec<u8>, EncodeError> {
        let mut buf = Vec::with_capacity(64);
        ScryptoEncoder::new(&mut buf, limit).encode_payload(v, SCRYPTO_SBOR_V1_PAYLOAD_PREFIX)?;
        Ok(buf)
    }
    fn traverse(bytes: &[u8], limit: usize) -> TravOut<ScryptoValue> {
        traverse_generic::<ScryptoCustomTraversal, ScryptoCustomValue>(bytes, SCRYPTO_SBOR_V1_PAYLOAD_PREFIX, limit, |c| c.0.clone())
    }
    fn from_ref(r: &RefTree) -> ScryptoValue {
        from_ref_generic(r, &scrypto_custom_from_ref)
    }
    fn matches_ref(v: &ScryptoValue, r: &RefTree) -> bool {
        matches_generic(v, r, &scrypto_custom_matches)
    }
}

// ------------------------------------------------------------------------------------------------
// manifest
// ------------------------------------------------------------------------------------------------

pub struct Manifest;

fn manifest_custom_from_ref(k: u8, c: &RefCustom) -> ManifestCustomValue {
    match (k, c) {
        (0x80, RefCustom::AddrStatic(a)) => ManifestCustomValue::Address(ManifestAddress::Static(NodeId(*a))),
        (0x80, RefCustom::AddrNamed(n)) => ManifestCustomValue::Address(ManifestAddress::Named(ManifestNamedAddress(*n))),
        (0x81, RefCustom::Handle(n)) => ManifestCustomValue::Bucket(ManifestBucket(*n)),
        (0x82, RefCustom::Handle(n)) => ManifestCustomValue::Proof(ManifestProof(*n)),
        (0x83, RefCustom::Expr(0)) => ManifestCustomValue::Expression(ManifestExpression::EntireWorktop),
        (0x83, RefCustom::Expr(1)) => ManifestCustomValue::Expression(ManifestExpression::EntireAuthZone),
        (0x84, RefCustom::Blob(a)) => ManifestCustomValue::Blob(ManifestBlobRef(*a)),
        (0x85, RefCustom::Dec(a)) => ManifestCustomValue::Decimal(ManifestDecimal(*a)),
        (0x86, RefCustom::PDec(a)) => ManifestCustomValue::PreciseDecimal(ManifestPreciseDecimal(*a)),
        (0x87, RefCustom::IdString(s)) => ManifestCustomValue::NonFungibleLocalId(ManifestNonFungibleLocalId::string(s.clone()).expect("harness: valid string id")),
        (0x87, RefCustom::IdInteger(v)) => ManifestCustomValue::NonFungibleLocalId(ManifestNonFungibleLocalId::integer(*v).expect("harness: valid integer id")),
        (0x87, RefCustom::IdBytes(b)) => ManifestCustomValue::NonFungibleLocalId(ManifestNonFungibleLocalId::bytes(b.clone()).expect("harness: valid bytes id")),
        (0x87, RefCustom::IdRuid(a)) => ManifestCustomValue::NonFungibleLocalId(ManifestNonFungibleLocalId::ruid(*a)),
        (0x88, RefCustom::Handle(n)) => ManifestCustomValue::AddressReservation(ManifestAddressReservation(*n)),
        _ => mc_core::machinery_error(&format!("harness: no manifest custom value for kind {k:#x} / {c:?}")),
    }
}

fn manifest_custom_matches(y: &ManifestCustomValue, _k: u8, c: &RefCustom) -> bool {
    match (y, c) {
        (ManifestCustomValue::Address(ManifestAddress::Static(n)), RefCustom::AddrStatic(a)) => n.0 == *a,
        (ManifestCustomValue::Address(ManifestAddress::Named(n)), RefCustom::AddrNamed(x)) => n.0 == *x,
        (ManifestCustomValue::Bucket(b), RefCustom::Handle(x)) => b.0 == *x,
        (ManifestCustomValue::Proof(b), RefCustom::Handle(x)) => b.0 == *x,
        (ManifestCustomValue::AddressReservation(b), RefCustom::Handle(x)) => b.0 == *x,
        (ManifestCustomValue::Expression(ManifestExpression::EntireWorktop), RefCustom::Expr(0)) => true,
        (ManifestCustomValue::Expression(ManifestExpression::EntireAuthZone), RefCustom::Expr(1)) => true,
        (ManifestCustomValue::Blob(b), RefCustom::Blob(x)) => b.0 == *x,
        (ManifestCustomValue::Decimal(d), RefCustom::Dec(x)) => d.0 == *x,
        (ManifestCustomValue::PreciseDecimal(d), RefCustom::PDec(x)) => d.0 == *x,
        (ManifestCustomValue::NonFungibleLocalId(ManifestNonFungibleLocalId::String(s)), RefCustom::IdString(x)) => s == x,
        (ManifestCustomValue::NonFungibleLocalId(ManifestNonFungibleLocalId::Integer(i)), RefCustom::IdInteger(x)) => i == x,
        (ManifestCustomValue::NonFungibleLocalId(ManifestNonFungibleLocalId::Bytes(b)), RefCustom::IdBytes(x)) => b == x,
        (ManifestCustomValue::NonFungibleLocalId(ManifestNonFungibleLocalId::RUID(r)), RefCustom::IdRuid(x)) => r == x,
        _ => false,
    }
}

impl Flv for Manifest {
    const FL: Fl = Fl::Manifest;
    const DEFAULT_DEPTH: usize = MANIFEST_SBOR_V1_MAX_DEPTH;
    type V = ManifestValue;
    fn decode(bytes: &[u8], limit: usize) -> Result<ManifestValue, DecodeError> {
        ManifestDecoder::new(bytes, limit).decode_payload(MANIFEST_SBOR_V1_PAYLOAD_PREFIX)
    }
    fn encode(v: &ManifestValue, limit: usize) -> Result<Vec<u8>, EncodeError> {
        let mut buf = Vec::with_capacity(64);
        ManifestEncoder::new(&mut buf, limit).encode_payload(v, MANIFEST_SBOR_V1_PAYLOAD_PREFIX)?;
        Ok(buf)
    }
    fn traverse(bytes: &[u8], limit: usize) -> TravOut<ManifestValue> {
        traverse_generic::<ManifestCustomTraversal, ManifestCustomValue>(bytes, MANIFEST_SBOR_V1_PAYLOAD_PREFIX, limit, |c| c.0.clone())
    }
    fn from_ref(r: &RefTree) -> ManifestValue {
        from_ref_generic(r, &manifest_custom_from_ref)
    }
    fn matches_ref(v: &ManifestValue, r: &RefTree) -> bool {
        matches_generic(v, r, &manifest_custom_matches)
    }
}
