//! C20 — SBOR values round-trip and have a unique encoding; the accepted payloads are exactly those of the
//! wire format.
//!
//! Bounded-exhaustive enumeration, each space x 3 flavours (basic / Scrypto / manifest), against the
//! independent reference reader / writer of `refsbor`:
//!   (a) every value tree of the tree space (depth <= 3, width <= 2): encode == ref_encode, decode(encode(v)) == v,
//!       decoded value spells the reference tree; plus kind-inconsistent arrays / maps (must not encode);
//!   (b) every byte string of the byte-string space: real decoder accepts <=> reference accepts; if accepted the
//!       decoded value spells the reference tree and re-encodes to exactly the input;
//!   (c) every single-point mutation of every (a)-encoding of <= 40 bytes: same oracle as (b);
//!   (e) every 2-byte size form on a string header, every first byte of a static manifest address.
use crate::flavour::*;
use crate::refsbor::*;
use crate::sink::VioSink;
use crate::spaces::*;
use mc_core::{gen, par_range, Ctx, Level, Local};
use sbor::DecodeError;
use serde_json::{json, Map, Value};
use std::collections::HashSet;
use std::sync::atomic::{AtomicU64, Ordering};

pub fn decode_error_name(e: &DecodeError) -> &'static str {
    match e {
        DecodeError::ExtraTrailingBytes(_) => "ExtraTrailingBytes",
        DecodeError::BufferUnderflow { .. } => "BufferUnderflow",
        DecodeError::UnexpectedPayloadPrefix { .. } => "UnexpectedPayloadPrefix",
        DecodeError::UnexpectedValueKind { .. } => "UnexpectedValueKind",
        DecodeError::UnexpectedCustomValueKind { .. } => "UnexpectedCustomValueKind",
        DecodeError::UnexpectedSize { .. } => "UnexpectedSize",
        DecodeError::UnexpectedDiscriminator { .. } => "UnexpectedDiscriminator",
        DecodeError::UnknownValueKind(_) => "UnknownValueKind",
        DecodeError::UnknownDiscriminator(_) => "UnknownDiscriminator",
        DecodeError::InvalidBool(_) => "InvalidBool",
        DecodeError::InvalidUtf8 => "InvalidUtf8",
        DecodeError::InvalidSize => "InvalidSize",
        DecodeError::MaxDepthExceeded(_) => "MaxDepthExceeded",
        DecodeError::DuplicateKey => "DuplicateKey",
        DecodeError::InvalidCustomValue => "InvalidCustomValue",
    }
}

fn rejected_class(e: RefErr) -> &'static str {
    match e {
        RefErr::Depth => "rejected:depth",
        RefErr::Empty => "rejected:empty",
        RefErr::BadPrefix => "rejected:bad-prefix",
        RefErr::UnknownKind => "rejected:unknown-kind",
        RefErr::Underflow => "rejected:underflow",
        RefErr::SizeNonCanonical => "rejected:size-non-canonical",
        RefErr::SizeTooLong => "rejected:size-too-long",
        RefErr::BadBool => "rejected:bad-bool",
        RefErr::BadUtf8 => "rejected:bad-utf8",
        RefErr::BadCustom => "rejected:bad-custom",
        RefErr::TrailingBytes => "rejected:trailing-bytes",
    }
}

fn fl_tag(fl: Fl) -> u64 {
    match fl {
        Fl::Basic => 0,
        Fl::Scrypto => 1,
        Fl::Manifest => 2,
    }
}

fn case_json(fl: Fl, space: &str, bytes: &[u8]) -> Value {
    json!({"flavour": fl.name(), "space": space, "bytes": mc_core::hex(bytes)})
}

struct Shared {
    sink: VioSink,
    accepted_b: AtomicU64,
    accepted_c: AtomicU64,
    mutations: AtomicU64,
}

/// (b)/(c)/(e): one payload against the real decoder + encoder and the reference reader. Returns true if accepted by both.
fn check_payload<F: Flv>(bytes: &[u8], space: &'static str, l: &mut Local, sh: &Shared, verbose: bool) -> bool {
    l.eval();
    let limit = F::DEFAULT_DEPTH;
    let fl = F::FL;
    let rp = ref_parse(bytes, fl, limit);
    let real = mc_core::catch(|| F::decode(bytes, limit));
    if verbose {
        println!("  reference: {:?}", rp.as_ref().map(|t| format!("{t:?}")));
        println!("  real decoder: {:?}", real.as_ref().map(|r| r.as_ref().map(|v| format!("{v:?}"))));
    }
    let rec = |key: &str, what: String| sh.sink.record(key, bytes, fl_tag(fl), || (what, case_json(fl, space, bytes)));
    if matches!(real, Ok(Ok(_))) {
        check_small_limits::<F>(bytes, space, l, sh, verbose);
    }
    match (real, rp) {
        (Err(p), Ok(_)) => {
            rec("decode-panics-on-wire-format-payload", format!("{} decoder panicked ({p}) on a payload the wire format accepts: {}", fl.name(), mc_core::hex(bytes)));
            false
        }
        (Err(_), Err(e)) => {
            l.info("decoder panicked on a payload outside the wire format (C21's clause, not C20's)");
            l.class(rejected_class(e));
            false
        }
        (Ok(Ok(v)), Ok(t)) => {
            l.class("accepted");
            if !F::matches_ref(&v, &t) {
                rec("decoded-value-differs-from-wire-format", format!("{} payload {} decodes to {v:?}, the wire format says {t:?}", fl.name(), mc_core::hex(bytes)));
            }
            match mc_core::catch(|| F::encode(&v, limit)) {
                Ok(Ok(e)) => {
                    if verbose {
                        println!("  re-encoded: {}", mc_core::hex(&e));
                    }
                    if e != bytes {
                        rec("reencoding-differs", format!("{} payload {} is accepted but re-encodes to {} (two encodings of one value)", fl.name(), mc_core::hex(bytes), mc_core::hex(&e)));
                    }
                }
                Ok(Err(e)) => rec("accepted-payload-not-reencodable", format!("{} payload {} is accepted but its value does not encode: {e:?}", fl.name(), mc_core::hex(bytes))),
                Err(p) => rec("reencode-panics", format!("{} payload {} is accepted but encoding its value panics: {p}", fl.name(), mc_core::hex(bytes))),
            }
            l.sample(|| json!({"space": space, "flavour": fl.name(), "bytes": mc_core::hex(bytes), "outcome": "accepted, re-encodes identically"}));
            true
        }
        (Ok(Ok(v)), Err(e)) => {
            rec(
                &format!("accepts-outside-wire-format:{}", e.label()),
                format!("{} decoder accepts {} as {v:?}; the wire format rejects it ({})", fl.name(), mc_core::hex(bytes), e.label()),
            );
            false
        }
        (Ok(Err(de)), Ok(t)) => {
            rec(
                &format!("rejects-wire-format-payload:{}", decode_error_name(&de)),
                format!("{} decoder rejects {} with {de:?}; the wire format reads it as {t:?}", fl.name(), mc_core::hex(bytes)),
            );
            false
        }
        (Ok(Err(_)), Err(e)) => {
            l.class(rejected_class(e));
            false
        }
    }
}

/// Depth limits under which the re-encode clause is re-checked (the default limits 64 / 24 are out of reach of short payloads).
pub const SMALL_LIMITS: [usize; 4] = [1, 2, 3, 4];

/// "Any byte string accepted as a value payload re-encodes to exactly the same bytes" — at small depth limits:
/// whenever the real decoder accepts `bytes` at limit L, the real encoder with the same limit L must give `bytes` back.
fn check_small_limits<F: Flv>(bytes: &[u8], space: &'static str, l: &mut Local, sh: &Shared, verbose: bool) {
    let fl = F::FL;
    for &limit in &SMALL_LIMITS {
        l.eval();
        let rec = |key: &str, what: String| {
            sh.sink.record(key, bytes, fl_tag(fl) * 1000 + limit as u64, || (what, json!({"flavour": fl.name(), "space": space, "bytes": mc_core::hex(bytes), "limit": limit})))
        };
        match mc_core::catch(|| F::decode(bytes, limit)) {
            Ok(Ok(v)) => match mc_core::catch(|| F::encode(&v, limit)) {
                Ok(Ok(e)) => {
                    if verbose {
                        println!("  limit {limit}: accepted, re-encoded {}", mc_core::hex(&e));
                    }
                    if e == bytes {
                        l.class("small-limit:accepted-and-reencoded-identically");
                    } else {
                        rec("reencoding-at-limit-differs", format!("{} payload {} is accepted at depth limit {limit} but re-encodes (same limit) to {}", fl.name(), mc_core::hex(bytes), mc_core::hex(&e)));
                    }
                }
                Ok(Err(e)) => {
                    if verbose {
                        println!("  limit {limit}: accepted, encoder fails with {e:?}");
                    }
                    rec(
                        "accepted-at-limit-but-not-reencodable",
                        format!("{} payload {} is accepted by the decoder at depth limit {limit} as {v:?}, but the encoder with the same limit fails with {e:?}", fl.name(), mc_core::hex(bytes)),
                    )
                }
                Err(p) => rec("reencode-panics", format!("{} payload {} is accepted at depth limit {limit} but encoding its value panics: {p}", fl.name(), mc_core::hex(bytes))),
            },
            Ok(Err(e)) => {
                if verbose {
                    println!("  limit {limit}: rejected with {e:?}");
                }
                l.class("small-limit:rejected");
            }
            Err(_) => l.info("decoder panicked at a small depth limit (C21's clause, not C20's)"),
        }
    }
}

/// (a): one value tree.
fn check_tree<F: Flv>(r: &RefTree, l: &mut Local, sh: &Shared, verbose: bool) -> Vec<u8> {
    l.eval();
    let fl = F::FL;
    let limit = F::DEFAULT_DEPTH;
    let refenc = ref_encode(r, fl);
    // self-check of the reference: its reader inverts its writer
    match ref_parse(&refenc, fl, limit) {
        Ok(t) if t == *r => {}
        other => mc_core::machinery_error(&format!("reference reader/writer disagree on {r:?}: {} -> {other:?}", mc_core::hex(&refenc))),
    }
    let v = F::from_ref(r);
    let rec = |key: &str, what: String| sh.sink.record(key, &refenc, fl_tag(fl), || (what, case_json(fl, "a", &refenc)));
    match mc_core::catch(|| F::encode(&v, limit)) {
        Err(p) => rec("encode-panics", format!("{} encoder panics ({p}) on {v:?}", fl.name())),
        Ok(Err(e)) => rec("encoder-rejects-valid-value", format!("{} encoder rejects {v:?} with {e:?}", fl.name())),
        Ok(Ok(e)) => {
            if verbose {
                println!("  value {v:?}\n  encoder:   {}\n  reference: {}", mc_core::hex(&e), mc_core::hex(&refenc));
            }
            if e != refenc {
                rec("encoding-differs-from-wire-format", format!("{} value {v:?} encodes to {}, the wire format says {}", fl.name(), mc_core::hex(&e), mc_core::hex(&refenc)));
            }
            match mc_core::catch(|| F::decode(&e, limit)) {
                Err(p) => rec("decode-panics-on-own-encoding", format!("{} decoder panics ({p}) on the encoding {} of {v:?}", fl.name(), mc_core::hex(&e))),
                Ok(Err(de)) => rec("decoder-rejects-own-encoding", format!("{} decoder rejects the encoding {} of {v:?} with {de:?}", fl.name(), mc_core::hex(&e))),
                Ok(Ok(d)) => {
                    if d != v {
                        rec("roundtrip-value-differs", format!("{} value {v:?} encodes to {} which decodes to {d:?}", fl.name(), mc_core::hex(&e)));
                    } else if !F::matches_ref(&d, r) {
                        rec("decoded-value-differs-from-wire-format", format!("{} payload {} decodes to {d:?}, the wire format says {r:?}", fl.name(), mc_core::hex(&e)));
                    } else {
                        l.class(match r.depth() {
                            1 => "tree:roundtrip-ok:depth1",
                            2 => "tree:roundtrip-ok:depth2",
                            _ => "tree:roundtrip-ok:depth3",
                        });
                    }
                }
            }
        }
    }
    check_small_limits::<F>(&refenc, "a-encoding", l, sh, verbose);
    l.sample(|| json!({"space": "a", "flavour": fl.name(), "tree": mc_core::truncate(&format!("{r:?}"), 160), "encoding": mc_core::hex(&refenc[..refenc.len().min(48)])}));
    refenc
}

/// Arrays / maps whose elements do not have the declared kind: not expressible on the wire, so the encoder
/// must refuse them (if it encoded them, the payload could not decode back to an equal value).
fn kind_inconsistent_trees(fl: Fl) -> Vec<RefTree> {
    let firsts = ladder_leaves(fl);
    let mut out = vec![];
    for a in &firsts {
        for b in &firsts {
            if a.kind() == b.kind() {
                continue;
            }
            out.push(RefTree::Array(a.kind(), vec![b.clone()]));
            out.push(RefTree::Array(a.kind(), vec![a.clone(), b.clone()]));
            out.push(RefTree::Map(a.kind(), a.kind(), vec![(b.clone(), a.clone())]));
            out.push(RefTree::Map(a.kind(), a.kind(), vec![(a.clone(), b.clone())]));
            out.push(RefTree::Tuple(vec![RefTree::Array(a.kind(), vec![a.clone(), b.clone()])]));
        }
    }
    out
}

fn check_inconsistent<F: Flv>(r: &RefTree, l: &mut Local, sh: &Shared) {
    l.eval();
    let fl = F::FL;
    let v = F::from_ref(r);
    match mc_core::catch(|| F::encode(&v, F::DEFAULT_DEPTH)) {
        Err(_) => l.info("encoder panicked on a kind-inconsistent in-memory value (outside the statement)"),
        Ok(Err(_)) => l.class("tree:encoder-refuses-kind-mismatch"),
        Ok(Ok(e)) => {
            let back = mc_core::catch(|| F::decode(&e, F::DEFAULT_DEPTH));
            if !matches!(&back, Ok(Ok(d)) if *d == v) {
                sh.sink.record("encodes-value-that-does-not-round-trip", &e, fl_tag(fl), || {
                    (
                        format!("{} encoder accepts the kind-inconsistent value {v:?} -> {}; decoding gives {back:?}", fl.name(), mc_core::hex(&e)),
                        json!({"flavour": fl.name(), "space": "a-inconsistent", "bytes": mc_core::hex(&e), "tree": format!("{r:?}")}),
                    )
                });
            } else {
                l.class("tree:kind-mismatch-encoded-and-round-tripped");
            }
        }
    }
}

struct FlavourCounts {
    ladders: u64,
    trees: u64,
    distinct_encodings: u64,
    inconsistent: u64,
    strings: u64,
    mutation_bases: u64,
}

fn run_flavour<F: Flv>(ctx: &Ctx, sh: &Shared, cov: &mut Map<String, Value>) -> FlavourCounts {
    let fl = F::FL;
    let wide = !ctx.quick();
    let t0 = ctx.elapsed_s();
    let space = tree_space(fl, wide);
    let n = space.len() as u64;

    // harness anchors: the arithmetic bridge for decimals means what the library constants mean
    if fl == Fl::Scrypto {
        use radix_common::math::{Decimal, PreciseDecimal};
        let mut one = [0u8; 24];
        one[..16].copy_from_slice(&1_000_000_000_000_000_000u128.to_le_bytes());
        if Decimal::from_attos(i192_from_le(&one)) != Decimal::ONE || Decimal::from_attos(i192_from_le(&[0xff; 24])) != Decimal::ZERO - Decimal::from_attos(1u8.into()) {
            mc_core::machinery_error("harness decimal bridge does not agree with Decimal::ONE / -1 atto");
        }
        let mut mn = [0u8; 24];
        mn[23] = 0x80;
        let mut mx = [0xffu8; 24];
        mx[23] = 0x7f;
        if Decimal::from_attos(i192_from_le(&mn)) != Decimal::MIN || Decimal::from_attos(i192_from_le(&mx)) != Decimal::MAX {
            mc_core::machinery_error("harness decimal bridge does not agree with Decimal::MIN / MAX");
        }
        let mut pmn = [0u8; 32];
        pmn[31] = 0x80;
        if PreciseDecimal::from_precise_subunits(i256_from_le(&pmn)) != PreciseDecimal::MIN {
            mc_core::machinery_error("harness decimal bridge does not agree with PreciseDecimal::MIN");
        }
    }

    // ---- (a) trees + (c) mutations of their encodings
    let alphabet: &[u8] = if ctx.quick() { &MUT_ALPHABET_QUICK } else { &gen::ALL_BYTES };
    let bases = AtomicU64::new(0);
    par_range(ctx, n, 64, |i, l| {
        let r = space.get(i as usize);
        let enc = check_tree::<F>(r, l, sh, false);
        if enc.len() <= 40 {
            bases.fetch_add(1, Ordering::Relaxed);
            let mut muts = 0u64;
            let mut acc = 0u64;
            gen::mutations(&enc, alphabet, |m| {
                muts += 1;
                if check_payload::<F>(m, "c", l, sh, false) {
                    acc += 1;
                }
            });
            sh.mutations.fetch_add(muts, Ordering::Relaxed);
            sh.accepted_c.fetch_add(acc, Ordering::Relaxed);
        } else {
            l.info("encoding longer than 40 bytes: covered by (a) only");
        }
    });
    // distinctness of the tree space, measured by encoding
    let mut seen: HashSet<Vec<u8>> = HashSet::with_capacity(space.len());
    for i in 0..space.len() {
        seen.insert(mc_core::fp128(&ref_encode(space.get(i), fl)));
    }
    let distinct = seen.len() as u64;
    drop(seen);
    let t_a = ctx.elapsed_s();

    // ---- (a') kind-inconsistent containers
    let bad = kind_inconsistent_trees(fl);
    par_range(ctx, bad.len() as u64, 16, |i, l| check_inconsistent::<F>(&bad[i as usize], l, sh));

    // ---- (b) byte strings
    let lb = ctx.pick(6u32, 7u32);
    let n_full = gen::count_upto(16, 3);
    let n_body = gen::count_upto(16, lb);
    par_range(ctx, n_full, 256, |i, l| {
        let mut buf = Vec::with_capacity(8);
        gen::nth_string(&ALPHABET_FULL, i, &mut buf);
        if check_payload::<F>(&buf, "b", l, sh, false) {
            sh.accepted_b.fetch_add(1, Ordering::Relaxed);
        }
    });
    par_range(ctx, n_body, 4096, |i, l| {
        let mut body = Vec::with_capacity(8);
        gen::nth_string(&ALPHABET_BODY, i, &mut body);
        let mut buf = Vec::with_capacity(9);
        buf.push(fl.prefix());
        buf.extend_from_slice(&body);
        if check_payload::<F>(&buf, "b", l, sh, false) {
            sh.accepted_b.fetch_add(1, Ordering::Relaxed);
        }
    });
    let t_b = ctx.elapsed_s();

    // ---- (e) every 2-byte size form on a string header (with the data the form promises, and one byte less)
    let mut extra = 0u64;
    par_range(ctx, 65536, 256, |i, l| {
        let (b1, b2) = ((i >> 8) as u8, i as u8);
        let lenient = ((b1 & 0x7f) as usize) | (((b2 & 0x7f) as usize) << 7);
        for data in [lenient, lenient.saturating_sub(1), (b1 & 0x7f) as usize] {
            let mut buf = vec![fl.prefix(), K_STRING, b1, b2];
            buf.resize(4 + data, b'x');
            check_payload::<F>(&buf, "e-size-forms", l, sh, false);
        }
    });
    extra += 65536 * 3;
    if fl == Fl::Manifest {
        par_range(ctx, 256, 8, |i, l| {
            for fill in [0x00u8, 0xff] {
                let mut buf = vec![fl.prefix(), 0x80, 0x00, i as u8];
                buf.resize(4 + 29, fill);
                check_payload::<F>(&buf, "e-address-entity-byte", l, sh, false);
            }
        });
        extra += 512;
    }

    // ---- (d) depth ladders (the spaces of C21): default limit and small limits
    let t_e = ctx.elapsed_s();
    let max_chain = ctx.pick(4usize, 6usize);
    let lleaves = ladder_leaves(fl);
    let n_ladders = chain_count(max_chain) * lleaves.len() as u64;
    par_range(ctx, n_ladders, 64, |i, l| {
        let leaf = &lleaves[(i % lleaves.len() as u64) as usize];
        let mut chain = Vec::with_capacity(8);
        nth_chain(i / lleaves.len() as u64, &mut chain);
        let bytes = ref_encode(&build_ladder(&chain, leaf), fl);
        check_payload::<F>(&bytes, "d", l, sh, false);
    });
    let t_d = ctx.elapsed_s();

    cov.insert(
        format!("space_{}", fl.name()),
        json!({
            "trees_S1": space.s1.len(), "trees_S2": space.s2.len(), "trees_S3": space.s3.len(),
            "core_leaves": space.core1, "core_depth2": space.core2,
            "distinct_tree_encodings": distinct,
            "kind_inconsistent_trees": bad.len(),
            "mutation_bases(<=40 bytes)": bases.load(Ordering::Relaxed),
            "byte_strings": n_full + n_body,
            "extra_payloads(size forms, address entity bytes)": extra,
            "ladder_payloads(chains 1..=max x leaves)": n_ladders,
            "ladder_max_chain": max_chain,
            "seconds(a+c, b, e, d)": [t_a - t0, t_b - t_a, t_e - t_b, t_d - t_e],
        }),
    );
    FlavourCounts { ladders: n_ladders, trees: n, distinct_encodings: distinct, inconsistent: bad.len() as u64, strings: n_full + n_body, mutation_bases: bases.load(Ordering::Relaxed) }
}

/// Informational: in-memory custom values that the constructors refuse but the public enum fields allow.
/// They are not "SBOR values" in the sense of the statement (no payload denotes them); recorded so the
/// reader knows the encoder does not validate them.
fn informational_invalid_in_memory(ctx: &Ctx) {
    use radix_common::data::manifest::model::*;
    use radix_common::data::manifest::*;
    use radix_common::types::NodeId;
    let cases: Vec<(&str, ManifestValue)> = vec![
        ("manifest local id String(\"\") built through the public variant", ManifestValue::Custom { value: ManifestCustomValue::NonFungibleLocalId(ManifestNonFungibleLocalId::String(String::new())) }),
        ("manifest static address with a non-entity first byte", ManifestValue::Custom { value: ManifestCustomValue::Address(ManifestAddress::Static(NodeId([0xff; 30]))) }),
    ];
    for (name, v) in cases {
        let enc = mc_core::catch(|| Manifest::encode(&v, 24));
        if let Ok(Ok(e)) = enc {
            if !matches!(mc_core::catch(|| Manifest::decode(&e, 24)), Ok(Ok(d)) if d == v) {
                ctx.info(&format!("encodable but not decodable (invalid in-memory custom value, outside the statement's domain): {name}"), 1);
            }
        }
    }
}

pub fn run(ctx: Ctx) -> ! {
    if let Some(case) = ctx.read_replay_case() {
        replay(ctx, case);
    }
    let sh = Shared { sink: VioSink::new(), accepted_b: AtomicU64::new(0), accepted_c: AtomicU64::new(0), mutations: AtomicU64::new(0) };
    let mut cov = Map::new();
    let c0 = run_flavour::<Basic>(&ctx, &sh, &mut cov);
    let c1 = run_flavour::<Scrypto>(&ctx, &sh, &mut cov);
    let c2 = run_flavour::<Manifest>(&ctx, &sh, &mut cov);
    informational_invalid_in_memory(&ctx);

    let trees = c0.trees + c1.trees + c2.trees;
    let distinct = c0.distinct_encodings + c1.distinct_encodings + c2.distinct_encodings;
    if distinct != trees {
        ctx.note(format!("tree space contains duplicates: {trees} trees, {distinct} distinct encodings"));
    }
    let accepted_b = sh.accepted_b.load(Ordering::Relaxed);
    cov.insert("value_trees".into(), json!(trees));
    cov.insert("kind_inconsistent_trees".into(), json!(c0.inconsistent + c1.inconsistent + c2.inconsistent));
    cov.insert("byte_strings".into(), json!(c0.strings + c1.strings + c2.strings));
    cov.insert("byte_strings_accepted".into(), json!(accepted_b));
    cov.insert("mutation_bases".into(), json!(c0.mutation_bases + c1.mutation_bases + c2.mutation_bases));
    cov.insert("mutations".into(), json!(sh.mutations.load(Ordering::Relaxed)));
    cov.insert("mutations_accepted".into(), json!(sh.accepted_c.load(Ordering::Relaxed)));
    cov.insert("ladder_payloads".into(), json!(c0.ladders + c1.ladders + c2.ladders));
    cov.insert("small_depth_limits".into(), json!(SMALL_LIMITS));
    cov.insert("tree_space".into(), json!(TreeSpace::describe(!ctx.quick())));
    let quick = ctx.quick();
    sh.sink.flush(&ctx);
    let rule = format!(
        "x3 flavours. (a) every value tree of the tree space (see coverage.tree_space); (b) every byte string of length <= 3 over the 16-symbol alphabet \
         {{5B 5C 4D 00 01 02 07 0C 20 21 22 23 80 C0 FF 83}} and the flavour prefix followed by every string of length <= {} over \
         {{00 01 02 03 07 0C 20 21 22 23 41 80 83 87 C0 FF}}; (c) every single-point mutation (substitute each position with each of {} values, delete, duplicate, \
         truncate at each length, append each value) of every (a)-encoding of <= 40 bytes; (e) every 2-byte size form on a string header, every first byte of a static manifest address; (d) every chain of 1..={} wrappers out of 7 around one leaf of every kind, the four empty containers and a byte array. \
         Every payload the decoder accepts at the default limit (and every (a)-encoding) is additionally decoded at depth limits 1,2,3,4: whenever accepted at limit L, encoding with the same L must give the input back. \
         A case is one tree or one payload. non-trivial = distinct value trees (by encoding) + distinct (b) strings accepted by decoder and reference",
        if quick { 6 } else { 7 },
        if quick { "the 12 structurally significant" } else { "all 256" },
        if quick { 4 } else { 6 }
    );
    ctx.finish(
        Level::Exploration,
        &rule,
        distinct + accepted_b,
        true,
        cov,
        &[
            "std::str::from_utf8 decides UTF-8 validity for the reference (platform, not code under test)",
            "acceptance is compared with the wire format at the flavour's default depth limit (64 / 64 / 24); at limits 1..4 only the re-encode clause is checked (which depths are acceptable is C21's clause)",
            "in-memory custom values that no payload denotes (built through public enum fields, bypassing the constructors) are outside the statement's domain; reported as informational",
            "payloads longer than 40 bytes are covered through (a) and the size-form sweep only",
        ],
    )
}

fn replay(ctx: Ctx, case: Value) -> ! {
    let fl = case.get("flavour").and_then(|x| x.as_str()).and_then(Fl::from_name).unwrap_or_else(|| mc_core::machinery_error("replay: no flavour"));
    let space = case.get("space").and_then(|x| x.as_str()).unwrap_or("b").to_string();
    let bytes = mc_core::unhex(case.get("bytes").and_then(|x| x.as_str()).unwrap_or(""));
    println!("replay C20: flavour={} space={} bytes={}", fl.name(), space, mc_core::hex(&bytes));
    let sh = Shared { sink: VioSink::new(), accepted_b: AtomicU64::new(0), accepted_c: AtomicU64::new(0), mutations: AtomicU64::new(0) };
    let mut l = Local::new();
    fn one<F: Flv>(space: &str, bytes: &[u8], l: &mut Local, sh: &Shared) {
        if space == "a" {
            match ref_parse(bytes, F::FL, F::DEFAULT_DEPTH) {
                Ok(t) => {
                    check_tree::<F>(&t, l, sh, true);
                }
                Err(e) => mc_core::machinery_error(&format!("replay: reference cannot read the tree payload: {e:?}")),
            }
        } else {
            check_payload::<F>(bytes, "replay", l, sh, true);
        }
    }
    match fl {
        Fl::Basic => one::<Basic>(&space, &bytes, &mut l, &sh),
        Fl::Scrypto => one::<Scrypto>(&space, &bytes, &mut l, &sh),
        Fl::Manifest => one::<Manifest>(&space, &bytes, &mut l, &sh),
    }
    ctx.merge(l);
    if sh.sink.is_empty() {
        println!("replay: no violation on this input");
    }
    sh.sink.flush(&ctx);
    ctx.finish(Level::Exploration, "replay of one case", 1, false, Map::new(), &[])
}
