//! C16 — database key mapping is reversible and preserves sorted-index order.
//!
//! Bounded-exhaustive enumeration of logical keys through the real `SpreadPrefixKeyMapper`:
//! round trip for every flavour, injectivity (set sizes), and the ordering law for sorted keys
//! (sorting db keys bytewise yields non-decreasing 2-byte prefixes), plus the two structural laws
//! the state tree relies on (equal-length node keys; partition numbers map 1:1).
use mc_core::{par_range, Ctx, Level, Local};
use radix_common::prelude::*;
use radix_substate_store_interface::db_key_mapper::*;
use radix_substate_store_interface::interface::*;
use serde_json::{json, Map};
use std::collections::BTreeSet;

type M = SpreadPrefixKeyMapper;

fn map_keys() -> Vec<Vec<u8>> {
    let alpha = [0x00u8, 0x01, 0x7F, 0x80, 0xFF];
    let mut out = vec![];
    let mut buf = vec![];
    for i in 0..mc_core::gen::count_upto(alpha.len() as u64, 3) {
        mc_core::gen::nth_string(&alpha, i, &mut buf);
        out.push(buf.clone());
    }
    for len in [19usize, 20, 21, 31, 32, 33, 255, 1024] {
        out.push((0..len).map(|i| (i * 7 + 3) as u8).collect());
        out.push(vec![0xFF; len]);
        out.push(vec![0x00; len]);
    }
    out
}

pub fn run(ctx: Ctx) -> ! {
    // ---- fields and partition numbers: all 256 each
    let mut l = Local::new();
    let mut field_db = BTreeSet::new();
    for f in 0..=255u8 {
        l.eval();
        let db = M::field_to_db_sort_key(&f);
        let back = M::field_from_db_sort_key(&db);
        let generic = M::from_db_sort_key::<FieldKey>(&M::to_db_sort_key(&SubstateKey::Field(f)));
        if back != f || generic != SubstateKey::Field(f) {
            l.violation("field-roundtrip", format!("field {f} -> {:?} -> {back}", db.0), json!({"field": f}));
        }
        field_db.insert(db.0);
        l.class("field-roundtrip-ok");
        let p = PartitionNumber(f);
        let dbp = M::to_db_partition_num(p);
        if M::from_db_partition_num(dbp) != p {
            l.violation("partition-num-roundtrip", format!("partition {f}"), json!({"partition": f}));
        }
        l.class("partition-num-ok");
    }
    if field_db.len() != 256 {
        l.violation("field-injective", format!("{} distinct db keys for 256 fields", field_db.len()), json!({}));
    }

    // ---- node ids: every possible first byte × 4 bodies, × 3 partitions through partition keys
    let bodies: [[u8; 29]; 4] = [[0u8; 29], [0xFF; 29], core::array::from_fn(|i| i as u8), core::array::from_fn(|i| (255 - i) as u8)];
    let mut node_db = BTreeSet::new();
    let mut node_lens = BTreeSet::new();
    let mut n_nodes = 0;
    for first in 0..=255u8 {
        for b in &bodies {
            let mut raw = [0u8; 30];
            raw[0] = first;
            raw[1..].copy_from_slice(b);
            let node = NodeId(raw);
            n_nodes += 1;
            l.eval();
            let db = M::to_db_node_key(&node);
            node_lens.insert(db.len());
            if M::from_db_node_key(&db) != node {
                l.violation("node-roundtrip", format!("node {}", mc_core::hex(&raw)), json!({"node": mc_core::hex(&raw)}));
            }
            for pn in [0u8, 1, 64, 255] {
                let pk = M::to_db_partition_key(&node, PartitionNumber(pn));
                let (n2, p2) = M::from_db_partition_key(&pk);
                if n2 != node || p2 != PartitionNumber(pn) {
                    l.violation("partition-key-roundtrip", format!("node {} partition {pn}", mc_core::hex(&raw)), json!({"node": mc_core::hex(&raw), "partition": pn}));
                }
            }
            node_db.insert(db);
            l.class("node-roundtrip-ok");
        }
    }
    if node_db.len() != n_nodes {
        l.violation("node-injective", format!("{} distinct db node keys for {} nodes", node_db.len(), n_nodes), json!({}));
    }
    if node_lens.len() != 1 {
        l.violation("node-key-equal-length", format!("db node key lengths {:?}", node_lens), json!({}));
    }

    // ---- map keys
    let mkeys = map_keys();
    let mut map_db: BTreeSet<Vec<u8>> = BTreeSet::new();
    for k in &mkeys {
        l.eval();
        let db = M::map_to_db_sort_key(k);
        let back = M::map_from_db_sort_key(&db);
        let generic = M::from_db_sort_key::<MapKey>(&M::to_db_sort_key(&SubstateKey::Map(k.clone())));
        if &back != k || generic != SubstateKey::Map(k.clone()) {
            l.violation("map-roundtrip", format!("map key {}", mc_core::hex(k)), json!({"map_key": mc_core::hex(k)}));
        }
        map_db.insert(db.0);
        l.class("map-roundtrip-ok");
    }
    let distinct_mkeys: BTreeSet<&Vec<u8>> = mkeys.iter().collect();
    if map_db.len() != distinct_mkeys.len() {
        l.violation("map-injective", format!("{} db keys for {} map keys", map_db.len(), distinct_mkeys.len()), json!({}));
    }
    // prefix-freeness within a partition (needed by the tree tiers): no db key is a strict prefix of another
    {
        let v: Vec<&Vec<u8>> = map_db.iter().collect();
        for w in v.windows(2) {
            if w[1].len() > w[0].len() && w[1].starts_with(w[0]) && !w[0].is_empty() {
                // sorted order puts a prefix right before one of its extensions
                l.info("map-db-key-is-prefix-of-another");
            }
        }
    }
    l.sample(|| json!({"map_key": mc_core::hex(&mkeys[7]), "db_sort_key": mc_core::hex(&M::map_to_db_sort_key(&mkeys[7]).0)}));
    ctx.merge(l);

    // ---- sorted keys: all 65 536 prefixes × 6 map keys, in parallel blocks of prefixes
    let skeys: Vec<Vec<u8>> = vec![vec![], vec![0], vec![0xFF], vec![0, 0], vec![0xFF, 0xFF, 0xFF], (0..40u8).collect()];
    let all: std::sync::Mutex<Vec<(Vec<u8>, [u8; 2], u8)>> = std::sync::Mutex::new(Vec::with_capacity(65536 * skeys.len()));
    par_range(&ctx, 65536, 1024, |p, l| {
        let prefix = (p as u16).to_be_bytes();
        let mut mine = vec![];
        for (ki, k) in skeys.iter().enumerate() {
            l.eval();
            let sk: SortedKey = (prefix, k.clone());
            let db = M::sorted_to_db_sort_key(&sk);
            let back = M::sorted_from_db_sort_key(&db);
            let generic = M::from_db_sort_key::<SortedKey>(&M::to_db_sort_key(&SubstateKey::Sorted(sk.clone())));
            if back != sk || generic != SubstateKey::Sorted(sk.clone()) {
                l.violation("sorted-roundtrip", format!("sorted key ({:?},{})", prefix, mc_core::hex(k)), json!({"prefix": p, "key": mc_core::hex(k)}));
            }
            l.class("sorted-roundtrip-ok");
            if p % 9973 == 0 && ki == 1 {
                l.sample(|| json!({"sorted_prefix": p, "key": mc_core::hex(k), "db_sort_key": mc_core::hex(&db.0)}));
            }
            mine.push((db.0, prefix, ki as u8));
        }
        all.lock().unwrap().extend(mine);
    });
    let mut all = all.into_inner().unwrap();
    let n_sorted = all.len();
    all.sort();
    let mut l = Local::new();
    let mut dup = 0;
    let mut order_bad = None;
    for w in all.windows(2) {
        if w[0].0 == w[1].0 {
            dup += 1;
        }
        if w[0].1 > w[1].1 && order_bad.is_none() {
            order_bad = Some((w[0].clone(), w[1].clone()));
        }
    }
    if dup > 0 {
        l.violation("sorted-injective", format!("{dup} duplicate db keys among {n_sorted} distinct sorted keys"), json!({}));
    }
    if let Some((a, b)) = order_bad {
        l.violation(
            "sorted-order",
            format!("db order puts prefix {:?} (db {}) before prefix {:?} (db {})", a.1, mc_core::hex(&a.0), b.1, mc_core::hex(&b.0)),
            json!({"first": {"prefix": a.1, "key_index": a.2}, "second": {"prefix": b.1, "key_index": b.2}}),
        );
    } else {
        l.class("sorted-order-ok");
    }
    ctx.merge(l);

    let nontrivial = (256 + 256 + n_nodes + distinct_mkeys.len() + n_sorted) as u64;
    let mut cov = Map::new();
    cov.insert("fields".into(), json!(256));
    cov.insert("partition_numbers".into(), json!(256));
    cov.insert("node_ids".into(), json!(n_nodes));
    cov.insert("map_keys".into(), json!(distinct_mkeys.len()));
    cov.insert("sorted_keys".into(), json!(n_sorted));
    ctx.finish(
        Level::Exploration,
        "every field key (256), partition number (256), node id first-byte x 4 bodies, map key (all strings <=3 over {00,01,7F,80,FF} + long patterns), sorted key (all 65536 prefixes x 6 keys); a case is one distinct logical key; non-trivial = distinct logical keys mapped (all are)",
        nontrivial,
        true,
        cov,
        &["blake2b hash prefix is a function of the key bytes (injectivity comes from the plain suffix)"],
    )
}
