//! mc-sbor: codec / key-mapping / identifier checks (C16 C20 C21 C28 C48).
use mc_core::Ctx;

mod c16;

fn main() {
    let ctx = Ctx::from_args();
    match ctx.id.as_str() {
        "C16" => c16::run(ctx),
        other => mc_core::machinery_error(&format!("mc-sbor does not serve {other}")),
    }
}
