//! mc-sbor: serves C16 C20 C21 (one module per property).
use mc_core::Ctx;

mod alloc_guard;
mod c16;
mod c20;
mod c21;
mod flavour;
mod refsbor;
mod sink;
mod spaces;

/// Counting allocator (pass-through outside a guard scope); used by C21's over-allocation clause.
#[global_allocator]
static GLOBAL: alloc_guard::Counting = alloc_guard::Counting;

fn main() {
    let ctx = Ctx::from_args();
    match ctx.id.as_str() {
        "C16" => c16::run(ctx),
        "C20" => c20::run(ctx),
        "C21" => c21::run(ctx),
        other => mc_core::machinery_error(&format!("mc-sbor does not serve {other}")),
    }
}
