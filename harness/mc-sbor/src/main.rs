//! mc-sbor: serves C16 C20 C21 (one module per property).
use mc_core::Ctx;

mod c16;
mod c20;
mod c21;

fn main() {
    let ctx = Ctx::from_args();
    match ctx.id.as_str() {
        "C16" => c16::run(ctx),
        "C20" => c20::run(ctx),
        "C21" => c21::run(ctx),
        other => mc_core::machinery_error(&format!("mc-sbor does not serve {other}")),
    }
}
