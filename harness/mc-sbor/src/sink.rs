//! Violation sink that keeps, per violation key, the *smallest* failing input (by length, then bytewise)
//! and an exact count — independent of thread scheduling, so the same tree gives the same replay case.
use mc_core::Ctx;
use serde_json::Value;
use std::collections::BTreeMap;
use std::sync::atomic::{AtomicU64, Ordering};
use std::sync::RwLock;

struct Best {
    input: Vec<u8>,
    tag: u64,
    what: String,
    case: Value,
    count: AtomicU64,
}

#[derive(Default)]
pub struct VioSink {
    m: RwLock<BTreeMap<String, Best>>,
}

impl VioSink {
    pub fn new() -> Self {
        Self::default()
    }

    /// `input` orders the candidates (shorter first, then bytewise, then by `tag` = flavour / limit …); `mk` builds (what, case) only when needed.
    pub fn record(&self, key: &str, input: &[u8], tag: u64, mk: impl FnOnce() -> (String, Value)) {
        let mut counted = false;
        {
            let g = self.m.read().unwrap();
            if let Some(b) = g.get(key) {
                b.count.fetch_add(1, Ordering::Relaxed);
                counted = true;
                if (b.input.len(), b.input.as_slice(), b.tag) <= (input.len(), input, tag) {
                    return;
                }
            }
        }
        let mut g = self.m.write().unwrap();
        match g.get_mut(key) {
            Some(b) => {
                if !counted {
                    b.count.fetch_add(1, Ordering::Relaxed);
                }
                if (input.len(), input, tag) < (b.input.len(), b.input.as_slice(), b.tag) {
                    let (what, case) = mk();
                    b.input = input.to_vec();
                    b.tag = tag;
                    b.what = what;
                    b.case = case;
                }
            }
            None => {
                let (what, case) = mk();
                g.insert(key.to_string(), Best { input: input.to_vec(), tag, what, case, count: AtomicU64::new(1) });
            }
        }
    }

    pub fn is_empty(&self) -> bool {
        self.m.read().unwrap().is_empty()
    }

    /// Hand everything to the context (in key order).
    pub fn flush(self, ctx: &Ctx) {
        let m = self.m.into_inner().unwrap();
        for (key, b) in m {
            let n = b.count.load(Ordering::Relaxed);
            ctx.violation(key, format!("{} [{} case(s) in this class; smallest shown]", b.what, n), b.case);
        }
    }
}
