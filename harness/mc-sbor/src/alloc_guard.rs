//! Counting global allocator with a thread-local "guard scope" (used by C21's over-allocation clause).
//!
//! Inside a scope every allocation request of the current thread is recorded (largest single request,
//! sum of requests). Outside a scope the allocator is a plain pass-through to the system allocator plus
//! one thread-local flag read. The thread locals are `const`-initialised `Cell`s without destructors,
//! so touching them from inside the allocator never allocates.
//!
//! If the system allocator fails *inside* a scope (a decoder asked for more memory than the machine
//! has), the process would abort; instead the registered emergency hook is called so that the input
//! that caused it is reported as a violation (exit 1) rather than as a crash of the harness.
use std::alloc::{GlobalAlloc, Layout, System};
use std::cell::Cell;
use std::sync::atomic::{AtomicUsize, Ordering};

pub struct Counting;

thread_local! {
    static ACTIVE: Cell<bool> = const { Cell::new(false) };
    static MAX_SINGLE: Cell<usize> = const { Cell::new(0) };
    static TOTAL: Cell<usize> = const { Cell::new(0) };
}

/// fn(requested_size) -> !   (0 = none)
static EMERGENCY: AtomicUsize = AtomicUsize::new(0);

pub fn set_emergency_hook(f: fn(usize) -> !) {
    EMERGENCY.store(f as usize, Ordering::SeqCst);
}

#[inline]
fn note(size: usize) {
    let _ = ACTIVE.try_with(|a| {
        if a.get() {
            let _ = MAX_SINGLE.try_with(|m| {
                if size > m.get() {
                    m.set(size)
                }
            });
            let _ = TOTAL.try_with(|t| t.set(t.get().saturating_add(size)));
        }
    });
}

#[cold]
fn failed(size: usize) {
    let active = ACTIVE.try_with(|a| a.replace(false)).unwrap_or(false);
    if active {
        let h = EMERGENCY.load(Ordering::SeqCst);
        if h != 0 {
            // SAFETY: only ever stored from a `fn(usize) -> !`
            let f: fn(usize) -> ! = unsafe { std::mem::transmute(h) };
            f(size)
        }
    }
}

unsafe impl GlobalAlloc for Counting {
    #[inline]
    unsafe fn alloc(&self, l: Layout) -> *mut u8 {
        note(l.size());
        let p = System.alloc(l);
        if p.is_null() {
            failed(l.size());
        }
        p
    }
    #[inline]
    unsafe fn alloc_zeroed(&self, l: Layout) -> *mut u8 {
        note(l.size());
        let p = System.alloc_zeroed(l);
        if p.is_null() {
            failed(l.size());
        }
        p
    }
    #[inline]
    unsafe fn dealloc(&self, p: *mut u8, l: Layout) {
        System.dealloc(p, l)
    }
    #[inline]
    unsafe fn realloc(&self, p: *mut u8, l: Layout, new_size: usize) -> *mut u8 {
        note(new_size);
        let q = System.realloc(p, l, new_size);
        if q.is_null() {
            failed(new_size);
        }
        q
    }
}

#[derive(Clone, Copy, Debug, Default)]
pub struct AllocStats {
    pub max_single: usize,
    pub total: usize,
}

/// Run `f` with allocation recording switched on for this thread (not re-entrant).
#[inline]
pub fn guarded<R>(f: impl FnOnce() -> R) -> (R, AllocStats) {
    MAX_SINGLE.with(|m| m.set(0));
    TOTAL.with(|t| t.set(0));
    ACTIVE.with(|a| a.set(true));
    let r = f();
    ACTIVE.with(|a| a.set(false));
    (r, AllocStats { max_single: MAX_SINGLE.with(|m| m.get()), total: TOTAL.with(|t| t.get()) })
}

/// Switch recording off (used when a guarded closure unwound).
pub fn disarm() {
    ACTIVE.with(|a| a.set(false));
}

pub const MAX_SINGLE_ALLOWED: usize = 16 << 20;
pub const MAX_TOTAL_ALLOWED: usize = 256 << 20;
