//! C21 — SBOR decoding is total, bounded and depth-consistent.
//!
//! Three real consumers — the value decoder (`VecDecoder::decode_payload::<Value>`), the streaming
//! traverser (`VecTraverser` run to `End` / `DecodeError`, events re-assembled into a value) and, for
//! well-formed payloads, the encoder (`VecEncoder` on the decoded value) — are run on every enumerated
//! payload at every enumerated depth limit, under `catch_unwind` and inside an allocation-recording scope,
//! and compared with each other and with the independent reference reader of `refsbor`:
//!   * malformed payload  => decoder and traverser reject it at every limit;
//!   * well-formed payload of depth d => all three accept at limits >= d, all three reject *for depth* at limits < d;
//!   * accepted values spell the reference tree, the traverser's events spell the decoder's value, re-encoding is identical;
//!   * no panic, no allocation request > 16 MiB (sum <= 256 MiB), the event stream ends.
//! Spaces (x 3 flavours): (b) byte strings over the structural alphabets, (c) single-point mutations of tree
//! encodings, (d) depth ladders (wrapper chains around every leaf kind) at limits 0..=7 and 256.
use crate::alloc_guard::{self, AllocStats};
use crate::flavour::*;
use crate::refsbor::*;
use crate::sink::VioSink;
use crate::spaces::*;
use mc_core::{gen, par_range, Ctx, Level, Local};
use sbor::{DecodeError, EncodeError};
use serde_json::{json, Map, Value};
use std::cell::Cell;
use std::sync::atomic::{AtomicU64, Ordering};

const GENEROUS: usize = 256;
const LIMITS_WELLFORMED: [usize; 6] = [GENEROUS, 0, 1, 2, 3, 4];
const LIMITS_MALFORMED: [usize; 4] = [GENEROUS, 0, 1, 2];
const LIMITS_LADDER: [usize; 9] = [GENEROUS, 0, 1, 2, 3, 4, 5, 6, 7];

#[derive(Clone, Copy, PartialEq, Eq, Debug)]
enum Verdict {
    Accept,
    RejectDepth,
    RejectOther,
    Panic,
}

impl Verdict {
    fn word(self) -> &'static str {
        match self {
            Verdict::Accept => "accepts",
            Verdict::RejectDepth => "rejects-for-depth",
            Verdict::RejectOther => "rejects-with-other-error",
            Verdict::Panic => "panics",
        }
    }
}

struct Obs<T> {
    verdict: Verdict,
    value: Option<T>,
    alloc: AllocStats,
    detail: String,
}

// ---- the case being executed by this thread, for the allocator's emergency hook -----------------
#[derive(Clone, Copy)]
struct Cur {
    buf: [u8; 96],
    len: usize,
    fl: u8,
    limit: usize,
    who: u8,
}
thread_local! {
    static CUR: Cell<Cur> = const { Cell::new(Cur { buf: [0; 96], len: 0, fl: 0, limit: 0, who: 0 }) };
}
fn set_cur(bytes: &[u8], fl: Fl, limit: usize, who: u8) {
    let mut c = Cur { buf: [0; 96], len: bytes.len(), fl: fl_tag(fl) as u8, limit, who };
    let n = bytes.len().min(96);
    c.buf[..n].copy_from_slice(&bytes[..n]);
    CUR.with(|x| x.set(c));
}
const WHO: [&str; 3] = ["decoder", "traverser", "encoder"];
const FLS: [Fl; 3] = [Fl::Basic, Fl::Scrypto, Fl::Manifest];

/// Called by the allocator when the system allocator fails inside a guard scope: report the input as an
/// over-allocation violation instead of letting the process abort.
fn emergency(size: usize) -> ! {
    let c = CUR.with(|x| x.get());
    let root = std::env::var("VERIF_ROOT").unwrap_or_else(|_| ".".into());
    let fl = FLS[(c.fl as usize).min(2)];
    let who = WHO[(c.who as usize).min(2)];
    let key = format!("{who}:over-allocation");
    let shown = &c.buf[..c.len.min(96)];
    let path = format!("{root}/replays/C21-{who}_over-allocation.json");
    let body = json!({
        "property": "C21", "key": key,
        "what": format!("{} {who} requested {size} bytes (allocation failed) while reading a {}-byte payload at depth limit {}", fl.name(), c.len, c.limit),
        "case": {"flavour": fl.name(), "space": "emergency", "bytes": mc_core::hex(shown), "limits": [c.limit], "truncated": c.len > 96},
    });
    let _ = std::fs::create_dir_all(format!("{root}/replays"));
    let _ = std::fs::write(&path, serde_json::to_string_pretty(&body).unwrap());
    println!("VIOLATION property=C21 replay={path} key={key} :: {} {who} requested {size} bytes for payload {} at depth limit {}", fl.name(), mc_core::hex(shown), c.limit);
    std::process::exit(1)
}

fn fl_tag(fl: Fl) -> u64 {
    match fl {
        Fl::Basic => 0,
        Fl::Scrypto => 1,
        Fl::Manifest => 2,
    }
}

fn run_guarded<T>(f: impl FnOnce() -> (Verdict, Option<T>, String)) -> Obs<T> {
    match mc_core::catch(|| alloc_guard::guarded(f)) {
        Ok(((verdict, value, detail), alloc)) => Obs { verdict, value, alloc, detail },
        Err(p) => {
            alloc_guard::disarm();
            Obs { verdict: Verdict::Panic, value: None, alloc: AllocStats::default(), detail: format!("{p} at {}", mc_core::last_panic_location()) }
        }
    }
}

fn dec_verdict<V>(r: Result<V, DecodeError>) -> (Verdict, Option<V>, String) {
    match r {
        Ok(v) => (Verdict::Accept, Some(v), String::new()),
        Err(DecodeError::MaxDepthExceeded(_)) => (Verdict::RejectDepth, None, "MaxDepthExceeded".into()),
        Err(e) => (Verdict::RejectOther, None, crate::c20::decode_error_name(&e).into()),
    }
}

fn enc_verdict(r: Result<Vec<u8>, EncodeError>) -> (Verdict, Option<Vec<u8>>, String) {
    match r {
        Ok(v) => (Verdict::Accept, Some(v), String::new()),
        Err(EncodeError::MaxDepthExceeded(_)) => (Verdict::RejectDepth, None, "MaxDepthExceeded".into()),
        Err(e) => (Verdict::RejectOther, None, format!("{e:?}")),
    }
}

struct Shared {
    sink: VioSink,
    wellformed_b: AtomicU64,
    wellformed_d: AtomicU64,
    wellformed_c: AtomicU64,
    mutations: AtomicU64,
    max_single_alloc: AtomicU64,
    max_total_alloc: AtomicU64,
    max_events_per_byte_x100: AtomicU64,
}

fn case_json(fl: Fl, space: &str, bytes: &[u8], limit: usize) -> Value {
    json!({"flavour": fl.name(), "space": space, "bytes": mc_core::hex(bytes), "limits": [limit]})
}

/// One payload at the given limits. Returns Some(depth) if the payload is well formed.
fn check_payload<F: Flv>(bytes: &[u8], limits_wf: &[usize], limits_mf: &[usize], space: &'static str, l: &mut Local, sh: &Shared, verbose: bool) -> Option<usize> {
    let fl = F::FL;
    let rp = ref_parse_unlimited(bytes, fl);
    if verbose {
        println!("  reference: {:?}", rp.as_ref().map(|(t, d)| format!("depth {d}: {t:?}")));
    }
    // a real value for the encoder: decoded at the generous limit (first in every limit list)
    let mut big: Option<F::V> = None;
    let limits = if rp.is_ok() { limits_wf } else { limits_mf };
    for &limit in limits {
        l.eval();
        let tag = fl_tag(fl) * 1000 + limit as u64;
        let rec = |key: &str, what: String| sh.sink.record(key, bytes, tag, || (what, case_json(fl, space, bytes, limit)));

        set_cur(bytes, fl, limit, 0);
        let dec = run_guarded(|| dec_verdict(F::decode(bytes, limit)));
        set_cur(bytes, fl, limit, 1);
        let mut anomaly = None;
        let mut events = 0usize;
        let trav = run_guarded(|| {
            let out = F::traverse(bytes, limit);
            events = out.events;
            anomaly = out.anomaly;
            dec_verdict(out.result)
        });
        if limit == GENEROUS && rp.is_ok() {
            big = dec.value.clone();
        }
        let enc = match (&rp, &big) {
            (Ok(_), Some(v)) => {
                set_cur(bytes, fl, limit, 2);
                Some(run_guarded(|| enc_verdict(F::encode(v, limit))))
            }
            _ => None,
        };
        if verbose {
            println!("  limit {limit}: decoder {} {} | traverser {} {} ({events} events) | encoder {}", dec.verdict.word(), dec.detail, trav.verdict.word(), trav.detail, enc.as_ref().map(|e| format!("{} {}", e.verdict.word(), e.detail)).unwrap_or("n/a".into()));
        }

        // ---- totality and boundedness
        sh.max_events_per_byte_x100.fetch_max((events as u64 * 100) / (bytes.len().max(1) as u64), Ordering::Relaxed);
        if let Some(a) = anomaly {
            rec("traverser:malformed-event-stream", format!("{} traverser at limit {limit} on {}: {a}", fl.name(), mc_core::hex(bytes)));
        }
        let allocs: [(&str, Option<AllocStats>, Verdict, &str); 3] = [
            ("decoder", Some(dec.alloc), dec.verdict, &dec.detail),
            ("traverser", Some(trav.alloc), trav.verdict, &trav.detail),
            ("encoder", enc.as_ref().map(|e| e.alloc), enc.as_ref().map(|e| e.verdict).unwrap_or(Verdict::Accept), enc.as_ref().map(|e| e.detail.as_str()).unwrap_or("")),
        ];
        for (who, a, verdict, detail) in allocs {
            if verdict == Verdict::Panic {
                rec(&format!("{who}:panics"), format!("{} {who} panics at depth limit {limit} on {} ({}-byte payload): {detail}", fl.name(), mc_core::hex(bytes), bytes.len()));
            }
            if let Some(a) = a {
                sh.max_single_alloc.fetch_max(a.max_single as u64, Ordering::Relaxed);
                sh.max_total_alloc.fetch_max(a.total as u64, Ordering::Relaxed);
                if a.max_single > alloc_guard::MAX_SINGLE_ALLOWED || a.total > alloc_guard::MAX_TOTAL_ALLOWED {
                    rec(
                        &format!("{who}:over-allocation"),
                        format!("{} {who} at depth limit {limit} on the {}-byte payload {}: largest single request {} bytes, sum of requests {} bytes", fl.name(), bytes.len(), mc_core::hex(bytes), a.max_single, a.total),
                    );
                }
            }
        }

        // ---- agreement
        match &rp {
            Err(reason) => {
                for (who, v) in [("decoder", dec.verdict), ("traverser", trav.verdict)] {
                    if v == Verdict::Accept {
                        rec(&format!("{who}:accepts-malformed:{}", reason.label()), format!("{} {who} at depth limit {limit} accepts {}; the wire format rejects it ({})", fl.name(), mc_core::hex(bytes), reason.label()));
                    }
                }
                if dec.verdict != Verdict::Panic && trav.verdict != Verdict::Panic && dec.verdict != Verdict::Accept && trav.verdict != Verdict::Accept {
                    l.class(malformed_class(*reason));
                    if dec.verdict != trav.verdict {
                        l.info("malformed payload: decoder and traverser both reject but one names depth, the other another defect (order of checks; outside the statement)");
                    }
                }
            }
            Ok((tree, d)) => {
                let expected = if *d <= limit { Verdict::Accept } else { Verdict::RejectDepth };
                let situation = if *d <= limit { "within-limit" } else { "deeper-than-limit" };
                let ev = enc.as_ref().map(|e| e.verdict);
                let known_o5 = limit == 0 && *d == 1 && dec.verdict == Verdict::RejectDepth && trav.verdict == Verdict::Accept && ev.map(|v| v == Verdict::RejectDepth).unwrap_or(true);
                if known_o5 {
                    sh.sink.record("max_depth=0:root-without-children", bytes, tag, || {
                        (
                            format!("at depth limit 0 the {} value decoder and encoder reject the childless root value {} for depth, the traverser accepts it", fl.name(), mc_core::hex(bytes)),
                            case_json(fl, space, bytes, limit),
                        )
                    });
                    l.class("wellformed:limit-0-childless-root(decoder+encoder reject, traverser accepts)");
                } else {
                    let mut all_ok = true;
                    let parties: [(&str, Option<Verdict>); 3] = [("decoder", Some(dec.verdict)), ("traverser", Some(trav.verdict)), ("encoder", ev)];
                    for (who, v) in parties {
                        let Some(v) = v else {
                            if who == "encoder" && dec.verdict != Verdict::Panic {
                                // no value to encode: the generous decode failed, which is itself reported at the generous limit
                            }
                            continue;
                        };
                        if v != expected && v != Verdict::Panic {
                            all_ok = false;
                            rec(
                                &format!("{who}:{}:{situation}", v.word()),
                                format!(
                                    "{} {who} {} the well-formed payload {} (value depth {d}) at depth limit {limit}; decoder {}, traverser {}, encoder {}",
                                    fl.name(),
                                    v.word(),
                                    mc_core::hex(bytes),
                                    dec.verdict.word(),
                                    trav.verdict.word(),
                                    ev.map(|x| x.word()).unwrap_or("n/a")
                                ),
                            );
                        }
                        if v == Verdict::Panic {
                            all_ok = false;
                        }
                    }
                    if all_ok {
                        l.class(if expected == Verdict::Accept { "wellformed:accepted-by-all" } else { "wellformed:depth-rejected-by-all" });
                    }
                }
                // accepted values spell the same tree
                if let Some(v) = &dec.value {
                    if !F::matches_ref(v, tree) {
                        rec("decoder:value-differs-from-wire-format", format!("{} payload {} decodes to {v:?}, the wire format says {tree:?}", fl.name(), mc_core::hex(bytes)));
                    }
                }
                if let Some(tv) = &trav.value {
                    if !F::matches_ref(tv, tree) {
                        rec("traverser:events-spell-another-tree", format!("{} traverser events on {} spell {tv:?}, the wire format says {tree:?}", fl.name(), mc_core::hex(bytes)));
                    }
                    if let Some(v) = &dec.value {
                        if v != tv {
                            rec("traverser:events-differ-from-decoded-value", format!("{} traverser events on {} spell {tv:?}, the decoder returns {v:?}", fl.name(), mc_core::hex(bytes)));
                        }
                    }
                }
                if let Some(e) = &enc {
                    if let Some(out) = &e.value {
                        if out != bytes {
                            rec("encoder:reencoding-differs", format!("{} payload {} re-encodes to {} at depth limit {limit}", fl.name(), mc_core::hex(bytes), mc_core::hex(out)));
                        }
                    }
                }
                if limit == GENEROUS {
                    l.sample(|| json!({"space": space, "flavour": fl.name(), "bytes": mc_core::hex(&bytes[..bytes.len().min(48)]), "value_depth": d, "outcome": "all three consumers agree with the reference at every limit tried"}));
                }
            }
        }
    }
    rp.ok().map(|(_, d)| d)
}

fn malformed_class(e: RefErr) -> &'static str {
    match e {
        RefErr::Depth => "malformed:rejected-by-both:depth",
        RefErr::Empty => "malformed:rejected-by-both:empty",
        RefErr::BadPrefix => "malformed:rejected-by-both:bad-prefix",
        RefErr::UnknownKind => "malformed:rejected-by-both:unknown-kind",
        RefErr::Underflow => "malformed:rejected-by-both:underflow",
        RefErr::SizeNonCanonical => "malformed:rejected-by-both:size-non-canonical",
        RefErr::SizeTooLong => "malformed:rejected-by-both:size-too-long",
        RefErr::BadBool => "malformed:rejected-by-both:bad-bool",
        RefErr::BadUtf8 => "malformed:rejected-by-both:bad-utf8",
        RefErr::BadCustom => "malformed:rejected-by-both:bad-custom",
        RefErr::TrailingBytes => "malformed:rejected-by-both:trailing-bytes",
    }
}

struct Counts {
    strings: u64,
    bases: u64,
    ladders: u64,
}

fn run_flavour<F: Flv>(ctx: &Ctx, sh: &Shared, cov: &mut Map<String, Value>) -> Counts {
    let fl = F::FL;
    let t0 = ctx.elapsed_s();

    // ---- (b) byte strings
    let lb = ctx.pick(5u32, 6u32);
    let n_full = gen::count_upto(16, 3);
    let n_body = gen::count_upto(16, lb);
    par_range(ctx, n_full, 256, |i, l| {
        let mut buf = Vec::with_capacity(8);
        gen::nth_string(&ALPHABET_FULL, i, &mut buf);
        if check_payload::<F>(&buf, &LIMITS_WELLFORMED, &LIMITS_MALFORMED, "b", l, sh, false).is_some() {
            sh.wellformed_b.fetch_add(1, Ordering::Relaxed);
        }
    });
    par_range(ctx, n_body, 4096, |i, l| {
        let mut body = Vec::with_capacity(8);
        gen::nth_string(&ALPHABET_BODY, i, &mut body);
        let mut buf = Vec::with_capacity(9);
        buf.push(fl.prefix());
        buf.extend_from_slice(&body);
        if check_payload::<F>(&buf, &LIMITS_WELLFORMED, &LIMITS_MALFORMED, "b", l, sh, false).is_some() {
            sh.wellformed_b.fetch_add(1, Ordering::Relaxed);
        }
    });
    // huge declared sizes with no data: every container / string / byte-array header followed by FF FF FF 7F and by nothing
    let mut huge = 0u64;
    {
        let mut l = Local::new();
        let mut heads: Vec<Vec<u8>> = vec![vec![K_TUPLE], vec![K_ENUM, 0], vec![K_STRING], vec![K_MAP, K_U8, K_U8], vec![K_MAP, K_TUPLE, K_TUPLE]];
        for k in fl.all_kinds() {
            heads.push(vec![K_ARRAY, k]);
        }
        for k in fl.custom_kinds() {
            heads.push(vec![*k, 0]);
            heads.push(vec![*k, 2]);
        }
        for h in &heads {
            for size in [&[0xffu8, 0xff, 0xff, 0x7f][..], &[0xff, 0xff, 0x7f], &[0xff, 0x7f], &[0x80, 0x80, 0x80, 0x01], &[0xff, 0xff, 0xff, 0xff, 0x0f]] {
                for tail in [&[][..], &[0x00], &[0x21, 0x00]] {
                    let mut buf = vec![fl.prefix()];
                    buf.extend_from_slice(h);
                    buf.extend_from_slice(size);
                    buf.extend_from_slice(tail);
                    // also nested one level down, where the pre-allocation happens inside a child
                    let mut nested = vec![fl.prefix(), K_TUPLE, 1];
                    nested.extend_from_slice(&buf[1..]);
                    check_payload::<F>(&buf, &LIMITS_WELLFORMED, &LIMITS_MALFORMED, "b-huge-sizes", &mut l, sh, false);
                    check_payload::<F>(&nested, &LIMITS_WELLFORMED, &LIMITS_MALFORMED, "b-huge-sizes", &mut l, sh, false);
                    huge += 2;
                }
            }
        }
        ctx.merge(l);
    }
    let t_b = ctx.elapsed_s();

    // ---- (c) single-point mutations of tree encodings
    let space = tree_space(fl, !ctx.quick());
    let alphabet: &[u8] = if ctx.quick() { &MUT_ALPHABET_QUICK } else { &gen::ALL_BYTES };
    // quick: bases = S1 and S3 (depth 1 and depth 3), 12 structural values; thorough: S1 and S2 with all 256 values, S3 (wide core) with the 12 structural values
    let n = space.len() as u64;
    let s1 = space.s1.len();
    let s12 = space.s1.len() + space.s2.len();
    let quick = ctx.quick();
    let bases = AtomicU64::new(0);
    par_range(ctx, n, 16, |i, l| {
        let i = i as usize;
        if quick && i >= s1 && i < s12 {
            return;
        }
        let enc = ref_encode(space.get(i), fl);
        if enc.len() > 40 {
            l.info("encoding longer than 40 bytes: not mutated");
            return;
        }
        bases.fetch_add(1, Ordering::Relaxed);
        let alpha: &[u8] = if i < s12 { alphabet } else { &MUT_ALPHABET_QUICK };
        let mut muts = 0u64;
        let mut wf = 0u64;
        // the unmutated encoding itself
        check_payload::<F>(&enc, &LIMITS_WELLFORMED, &LIMITS_MALFORMED, "c-base", l, sh, false);
        gen::mutations(&enc, alpha, |m| {
            muts += 1;
            if check_payload::<F>(m, &LIMITS_WELLFORMED, &LIMITS_MALFORMED, "c", l, sh, false).is_some() {
                wf += 1;
            }
        });
        sh.mutations.fetch_add(muts, Ordering::Relaxed);
        sh.wellformed_c.fetch_add(wf, Ordering::Relaxed);
    });
    let tree_counts = (space.s1.len(), space.s2.len(), space.s3.len());
    drop(space);
    let t_c = ctx.elapsed_s();

    // ---- (d) depth ladders
    let max_chain = ctx.pick(5usize, 6usize);
    let leaves = ladder_leaves(fl);
    let chains = chain_count(max_chain);
    let n_ladders = chains * leaves.len() as u64;
    par_range(ctx, n_ladders, 64, |i, l| {
        let leaf = &leaves[(i % leaves.len() as u64) as usize];
        let mut chain = Vec::with_capacity(8);
        nth_chain(i / leaves.len() as u64, &mut chain);
        let tree = build_ladder(&chain, leaf);
        let bytes = ref_encode(&tree, fl);
        match check_payload::<F>(&bytes, &LIMITS_LADDER, &LIMITS_LADDER, "d", l, sh, false) {
            Some(d) if d == chain.len() + leaf.depth() => {
                sh.wellformed_d.fetch_add(1, Ordering::Relaxed);
            }
            other => mc_core::machinery_error(&format!("reference disagrees with itself on ladder {chain:?} around {leaf:?}: {other:?}")),
        }
    });
    let t_d = ctx.elapsed_s();

    cov.insert(
        format!("space_{}", fl.name()),
        json!({
            "byte_strings": n_full + n_body,
            "huge_size_payloads": huge,
            "tree_space(S1,S2,S3)": [tree_counts.0, tree_counts.1, tree_counts.2],
            "mutation_bases(<=40 bytes)": bases.load(Ordering::Relaxed),
            "ladder_chains(length 1..=max)": chains,
            "ladder_max_chain": max_chain,
            "ladder_leaves": leaves.len(),
            "ladder_payloads": n_ladders,
            "seconds(b, c, d)": [t_b - t0, t_c - t_b, t_d - t_c],
        }),
    );
    Counts { strings: n_full + n_body + huge, bases: bases.load(Ordering::Relaxed), ladders: n_ladders }
}

fn new_shared() -> Shared {
    Shared {
        sink: VioSink::new(),
        wellformed_b: AtomicU64::new(0),
        wellformed_c: AtomicU64::new(0),
        wellformed_d: AtomicU64::new(0),
        mutations: AtomicU64::new(0),
        max_single_alloc: AtomicU64::new(0),
        max_total_alloc: AtomicU64::new(0),
        max_events_per_byte_x100: AtomicU64::new(0),
    }
}

pub fn run(ctx: Ctx) -> ! {
    alloc_guard::set_emergency_hook(emergency);
    if let Some(case) = ctx.read_replay_case() {
        replay(ctx, case);
    }
    let sh = new_shared();
    let mut cov = Map::new();
    let c0 = run_flavour::<Basic>(&ctx, &sh, &mut cov);
    let c1 = run_flavour::<Scrypto>(&ctx, &sh, &mut cov);
    let c2 = run_flavour::<Manifest>(&ctx, &sh, &mut cov);

    let wf_b = sh.wellformed_b.load(Ordering::Relaxed);
    let wf_d = sh.wellformed_d.load(Ordering::Relaxed);
    cov.insert("byte_strings".into(), json!(c0.strings + c1.strings + c2.strings));
    cov.insert("byte_strings_wellformed".into(), json!(wf_b));
    cov.insert("mutation_bases".into(), json!(c0.bases + c1.bases + c2.bases));
    cov.insert("mutations".into(), json!(sh.mutations.load(Ordering::Relaxed)));
    cov.insert("mutations_wellformed".into(), json!(sh.wellformed_c.load(Ordering::Relaxed)));
    cov.insert("ladder_payloads".into(), json!(c0.ladders + c1.ladders + c2.ladders));
    cov.insert("depth_limits_wellformed".into(), json!(LIMITS_WELLFORMED));
    cov.insert("depth_limits_malformed".into(), json!(LIMITS_MALFORMED));
    cov.insert("depth_limits_ladders".into(), json!(LIMITS_LADDER));
    cov.insert("largest_single_allocation_request_bytes".into(), json!(sh.max_single_alloc.load(Ordering::Relaxed)));
    cov.insert("largest_sum_of_allocation_requests_bytes".into(), json!(sh.max_total_alloc.load(Ordering::Relaxed)));
    cov.insert("max_traverser_events_per_input_byte".into(), json!(sh.max_events_per_byte_x100.load(Ordering::Relaxed) as f64 / 100.0));
    cov.insert("ladder_wrappers".into(), json!(WRAPPER_NAMES));
    let quick = ctx.quick();
    sh.sink.flush(&ctx);
    let rule = format!(
        "x3 flavours; every payload is given to the real decoder, traverser and (if well formed) encoder at each listed depth limit (an evaluation = one payload at one limit). \
         (b) every byte string of length <= 3 over {{5B 5C 4D 00 01 02 07 0C 20 21 22 23 80 C0 FF 83}}, the flavour prefix + every string of length <= {} over \
         {{00 01 02 03 07 0C 20 21 22 23 41 80 83 87 C0 FF}}, and every container/string/custom header followed by 5 huge size forms x 3 tails (plain and nested in a tuple); \
         (c) every single-point mutation of the tree encodings <= 40 bytes ({}); \
         (d) every chain of 1..={} wrappers out of 7 around one leaf of every kind, the four empty containers and a byte array, at limits 0..=7 and 256. \
         non-trivial = distinct well-formed (b) strings + distinct ladder payloads (each checked at all its limits)",
        if quick { 5 } else { 6 },
        if quick { "bases S1 and S3(narrow core), 12 structural byte values" } else { "bases S1 and S2 with all 256 byte values, S3(wide core) with the 12 structural byte values" },
        if quick { 5 } else { 6 },
    );
    ctx.finish(
        Level::Exploration,
        &rule,
        wf_b + wf_d,
        true,
        cov,
        &[
            "a payload is a 'value' for the depth clause iff the reference reader finds it well formed; its depth counts a leaf or an empty container as 1",
            "for malformed payloads only accept / reject is compared between decoder and traverser (which defect is named first is outside the statement; counted as informational)",
            "over-allocation = one allocation request > 16 MiB or requests summing to > 256 MiB during one consumer call, measured by the harness' counting global allocator",
            "the encoder is exercised on the value the real decoder returns at depth limit 256",
            "RawValue / typed codecs are not among the three parties and are not exercised here",
        ],
    )
}

fn replay(ctx: Ctx, case: Value) -> ! {
    let fl = case.get("flavour").and_then(|x| x.as_str()).and_then(Fl::from_name).unwrap_or_else(|| mc_core::machinery_error("replay: no flavour"));
    let bytes = mc_core::unhex(case.get("bytes").and_then(|x| x.as_str()).unwrap_or(""));
    let mut limits: Vec<usize> = vec![GENEROUS];
    if let Some(a) = case.get("limits").and_then(|x| x.as_array()) {
        for x in a {
            if let Some(n) = x.as_u64() {
                if n as usize != GENEROUS {
                    limits.push(n as usize);
                }
            }
        }
    }
    println!("replay C21: flavour={} bytes={} limits={limits:?}", fl.name(), mc_core::hex(&bytes));
    let sh = new_shared();
    let mut l = Local::new();
    match fl {
        Fl::Basic => check_payload::<Basic>(&bytes, &limits, &limits, "replay", &mut l, &sh, true),
        Fl::Scrypto => check_payload::<Scrypto>(&bytes, &limits, &limits, "replay", &mut l, &sh, true),
        Fl::Manifest => check_payload::<Manifest>(&bytes, &limits, &limits, "replay", &mut l, &sh, true),
    };
    ctx.merge(l);
    if sh.sink.is_empty() {
        println!("replay: no violation on this input");
    }
    sh.sink.flush(&ctx);
    ctx.finish(Level::Exploration, "replay of one case", 1, false, Map::new(), &[])
}
