//! mc-engine: whole-ledger explorations over the standard transaction menu (C01 C02 C03 C04 C05).
use mc_core::Ctx;

mod c05;
mod ledger_bfs;

fn main() {
    let ctx = Ctx::from_args();
    match ctx.id.as_str() {
        "C03" => ledger_bfs::run(ctx, ledger_bfs::Mode::C03),
        "C04" => ledger_bfs::run(ctx, ledger_bfs::Mode::C04),
        "C05" => c05::run(ctx),
        other => mc_core::machinery_error(&format!("mc-engine does not serve {other}")),
    }
}
