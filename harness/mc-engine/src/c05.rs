//! C05 — the stored ledger is always well-formed: independent ownership / reference scan.
use mc_core::Ctx;
use mc_ledger::*;
use radix_substate_store_interface::db_key_mapper::{DatabaseKeyMapper, SpreadPrefixKeyMapper};
use radix_substate_store_interface::interface::*;
use std::collections::{BTreeMap, BTreeSet};

/// Decode every substate of the database, build the ownership graph and check:
/// * every substate value decodes as a Scrypto SBOR value;
/// * owned nodes are internal (never global), exist in the database and have exactly one stored owner;
/// * every internal node present in the database is owned by some substate (no orphans);
/// * every reference targets a *global* node that exists in the database;
/// * every node has a type-info substate.
pub fn ownership_scan<D: SubstateDatabase + ListableSubstateDatabase>(db: &D) -> Result<(), (String, String)> {
    let mut nodes: BTreeSet<NodeId> = BTreeSet::new();
    let mut owners: BTreeMap<NodeId, Vec<NodeId>> = BTreeMap::new();
    let mut refs: BTreeSet<NodeId> = BTreeSet::new();
    for pk in db.list_partition_keys() {
        let (node, _pn) = SpreadPrefixKeyMapper::from_db_partition_key(&pk);
        nodes.insert(node);
        for (_k, v) in db.list_raw_values_from_db_key(&pk, None) {
            let val = IndexedScryptoValue::from_vec(v).map_err(|e| ("undecodable-substate".to_string(), format!("node {node:?}: {e:?}")))?;
            for o in val.owned_nodes() {
                owners.entry(*o).or_default().push(node);
            }
            for r in val.references() {
                refs.insert(*r);
            }
        }
    }
    for (child, os) in &owners {
        if child.is_global() {
            return Err(("global-node-owned".into(), format!("global node {child:?} is owned by {os:?}")));
        }
        if os.len() != 1 {
            return Err(("multiple-owners".into(), format!("node {child:?} has {} stored owners: {os:?}", os.len())));
        }
        if !nodes.contains(child) {
            return Err(("owned-node-missing".into(), format!("owned node {child:?} (owner {:?}) has no substates", os[0])));
        }
    }
    for n in &nodes {
        if !n.is_global() && !owners.contains_key(n) {
            return Err(("orphan-internal-node".into(), format!("internal node {n:?} is stored but nothing owns it")));
        }
        if db.get_raw_substate(n, TYPE_INFO_FIELD_PARTITION, SubstateKey::Field(0u8)).is_none() {
            return Err(("no-type-info".into(), format!("node {n:?} has no type-info substate")));
        }
    }
    for r in &refs {
        if !r.is_global() {
            return Err(("non-global-reference".into(), format!("stored reference to non-global node {r:?}")));
        }
        if !nodes.contains(r) {
            return Err(("dangling-reference".into(), format!("stored reference to {r:?} which has no substates")));
        }
    }
    Ok(())
}

pub fn run(ctx: Ctx) -> ! {
    crate::ledger_bfs::run(ctx, crate::ledger_bfs::Mode::C05)
}
