//! Shared explicit-state exploration of the ledger over the standard transaction menu, used by
//! C03 (transition invariant: conservation), C04 (state invariant: supply = Σ vaults) and
//! C05 (state invariant: well-formed stored ledger).
//!
//! A state is the transaction history that reaches it (replayed on the real engine from a root
//! snapshot); states are de-duplicated by a node-id independent semantic fingerprint (balances of the
//! known components, recorded supplies, epoch, freeze flag) because transaction hashes — and with
//! them the ids of new nodes and the faucet's fee balance — differ between histories that are
//! otherwise the same. Merging such states only prunes futures that differ in fee totals and ids.
use mc_core::{bfs, BfsStats, Ctx, Level, Machine};
use mc_ledger::menu::*;
use mc_ledger::*;
use radix_engine::blueprints::resource::{
    BurnFungibleResourceEvent, BurnNonFungibleResourceEvent, MintFungibleResourceEvent, MintNonFungibleResourceEvent,
};
use serde_json::json;
use std::collections::BTreeMap;

#[derive(Clone, Copy, PartialEq, Eq, Debug)]
pub enum Mode {
    C03,
    C04,
    C05,
}

pub struct LedgerMachine {
    pub root: Snap,
    pub w: World,
    pub x: Extras,
    pub mode: Mode,
    /// run the engine's full-database checkers on states up to this depth (inclusive)
    pub full_check_depth: usize,
    pub menu: Vec<Tx>,
}

pub struct St {
    pub sim: Sim,
    pub depth: usize,
    pub totals: BTreeMap<ResourceAddress, ResTotals>,
    pub fp: Vec<u8>,
}

pub fn build_root(freezable: bool) -> (Snap, World, Extras) {
    let mut sim = new_sim();
    let w = build_world_opt(&mut sim, freezable);
    let x = build_extras(&mut sim, &w, w.f18);
    (sim.create_snapshot(), w, x)
}

fn sim_from(snap: &Snap) -> Sim {
    LedgerSimulatorBuilder::new().without_kernel_trace().build_from_snapshot(snap.clone())
}

/// Δ per resource of minted − burned, from the receipt's events (amounts; ids for non-fungibles).
fn mint_burn_from_events(sim: &Sim, c: &CommitResult) -> Result<BTreeMap<ResourceAddress, (Decimal, i64)>, String> {
    let mut m: BTreeMap<ResourceAddress, (Decimal, i64)> = BTreeMap::new();
    for (id, data) in &c.application_events {
        let Emitter::Method(node, ModuleId::Main) = &id.0 else { continue };
        let Some(et) = node.entity_type() else { continue };
        if !matches!(et, EntityType::GlobalFungibleResourceManager | EntityType::GlobalNonFungibleResourceManager) {
            continue;
        }
        let ra = ResourceAddress::new_or_panic(node.0);
        let e = m.entry(ra).or_insert((Decimal::ZERO, 0));
        if sim.is_event_name_equal::<MintFungibleResourceEvent>(id) {
            let ev: MintFungibleResourceEvent = scrypto_decode(data).map_err(|e| format!("{e:?}"))?;
            e.0 = e.0.checked_add(ev.amount).ok_or("overflow")?;
        } else if sim.is_event_name_equal::<BurnFungibleResourceEvent>(id) {
            let ev: BurnFungibleResourceEvent = scrypto_decode(data).map_err(|e| format!("{e:?}"))?;
            e.0 = e.0.checked_sub(ev.amount).ok_or("overflow")?;
        } else if sim.is_event_name_equal::<MintNonFungibleResourceEvent>(id) {
            let ev: MintNonFungibleResourceEvent = scrypto_decode(data).map_err(|e| format!("{e:?}"))?;
            e.0 = e.0.checked_add(Decimal::from(ev.ids.len() as u64)).ok_or("overflow")?;
            e.1 += ev.ids.len() as i64;
        } else if sim.is_event_name_equal::<BurnNonFungibleResourceEvent>(id) {
            let ev: BurnNonFungibleResourceEvent = scrypto_decode(data).map_err(|e| format!("{e:?}"))?;
            e.0 = e.0.checked_sub(Decimal::from(ev.ids.len() as u64)).ok_or("overflow")?;
            e.1 -= ev.ids.len() as i64;
        }
    }
    Ok(m)
}

/// C03 oracle: for every resource, Δ(Σ vault balances) == minted − burned (events) and, when the supply is
/// tracked, == Δ(recorded supply). Vault sums come from an independent scan of the database before/after.
fn conservation(
    sim: &Sim,
    before: &BTreeMap<ResourceAddress, ResTotals>,
    after: &BTreeMap<ResourceAddress, ResTotals>,
    receipt: &TransactionReceipt,
) -> Result<(), (String, String)> {
    let TransactionResult::Commit(c) = &receipt.result else {
        // nothing committed: the database must be unchanged
        if before != after {
            return Err(("uncommitted-changed-db".into(), "a rejected/aborted transaction changed resource totals".into()));
        }
        return Ok(());
    };
    let ev = mint_burn_from_events(sim, c).map_err(|e| ("event-decode".to_string(), e))?;
    let zero = ResTotals::default();
    let mut all: Vec<&ResourceAddress> = before.keys().chain(after.keys()).collect();
    all.sort();
    all.dedup();
    for ra in all {
        let b = before.get(ra).unwrap_or(&zero);
        let a = after.get(ra).unwrap_or(&zero);
        let dv = a.vault_sum.checked_sub(b.vault_sum).unwrap();
        let de = ev.get(ra).map(|x| x.0).unwrap_or(Decimal::ZERO);
        if dv != de {
            return Err((
                "vaults-vs-mint-burn".into(),
                format!("resource {ra:?}: Σ vault balances changed by {dv} but minted − burned (events) = {de}"),
            ));
        }
        match (b.supply, a.supply) {
            (Some(sb), Some(sa)) => {
                let ds = sa.checked_sub(sb).unwrap();
                if ds != dv {
                    return Err(("supply-vs-vaults".into(), format!("resource {ra:?}: recorded supply changed by {ds}, vaults by {dv}")));
                }
            }
            (None, Some(sa)) => {
                if sa != a.vault_sum {
                    return Err(("new-resource-supply".into(), format!("new resource {ra:?}: supply {sa} != vaults {}", a.vault_sum)));
                }
            }
            (Some(_), None) => return Err(("supply-vanished".into(), format!("resource {ra:?}: recorded supply disappeared"))),
            (None, None) => {}
        }
        // non-fungible: number of indexed ids moves with the amount
        if ra.as_node_id().entity_type() == Some(EntityType::GlobalNonFungibleResourceManager) {
            let di = a.nf_index_count as i64 - b.nf_index_count as i64;
            let dei = ev.get(ra).map(|x| x.1).unwrap_or(0);
            if di != dei {
                return Err(("nf-ids-vs-mint-burn".into(), format!("resource {ra:?}: indexed ids changed by {di}, minted − burned ids = {dei}")));
            }
        }
    }
    Ok(())
}

impl Machine for LedgerMachine {
    type Op = Tx;
    type St = St;

    fn init(&self) -> St {
        let sim = sim_from(&self.root);
        let totals = scan_totals(sim.substate_db()).expect("root scan");
        let mut st = St { sim, depth: 0, totals, fp: vec![] };
        st.fp = self.compute_fp(&mut st);
        st
    }

    fn ops(&self, _st: &St, _depth: usize) -> Vec<Tx> {
        self.menu.clone()
    }

    fn fork(&self, st: &St) -> Option<St> {
        Some(St { sim: sim_from(&st.sim.create_snapshot()), depth: st.depth, totals: st.totals.clone(), fp: st.fp.clone() })
    }

    fn step(&self, st: &mut St, op: &Tx) -> Result<String, (String, String)> {
        let receipt = match run_tx(&mut st.sim, &self.w, &self.x, *op) {
            Ok(r) => r,
            Err(p) => return Err((format!("panic@{}", mc_core::last_panic_location()), format!("transaction {op:?} panicked: {p}"))),
        };
        st.depth += 1;
        let class = receipt_class(&receipt);
        let after = scan_totals(st.sim.substate_db()).map_err(|e| ("scan-failed".to_string(), e))?;
        match self.mode {
            Mode::C03 => conservation(&st.sim, &st.totals, &after, &receipt)?,
            Mode::C04 => {
                totals_invariant(&after).map_err(|e| ("supply-ne-vaults".to_string(), e))?;
                if st.depth <= self.full_check_depth {
                    check_database_quiet(&st.sim, true, true).map_err(|e| ("engine-checker".to_string(), e))?;
                }
            }
            Mode::C05 => {
                if st.depth <= self.full_check_depth {
                    check_database_quiet(&st.sim, false, false).map_err(|e| ("engine-checker".to_string(), e))?;
                }
                crate::c05::ownership_scan(st.sim.substate_db()).map_err(|e| (e.0, e.1))?;
            }
        }
        st.totals = after;
        st.fp = self.compute_fp(st);
        Ok(format!("{op:?}:{class}"))
    }

    fn fingerprint(&self, st: &St) -> Vec<u8> {
        st.fp.clone()
    }
}

impl LedgerMachine {
    /// Semantic fingerprint (see module doc for why merged states have the same futures).
    fn compute_fp(&self, st: &mut St) -> Vec<u8> {
        let nres = st.totals.len();
        let sim = &mut st.sim;
        // structure summary: number of stored nodes per entity type (new accounts, packages, KV stores, vaults …)
        let mut shape: BTreeMap<u8, u32> = BTreeMap::new();
        if self.mode == Mode::C05 {
            for n in all_nodes(sim.substate_db()) {
                *shape.entry(n.0[0]).or_insert(0) += 1;
            }
        }
        let comps = [self.w.a.addr, self.w.b.addr, self.x.pool, self.x.validator];
        let res = [self.w.f18, self.w.f2, self.w.nf, self.w.rc, self.x.pool_unit, self.x.stake_unit, self.x.claim_nft];
        let mut fp = balances_fp(sim, &comps, &res);
        // XRD: bucketed to whole units for the accounts (fees paid by A in the contingent txs make it vary by dust)
        for c in [self.w.a.addr, self.w.b.addr, self.x.validator] {
            let b = sim.get_component_balance(c, XRD);
            fp.extend(format!("x{};", b.checked_floor().unwrap()).into_bytes());
        }
        let epoch = sim.get_current_epoch().number();
        fp.extend(format!("e{epoch};").into_bytes());
        // freeze flag of B's rc vault, number of resources (CreateToken), A's f18 vault lock-free
        fp.extend(format!("s{shape:?};").into_bytes());
        fp.extend(format!("r{nres};").into_bytes());
        if let Some(v) = sim.get_component_vaults(self.w.b.addr, self.w.rc).first() {
            let frozen: Option<radix_engine::blueprints::resource::FungibleVaultFreezeStatusFieldPayload> = radix_engine::system::system_db_reader::SystemDatabaseReader::new(sim.substate_db())
                .read_typed_object_field(v, ModuleId::Main, radix_engine::blueprints::resource::FungibleVaultField::FreezeStatus.field_index())
                .ok();
            fp.extend(format!("f{frozen:?};").into_bytes());
        }
        fp
    }
}

pub fn run(ctx: Ctx, mode: Mode) -> ! {
    let (root, w, x) = build_root(true);
    // (depth of the main exploration, depth of the engine-checker exploration, wall cap)
    let (depth, full_depth, cap_s) = match (mode, ctx.quick()) {
        (Mode::C03, true) => (4, 0, 45.0),
        (Mode::C03, false) => (5, 0, 900.0),
        (Mode::C04, true) => (4, 2, 40.0),
        (Mode::C04, false) => (5, 3, 700.0),
        (Mode::C05, true) => (3, 2, 45.0),
        (Mode::C05, false) => (4, 3, 900.0),
    };
    let main_full = if mode == Mode::C04 { 0 } else { full_depth };
    let mut menu = STD_MENU.to_vec();
    if mode == Mode::C05 {
        // C05 explores the structure-changing menu first, then the standard one
        menu = STRUCT_MENU.iter().chain(STD_MENU.iter()).copied().collect();
    }
    let menu_names: Vec<String> = menu.iter().map(|t| format!("{t:?}")).collect();
    let m = LedgerMachine { root, w, x, mode, full_check_depth: main_full, menu };
    let mut stats: BfsStats = bfs(&ctx, &m, "world+pool+validator", depth, 2_000_000, cap_s);
    if mode == Mode::C04 && full_depth > 0 {
        // second exploration on a world without the freezable resource, where the engine's own
        // resource checkers + event reconciliation can run in every state
        let (root2, w2, x2) = build_root(false);
        let menu2: Vec<Tx> = STD_MENU.iter().copied().filter(|t| !matches!(t, Tx::FreezeB | Tx::UnfreezeB)).collect();
        let m2 = LedgerMachine { root: root2, w: w2, x: x2, mode, full_check_depth: full_depth, menu: menu2 };
        let s2 = bfs(&ctx, &m2, "world-without-freezable+engine-checkers", full_depth, 2_000_000, cap_s / 2.0);
        stats.add(&s2);
    }
    let mut cov = stats.coverage();
    cov.insert("menu".into(), json!(menu_names));
    cov.insert("engine_full_checkers_up_to_depth".into(), json!(full_depth));
    let (rule, assumptions): (&str, Vec<&str>) = match mode {
        Mode::C03 => (
            "breadth-first over all histories of menu transactions up to the depth; every transition executed on the real engine; oracle = independent before/after database scan of all vaults and supplies vs mint/burn events; a state is non-trivial when its semantic fingerprint is new",
            vec!["states with equal balances/supplies/epoch/freeze flag are merged (node ids and fee dust differ only)", "mint/burn events are compared against state, not against each other"],
        ),
        Mode::C04 => (
            "breadth-first over all histories of menu transactions; invariant evaluated in every reached state by an independent whole-database scan (recorded supply = Σ vault balances, no negative vault, NF amount = indexed ids, id held once) and, up to the stated depth, by the engine's own resource checkers + event reconciliation over the path's full event history",
            vec!["states with equal balances/supplies/epoch/freeze flag are merged"],
        ),
        Mode::C05 => (
            "breadth-first over all histories of menu transactions; in every reached state: engine kernel/system/role-assignment checkers (schema conformance of every substate) and an independent ownership scan (every internal node has exactly one stored owner, every reference targets an existing global or directly-referenceable node, every node has type info)",
            vec!["states with equal balances/supplies/epoch/freeze flag are merged"],
        ),
    };
    let exhaustive = !stats.capped;
    ctx.finish(Level::ModelChecking, rule, stats.states, exhaustive, cov, &assumptions)
}
