//! C50 — objects are encapsulated by their blueprint.
//!
//! Script exploration: for every pairing of an *actor* (a Probe function / method: own blueprint, sibling
//! blueprint of the same package, blueprint of another package, outer object, inner object, sibling inner
//! blueprint) with a *victim* node it legitimately got hold of (an object it owns, an object moved into one of
//! its key-value entries, an inner object, a bucket, a proof, an address reservation, a global component, an
//! account, its own auth zone), every sequence of ≤ L system-API operations of the alphabet (drop, globalize with
//! / without reservation, globalize with a self-allocated reservation, use of a reservation, new_object, call of
//! the victim's own method, actor state handles SELF / OUTER, type queries) is executed as one real transaction
//! (prefix-pruned: an operation that fails aborts the invocation, exactly as for real blueprints).
//!
//! Reference policy (written from the statement + the rule the engine documents at its check sites, O8):
//!   drop:       only code of the object's own blueprint, or the outer object of an inner object; proofs: any holder;
//!   create:     only blueprints of the actor's own package exist for `new_object`; an inner object only through its
//!               outer object (or its own blueprint running inside that outer object);
//!   globalize:  only code of the package that defines the object's blueprint, and only with a reservation made for
//!               that package;
//!   state:      actor handles resolve to the actor's own object (SELF) or its outer object (OUTER) only.
//! Same-package cross-blueprint create/globalize, an inner blueprint reaching its outer object's state, and a
//! sibling inner blueprint dropping an inner object of the same outer instance are informational.
use crate::probe::*;
use mc_core::{par_for, Ctx, Level, Local};
use mc_ledger::*;
use radix_substate_store_interface::interface::SubstateDatabaseExtensions;
use serde_json::{json, Map};

#[derive(Clone, Copy, Debug, PartialEq, Eq)]
enum PkgId {
    P,
    Q,
}

#[derive(Clone, Debug)]
struct ActorD {
    name: &'static str,
    pkg: PkgId,
    bp: &'static str,
    /// method of which global component / inner object (None = function)
    recv: Option<Recv>,
}

#[derive(Clone, Copy, Debug, PartialEq, Eq)]
enum Recv {
    GA,
    GB,
    GX,
    GO1,
    GO2,
    /// an inner object (blueprint = actor.bp) created under GO1 by the driver
    InnerOfGO1,
}

#[derive(Clone, Debug, PartialEq, Eq)]
enum VictimD {
    /// a non-global object owned by the actor's frame; `outer`: Some(1|2) for inner objects of GO1 / GO2
    Obj { pkg: PkgId, bp: &'static str, outer: Option<u8>, moved_into_kv: bool },
    Bucket,
    Proof,
    Reservation { pkg: PkgId, bp: &'static str },
    GlobalComp { pkg: PkgId, bp: &'static str },
    Account,
    OwnAuthZone,
}

/// abstract operations of the script alphabet
#[derive(Clone, Copy, Debug, PartialEq, Eq)]
enum K {
    Drop,
    Globalize,
    GlobalizeWithOwnReservation,
    UseAsReservation,
    NewObjectOfVictimBp,
    NewInner,
    CallVictimMethod,
    OpenSelf,
    OpenOuter,
    OpenSelfKv,
    OpenOuterKv,
    TypeQuery,
    /// drop the victim through the public `drop` function of the proof blueprint (how a holder drops a proof)
    DropViaProofBlueprint,
}

const ALPHABET: [K; 13] = [
    K::Drop,
    K::Globalize,
    K::GlobalizeWithOwnReservation,
    K::UseAsReservation,
    K::NewObjectOfVictimBp,
    K::NewInner,
    K::CallVictimMethod,
    K::OpenSelf,
    K::OpenOuter,
    K::OpenSelfKv,
    K::OpenOuterKv,
    K::TypeQuery,
    K::DropViaProofBlueprint,
];

#[derive(Clone, Debug, PartialEq, Eq)]
enum Verdict {
    /// success of this operation violates the property
    Forbidden(&'static str),
    /// failure of this operation violates the property (proof drop by its holder)
    Required(&'static str),
    /// statement silent / engine-documented deviation: counted only
    Info(&'static str),
    Permitted,
    /// the victim is gone / the operation does not apply to this victim: whatever happens is not judged
    Neutral,
}

struct W50 {
    snap: Snap,
    acct: ComponentAddress,
    g: ResourceAddress,
    pkg_p: PackageAddress,
    pkg_q: PackageAddress,
    ga: ComponentAddress,
    gb: ComponentAddress,
    gx: ComponentAddress,
    go1: ComponentAddress,
    go2: ComponentAddress,
    /// root bytes of field 0 of the global components (state oracle)
    root_state: Vec<(ComponentAddress, Option<Vec<u8>>)>,
}

fn p_blueprints() -> [&'static str; 5] {
    [BP_A, BP_B, BP_OUTER, BP_INNER, BP_INNER2]
}

fn build_world() -> W50 {
    let (mut sim, _probe) = new_probe_sim();
    let acct = sim.new_account_advanced(OwnerRole::Fixed(AccessRule::AllowAll));
    sim.load_account_from_faucet(acct);
    let g = sim.create_freely_mintable_and_burnable_fungible_resource(OwnerRole::None, Some(dec!(100)), 0, acct);
    let pkg_p = sim.publish_native_package(PROBE_P, package_p());
    let pkg_q = sim.publish_native_package(PROBE_Q, package_q());
    let mut new_component = |pkg: PackageAddress, bp: &str, marker: &str| -> ComponentAddress {
        let ops = vec![
            Op::NewObject { bp: bp.to_string(), lock0: false },
            Op::CallProbeMethod {
                recv: N::Reg(0),
                method: "call".into(),
                script: vec![Op::OpenField { obj: 0, idx: 0, mutable: true }, Op::FieldWrite(0, Val::Str(marker.into())), Op::FieldClose(0)],
                pass: vec![],
            },
            Op::Globalize { node: N::Reg(0), reservation: None, cfg: GlobalizeCfg::simple(OwnerRole::None) },
        ];
        let m = ManifestBuilder::new().lock_fee_from_faucet().call_function(pkg, bp, "run", manifest_args!(script_bytes(&ops))).build();
        sim.execute_manifest(m, vec![]).expect_commit_success().new_component_addresses()[0]
    };
    let ga = new_component(pkg_p, BP_A, "state-of-GA");
    let gb = new_component(pkg_p, BP_B, "state-of-GB");
    let gx = new_component(pkg_q, BP_X, "state-of-GX");
    let go1 = new_component(pkg_p, BP_OUTER, "state-of-GO1");
    let go2 = new_component(pkg_p, BP_OUTER, "state-of-GO2");
    let mut w = W50 { snap: sim.create_snapshot(), acct, g, pkg_p, pkg_q, ga, gb, gx, go1, go2, root_state: vec![] };
    for c in [ga, gb, gx, go1, go2] {
        w.root_state.push((c, sim.substate_db().get_raw_substate(c.as_node_id(), MAIN_BASE_PARTITION, SubstateKey::Field(0))));
    }
    w
}

fn actors() -> Vec<ActorD> {
    vec![
        ActorD { name: "A.fn", pkg: PkgId::P, bp: BP_A, recv: None },
        ActorD { name: "B.fn", pkg: PkgId::P, bp: BP_B, recv: None },
        ActorD { name: "X.fn", pkg: PkgId::Q, bp: BP_X, recv: None },
        ActorD { name: "Outer.fn", pkg: PkgId::P, bp: BP_OUTER, recv: None },
        ActorD { name: "A.method(GA)", pkg: PkgId::P, bp: BP_A, recv: Some(Recv::GA) },
        ActorD { name: "B.method(GB)", pkg: PkgId::P, bp: BP_B, recv: Some(Recv::GB) },
        ActorD { name: "X.method(GX)", pkg: PkgId::Q, bp: BP_X, recv: Some(Recv::GX) },
        ActorD { name: "Outer.method(GO1)", pkg: PkgId::P, bp: BP_OUTER, recv: Some(Recv::GO1) },
        ActorD { name: "Outer.method(GO2)", pkg: PkgId::P, bp: BP_OUTER, recv: Some(Recv::GO2) },
        ActorD { name: "Inner.method(under GO1)", pkg: PkgId::P, bp: BP_INNER, recv: Some(Recv::InnerOfGO1) },
        ActorD { name: "Inner2.method(under GO1)", pkg: PkgId::P, bp: BP_INNER2, recv: Some(Recv::InnerOfGO1) },
    ]
}

fn victims() -> Vec<VictimD> {
    vec![
        VictimD::Obj { pkg: PkgId::P, bp: BP_A, outer: None, moved_into_kv: false },
        VictimD::Obj { pkg: PkgId::P, bp: BP_A, outer: None, moved_into_kv: true },
        VictimD::Obj { pkg: PkgId::Q, bp: BP_X, outer: None, moved_into_kv: false },
        VictimD::Obj { pkg: PkgId::P, bp: BP_INNER, outer: Some(1), moved_into_kv: false },
        VictimD::Bucket,
        VictimD::Proof,
        VictimD::Reservation { pkg: PkgId::P, bp: BP_A },
        VictimD::Reservation { pkg: PkgId::Q, bp: BP_X },
        VictimD::GlobalComp { pkg: PkgId::P, bp: BP_A },
        VictimD::Account,
        VictimD::OwnAuthZone,
    ]
}

impl ActorD {
    /// the global object that is this actor's instance context (what `new_object` / `drop_object` compare with)
    fn outer_instance(&self) -> Option<u8> {
        match self.recv {
            Some(Recv::GO1) | Some(Recv::InnerOfGO1) => Some(1),
            Some(Recv::GO2) => Some(2),
            _ => None,
        }
    }
    fn is_method(&self) -> bool {
        self.recv.is_some()
    }
    fn is_inner(&self) -> bool {
        self.bp == BP_INNER || self.bp == BP_INNER2
    }
}

fn blueprint_exists(pkg: PkgId, bp: &str) -> bool {
    match pkg {
        PkgId::P => p_blueprints().contains(&bp),
        PkgId::Q => bp == BP_X,
    }
}

/// the reference policy
fn policy(a: &ActorD, v: &VictimD, k: K, alive: bool) -> Verdict {
    use Verdict::*;
    match k {
        K::Drop => {
            if !alive {
                return Neutral;
            }
            match v {
                // the raw drop of a proof is reserved to the proof blueprint; holders use its public drop function
                VictimD::Proof => Permitted,
                VictimD::Obj { pkg, bp, outer, .. } => {
                    let own_bp = a.pkg == *pkg && a.bp == *bp;
                    let is_outer_object = outer.is_some() && a.bp == BP_OUTER && a.is_method() && a.outer_instance() == *outer;
                    if own_bp || is_outer_object {
                        Permitted
                    } else if outer.is_some() && a.is_inner() && a.outer_instance() == *outer {
                        // sibling inner blueprint running inside the same outer instance (how vaults drop buckets)
                        Info("drop-by-sibling-inner-blueprint-of-same-outer")
                    } else {
                        Forbidden("drop-foreign-object")
                    }
                }
                VictimD::Bucket => Forbidden("drop-bucket"),
                VictimD::Reservation { .. } => Forbidden("drop-reservation"),
                VictimD::GlobalComp { .. } => Forbidden("drop-global-component"),
                VictimD::Account => Forbidden("drop-account"),
                VictimD::OwnAuthZone => Forbidden("drop-auth-zone"),
            }
        }
        K::Globalize | K::GlobalizeWithOwnReservation => {
            if !alive {
                return Neutral;
            }
            match v {
                VictimD::Obj { pkg, bp, moved_into_kv, .. } => {
                    if *moved_into_kv {
                        // not owned by the frame any more: must not be globalizable at all
                        Forbidden("globalize-object-owned-by-a-substate")
                    } else if a.pkg != *pkg {
                        Forbidden("globalize-foreign-package-object")
                    } else if a.bp != *bp {
                        Info("globalize-by-sibling-blueprint-of-same-package")
                    } else {
                        Permitted
                    }
                }
                VictimD::Bucket => Forbidden("globalize-bucket"),
                VictimD::Proof => Forbidden("globalize-proof"),
                VictimD::Reservation { .. } => Forbidden("globalize-reservation"),
                VictimD::GlobalComp { .. } => Forbidden("globalize-global-component"),
                VictimD::Account => Forbidden("globalize-account"),
                VictimD::OwnAuthZone => Forbidden("globalize-auth-zone"),
            }
        }
        K::UseAsReservation => match v {
            VictimD::Reservation { pkg, bp } if alive => {
                if a.is_inner() {
                    Neutral // the helper new_object of an inner actor needs its outer; not the subject here
                } else if a.pkg != *pkg {
                    Forbidden("use-foreign-package-reservation")
                } else if a.bp != *bp {
                    Info("use-reservation-of-sibling-blueprint")
                } else {
                    Permitted
                }
            }
            _ => Neutral,
        },
        K::NewObjectOfVictimBp => new_object_policy(a, &victim_bp_name(v)),
        K::NewInner => new_object_policy(a, BP_INNER),
        K::CallVictimMethod => Neutral,
        K::OpenSelf | K::OpenSelfKv => {
            if a.is_method() {
                Permitted
            } else {
                Forbidden("function-actor-opened-object-state")
            }
        }
        K::OpenOuter | K::OpenOuterKv => {
            if a.is_inner() {
                Info("inner-blueprint-opens-outer-state(documented)")
            } else {
                Forbidden("non-inner-actor-opened-outer-state")
            }
        }
        K::TypeQuery => Neutral,
        K::DropViaProofBlueprint => match v {
            VictimD::Proof if alive => Required("proof-drop-by-holder"),
            // anything else handed to the proof blueprint's drop must not be destroyed by it
            VictimD::Proof => Neutral,
            _ if alive => Forbidden("non-proof-dropped-through-proof-blueprint"),
            _ => Neutral,
        },
    }
}

fn victim_bp_name(v: &VictimD) -> String {
    match v {
        VictimD::Obj { bp, .. } | VictimD::Reservation { bp, .. } | VictimD::GlobalComp { bp, .. } => bp.to_string(),
        VictimD::Bucket => FUNGIBLE_BUCKET_BLUEPRINT.to_string(),
        VictimD::Proof => FUNGIBLE_PROOF_BLUEPRINT.to_string(),
        VictimD::Account => ACCOUNT_BLUEPRINT.to_string(),
        VictimD::OwnAuthZone => AUTH_ZONE_BLUEPRINT.to_string(),
    }
}

fn new_object_policy(a: &ActorD, name: &str) -> Verdict {
    use Verdict::*;
    if !blueprint_exists(a.pkg, name) {
        return Forbidden("new-object-of-blueprint-not-in-own-package");
    }
    let target_inner = name == BP_INNER || name == BP_INNER2;
    if target_inner {
        let by_outer_object = a.bp == BP_OUTER && a.is_method();
        let by_own_bp_inside_outer = a.bp == name && a.outer_instance().is_some();
        if by_outer_object || by_own_bp_inside_outer {
            Permitted
        } else if a.is_inner() && a.outer_instance().is_some() {
            Info("inner-object-created-by-sibling-inner-blueprint")
        } else {
            Forbidden("inner-object-created-outside-its-outer-object")
        }
    } else if a.bp == name {
        Permitted
    } else {
        Info("new-object-of-sibling-blueprint-of-same-package")
    }
}

/// script under construction for the actor frame
#[derive(Default, Clone)]
struct SB {
    ops: Vec<Op>,
    regs: u8,
    handles: u8,
    /// for every abstract op: index (in `ops`) of its decisive concrete op
    decisive: Vec<usize>,
}

impl SB {
    fn push(&mut self, op: Op) -> usize {
        match &op {
            Op::NewObject { .. } | Op::NewKvStore | Op::Globalize { .. } | Op::FieldReadOwn(_) | Op::CallRawReturningNode { .. } => self.regs += 1,
            Op::AllocAddress { .. } => self.regs += 2,
            Op::OpenField { .. } | Op::OpenKvColl { .. } | Op::OpenKvStore { .. } => self.handles += 1,
            _ => {}
        }
        self.ops.push(op);
        self.ops.len() - 1
    }
}

fn pkg_addr(w: &W50, p: PkgId) -> PackageAddress {
    match p {
        PkgId::P => w.pkg_p,
        PkgId::Q => w.pkg_q,
    }
}

/// expand an abstract op into concrete ops (victim = `vn`)
fn expand(w: &W50, a: &ActorD, v: &VictimD, k: K, vn: &N, sb: &mut SB) {
    let cfg = GlobalizeCfg::simple(OwnerRole::None);
    let idx = match k {
        K::Drop => sb.push(Op::Drop(vn.clone())),
        K::Globalize => sb.push(Op::Globalize { node: vn.clone(), reservation: None, cfg }),
        K::GlobalizeWithOwnReservation => {
            let (pkg, bp) = match v {
                VictimD::Obj { pkg, bp, .. } | VictimD::GlobalComp { pkg, bp } | VictimD::Reservation { pkg, bp } => (pkg_addr(w, *pkg), bp.to_string()),
                VictimD::Bucket | VictimD::Proof => (RESOURCE_PACKAGE, if *v == VictimD::Bucket { FUNGIBLE_BUCKET_BLUEPRINT.to_string() } else { FUNGIBLE_PROOF_BLUEPRINT.to_string() }),
                VictimD::Account => (ACCOUNT_PACKAGE, ACCOUNT_BLUEPRINT.to_string()),
                VictimD::OwnAuthZone => (RESOURCE_PACKAGE, AUTH_ZONE_BLUEPRINT.to_string()),
            };
            sb.push(Op::AllocAddress { pkg: Pkg::Other(pkg), bp });
            let res = sb.regs - 2;
            sb.push(Op::Globalize { node: vn.clone(), reservation: Some(N::Reg(res)), cfg })
        }
        K::UseAsReservation => {
            sb.push(Op::NewObject { bp: a.bp.to_string(), lock0: false });
            let obj = sb.regs - 1;
            sb.push(Op::Globalize { node: N::Reg(obj), reservation: Some(vn.clone()), cfg })
        }
        K::NewObjectOfVictimBp => {
            let name = victim_bp_name(v);
            let permitted = new_object_policy(a, &name) == Verdict::Permitted;
            let i = sb.push(Op::NewObject { bp: name, lock0: false });
            if permitted {
                // the creator may drop its own object again: keeps the transaction committable
                sb.push(Op::Drop(N::Reg(sb.regs - 1)));
            }
            i
        }
        K::NewInner => {
            let permitted = new_object_policy(a, BP_INNER) == Verdict::Permitted;
            let i = sb.push(Op::NewObject { bp: BP_INNER.to_string(), lock0: false });
            if permitted {
                sb.push(Op::Drop(N::Reg(sb.regs - 1)));
            }
            i
        }
        K::CallVictimMethod => sb.push(Op::CallProbeMethod {
            recv: vn.clone(),
            method: "call".into(),
            script: vec![Op::OpenField { obj: 0, idx: 0, mutable: true }, Op::FieldWrite(0, Val::Str("written-through-own-method".into())), Op::FieldClose(0)],
            pass: vec![],
        }),
        K::OpenSelf | K::OpenOuter => {
            let i = sb.push(Op::OpenField { obj: if k == K::OpenSelf { 0 } else { 1 }, idx: 0, mutable: false });
            let h = sb.handles - 1;
            sb.decisive.push(i);
            sb.push(Op::FieldRead(h));
            sb.push(Op::FieldClose(h));
            return;
        }
        K::OpenSelfKv | K::OpenOuterKv => {
            let i = sb.push(Op::OpenKvColl { obj: if k == K::OpenSelfKv { 0 } else { 1 }, coll: 0, key: "k".into(), mutable: false });
            let h = sb.handles - 1;
            sb.decisive.push(i);
            sb.push(Op::KvGet(h));
            sb.push(Op::KvClose(h));
            return;
        }
        K::TypeQuery => sb.push(Op::GetBlueprintId(vn.clone())),
        K::DropViaProofBlueprint => {
            let pass = if matches!(v, VictimD::GlobalComp { .. } | VictimD::Account | VictimD::OwnAuthZone) { Pass::Ref(vn.clone()) } else { Pass::Own(vn.clone()) };
            sb.push(Op::CallFunctionWithNode { pkg: RESOURCE_PACKAGE, bp: FUNGIBLE_PROOF_BLUEPRINT.to_string(), func: PROOF_DROP_IDENT.to_string(), node: pass })
        }
    };
    sb.decisive.push(idx);
}

struct Built {
    manifest: TransactionManifestV1,
    actor_depth: u8,
    sb: SB,
}

fn consuming(k: K) -> bool {
    matches!(k, K::Drop | K::Globalize | K::GlobalizeWithOwnReservation | K::UseAsReservation | K::DropViaProofBlueprint)
}

/// the whole transaction for (actor, victim, abstract script)
fn build(w: &W50, a: &ActorD, v: &VictimD, script: &[K]) -> Built {
    // ---- actor frame script
    let mut sb = SB::default();
    let vn = if *v == VictimD::OwnAuthZone { N::Actor(8) } else { N::Arg(0) };
    let moved = matches!(v, VictimD::Obj { moved_into_kv: true, .. });
    if moved {
        // move the victim into an entry of an own key-value store and keep the entry open (the node stays visible)
        sb.push(Op::NewKvStore);
        sb.push(Op::OpenKvStore { store: N::Reg(0), key: "k".into(), mutable: true });
        sb.push(Op::KvSet(0, Val::Own(N::Arg(0))));
    }
    for k in script {
        expand(w, a, v, *k, &vn, &mut sb);
    }
    // clean end for scripts that leave the victim alone: hand it back to whoever provided it
    let untouched = !script.iter().any(|k| consuming(*k));
    let returnable = matches!(v, VictimD::Obj { moved_into_kv: false, .. } | VictimD::Bucket);
    let mut actor_ops = sb.ops.clone();
    if untouched && returnable {
        actor_ops.push(Op::Return(vec![N::Arg(0)]));
    }

    let actor_pkg = pkg_addr(w, a.pkg);
    let global_recv = |r: Recv| match r {
        Recv::GA => w.ga,
        Recv::GB => w.gb,
        Recv::GX => w.gx,
        Recv::GO1 | Recv::InnerOfGO1 => w.go1,
        Recv::GO2 => w.go2,
    };
    let mb = ManifestBuilder::new().lock_fee(w.acct, 50);
    match v {
        VictimD::Obj { pkg, bp, outer, .. } => {
            // driver frame (depth 0): a function of the victim's blueprint — or a method of GO1 when the victim or the
            // actor is an inner object — creates the victim and hands it (Own) to the actor (depth 1)
            let mut d: Vec<Op> = vec![Op::NewObject { bp: bp.to_string(), lock0: false }];
            // driver arguments: Arg(0) = package P, Arg(1) = package Q (references the frames need to name them), Arg(2) = receiver
            let pass = vec![Pass::Own(N::Reg(0)), Pass::Ref(N::Arg(0)), Pass::Ref(N::Arg(1))];
            let mut recv_arg: Option<ComponentAddress> = None;
            let mut inner_actor_reg: Option<u8> = None;
            match a.recv {
                None => d.push(Op::CallProbeFunction { pkg: Pkg::Other(actor_pkg), bp: a.bp.to_string(), func: "run".into(), script: actor_ops, pass }),
                Some(Recv::InnerOfGO1) => {
                    d.push(Op::NewObject { bp: a.bp.to_string(), lock0: false });
                    inner_actor_reg = Some(1);
                    d.push(Op::CallProbeMethod { recv: N::Reg(1), method: "call".into(), script: actor_ops, pass });
                }
                Some(r) => {
                    recv_arg = Some(global_recv(r));
                    d.push(Op::CallProbeMethod { recv: N::Arg(2), method: "call".into(), script: actor_ops, pass });
                }
            }
            if let Some(r) = inner_actor_reg {
                d.push(Op::Drop(N::Reg(r)));
            }
            if untouched && !moved {
                d.push(Op::Drop(N::Reg(0)));
            }
            let driver_is_go1 = outer.is_some() || a.recv == Some(Recv::InnerOfGO1);
            let bytes = script_bytes(&d);
            let manifest = if driver_is_go1 {
                match recv_arg {
                    Some(r) => mb.call_method(w.go1, "call", manifest_args!(bytes, w.pkg_p, w.pkg_q, r)),
                    None => mb.call_method(w.go1, "call", manifest_args!(bytes, w.pkg_p, w.pkg_q)),
                }
            } else {
                match recv_arg {
                    Some(r) => mb.call_function(pkg_addr(w, *pkg), *bp, "run", manifest_args!(bytes, w.pkg_p, w.pkg_q, r)),
                    None => mb.call_function(pkg_addr(w, *pkg), *bp, "run", manifest_args!(bytes, w.pkg_p, w.pkg_q)),
                }
            }
            .build();
            Built { manifest, actor_depth: 1, sb }
        }
        _ => {
            // victims that come from the manifest; an inner actor needs a GO1 driver frame in between
            let with_victim = |mb: ManifestBuilder, f: &dyn Fn(ManifestBuilder, Option<ManifestArgKind>) -> ManifestBuilder| -> ManifestBuilder {
                match v {
                    VictimD::Bucket => f(mb.withdraw_from_account(w.acct, w.g, dec!(3)).take_all_from_worktop(w.g, "v"), Some(ManifestArgKind::Bucket)),
                    VictimD::Proof => f(mb.create_proof_from_account_of_amount(w.acct, w.g, dec!(3)).pop_from_auth_zone("v"), Some(ManifestArgKind::Proof)),
                    VictimD::Reservation { pkg, bp } => f(mb.allocate_global_address(pkg_addr(w, *pkg), *bp, "v", "v_addr"), Some(ManifestArgKind::Reservation)),
                    VictimD::GlobalComp { .. } => f(mb, Some(ManifestArgKind::Address(w.ga.into()))),
                    VictimD::Account => f(mb, Some(ManifestArgKind::Address(w.acct.into()))),
                    _ => f(mb, None),
                }
            };
            let (m, depth) = match a.recv {
                Some(Recv::InnerOfGO1) => {
                    // (victim?, package P, package Q) are handed on in the same order
                    let pass = if *v == VictimD::OwnAuthZone {
                        vec![Pass::Ref(N::Arg(0)), Pass::Ref(N::Arg(1))]
                    } else if matches!(v, VictimD::GlobalComp { .. } | VictimD::Account) {
                        vec![Pass::Ref(N::Arg(0)), Pass::Ref(N::Arg(1)), Pass::Ref(N::Arg(2))]
                    } else {
                        vec![Pass::Own(N::Arg(0)), Pass::Ref(N::Arg(1)), Pass::Ref(N::Arg(2))]
                    };
                    let mut d = vec![
                        Op::NewObject { bp: a.bp.to_string(), lock0: false },
                        Op::CallProbeMethod { recv: N::Reg(0), method: "call".into(), script: actor_ops.clone(), pass },
                        Op::Drop(N::Reg(0)),
                    ];
                    if untouched && *v == VictimD::Bucket {
                        d.push(Op::Return(vec![N::Arg(0)]));
                    }
                    let bytes = script_bytes(&d);
                    let go1 = w.go1;
                    (with_victim(mb, &|mb, kind| call_with(w, mb, Target::Method(go1), bytes.clone(), kind)), 1)
                }
                Some(r) => {
                    let c = global_recv(r);
                    let bytes_actor = script_bytes(&actor_ops);
                    (with_victim(mb, &|mb, kind| call_with(w, mb, Target::Method(c), bytes_actor.clone(), kind)), 0)
                }
                None => {
                    let bp = a.bp;
                    let bytes_actor = script_bytes(&actor_ops);
                    (with_victim(mb, &|mb, kind| call_with(w, mb, Target::Function(actor_pkg, bp), bytes_actor.clone(), kind)), 0)
                }
            };
            Built { manifest: m.deposit_entire_worktop(w.acct).build(), actor_depth: depth, sb }
        }
    }
}

#[derive(Clone)]
enum ManifestArgKind {
    Bucket,
    Proof,
    Reservation,
    Address(GlobalAddress),
}

enum Target {
    Method(ComponentAddress),
    Function(PackageAddress, &'static str),
}

fn call_with(w: &W50, mb: ManifestBuilder, t: Target, bytes: Vec<u8>, kind: Option<ManifestArgKind>) -> ManifestBuilder {
    let (p, q) = (w.pkg_p, w.pkg_q);
    mb.with_name_lookup(|b, lookup| {
        macro_rules! go {
            ($args:expr) => {
                match t {
                    Target::Method(c) => b.call_method(c, "call", $args),
                    Target::Function(p, bp) => b.call_function(p, bp, "run", $args),
                }
            };
        }
        match kind {
            None => go!(manifest_args!(bytes, p, q)),
            Some(ManifestArgKind::Bucket) => go!(manifest_args!(bytes, lookup.bucket("v"), p, q)),
            Some(ManifestArgKind::Proof) => go!(manifest_args!(bytes, lookup.proof("v"), p, q)),
            Some(ManifestArgKind::Reservation) => go!(manifest_args!(bytes, lookup.address_reservation("v"), p, q)),
            Some(ManifestArgKind::Address(a)) => go!(manifest_args!(bytes, a, p, q)),
        }
    })
}

fn applicable(a: &ActorD, v: &VictimD) -> bool {
    // victims created by a driver of their own blueprint: the driver must be able to call the actor; an inner actor
    // can only be created by GO1, which can create victims of package P only
    match (a.recv, v) {
        (Some(Recv::InnerOfGO1), VictimD::Obj { pkg, .. }) => *pkg == PkgId::P,
        // an inner victim is created by GO1; if the actor is GO1 itself the driver would re-enter GO1 (reentrancy is
        // refused by the engine): use GO2 / others for those pairings, and the inner actors (created inside GO1)
        (Some(Recv::GO1), VictimD::Obj { outer: Some(_), .. }) => true,
        _ => true,
    }
}

fn run_case(w: &W50, a: &ActorD, v: &VictimD, script: &[K], l: &mut Local, full_check: &std::sync::atomic::AtomicU64) -> Option<bool> {
    let built = build(w, a, v, script);
    let (mut sim, probe) = probe_sim_from(&w.snap);
    let receipt = match exec(&mut sim, built.manifest.clone(), vec![]) {
        Ok(r) => r,
        Err(p) => {
            l.violation(format!("panic@{}", mc_core::last_panic_location()), format!("{} on {v:?} script {script:?} panicked: {p}", a.name), json!({"actor": a.name, "victim": format!("{v:?}"), "script": format!("{script:?}")}));
            return None;
        }
    };
    let log = probe.take_log();
    let committed = is_success(&receipt);
    // entries of the actor frame, in order, = a prefix of the concrete ops
    let actor_entries: Vec<&LogEntry> = log.iter().filter(|e| e.depth == built.actor_depth && e.blueprint == a.bp).collect();
    // judge the last abstract op only (its prefix was judged by the shorter script)
    let last = script.len() - 1;
    let decisive_idx = built.sb.decisive[last];
    let case = || json!({"actor": a.name, "victim": format!("{v:?}"), "script": format!("{script:?}"), "receipt": receipt_class(&receipt), "log": log.iter().map(|e| format!("{}:{}:{}:{:?}", e.depth, e.blueprint, e.op, e.result)).collect::<Vec<_>>()});
    let result: Option<Result<String, String>> = actor_entries.get(decisive_idx).map(|e| e.result.clone());
    // victim liveness before the last op: an earlier successful drop / globalize of the victim consumed it
    let alive = !script[..last].iter().any(|k| consuming(*k));
    let verdict = policy(a, v, script[last], alive);
    l.eval();
    let ok = matches!(result, Some(Ok(_)));
    let label = format!("{:?}", script[last]);
    match (&verdict, &result) {
        (_, None) => {
            // the decisive op was not reached (a helper op or the provisioning failed)
            l.class(&format!("{label}:not-reached"));
            l.info(&format!("not-reached:{}:{}:{}", a.name, mc_core::truncate(&format!("{v:?}"), 60), mc_core::truncate(&receipt_class(&receipt), 80)));
        }
        (Verdict::Forbidden(key), Some(Ok(s))) => {
            l.violation(format!("forbidden-op-succeeded:{key}"), format!("{} performed {label} on {v:?} successfully ({s}); script {script:?}", a.name), case());
        }
        (Verdict::Forbidden(_), Some(Err(e))) => l.class(&format!("{label}:forbidden→refused:{e}")),
        (Verdict::Required(key), Some(Err(e))) => {
            l.violation(format!("required-op-refused:{key}"), format!("{} could not perform {label} on {v:?}: {e}", a.name), case());
        }
        (Verdict::Required(_), Some(Ok(_))) => l.class(&format!("{label}:required→done")),
        (Verdict::Info(key), Some(r)) => {
            l.info(&format!("{key}:{}", if r.is_ok() { "accepted".to_string() } else { r.clone().unwrap_err() }));
            l.class(&format!("{label}:informational"));
        }
        (Verdict::Permitted, Some(Ok(_))) => l.class(&format!("{label}:permitted→done")),
        (Verdict::Permitted, Some(Err(e))) => l.class(&format!("{label}:permitted→refused:{e}")),
        (Verdict::Neutral, Some(r)) => l.class(&format!("{label}:not-judged:{}", if r.is_ok() { "ok" } else { "err" })),
    }
    l.sample(case);
    // state oracle on commit: the global components' own state is untouched unless written through their own method
    if committed {
        for (c, bytes) in &w.root_state {
            let legit = script.contains(&K::CallVictimMethod) && matches!(v, VictimD::GlobalComp { .. }) && *c == w.ga;
            if legit {
                continue;
            }
            let now = sim.substate_db().get_raw_substate(c.as_node_id(), MAIN_BASE_PARTITION, SubstateKey::Field(0));
            if &now != bytes {
                l.violation("foreign-state-changed", format!("field 0 of {c:?} changed by script {script:?} of {}", a.name), case());
            }
        }
        // engine checkers on a bounded number of committed, structure-changing scripts
        let structural = script.iter().any(|k| matches!(k, K::Globalize | K::GlobalizeWithOwnReservation | K::UseAsReservation | K::NewObjectOfVictimBp | K::NewInner));
        if structural && full_check.fetch_add(1, std::sync::atomic::Ordering::Relaxed) < 400 {
            if let Err(e) = check_database_quiet(&sim, false, false) {
                l.violation("engine-checker", format!("database checker failed after script {script:?} of {} on {v:?}: {e}", a.name), case());
            } else {
                l.class("committed+engine-checkers-ok");
            }
        }
    }
    Some(ok)
}

pub fn run(ctx: Ctx) -> ! {
    let w = build_world();
    let max_len = ctx.pick(2usize, 3usize);
    let acts = actors();
    let vics = victims();
    let mut pairings: Vec<(usize, usize)> = vec![];
    for (ai, a) in acts.iter().enumerate() {
        for (vi, v) in vics.iter().enumerate() {
            if applicable(a, v) {
                pairings.push((ai, vi));
            }
        }
    }
    let full_check = std::sync::atomic::AtomicU64::new(0);
    let scripts_run = std::sync::atomic::AtomicU64::new(0);
    // work items: (pairing, first op) so that the sweep parallelises well
    let mut work: Vec<(usize, usize, K)> = vec![];
    for (ai, vi) in &pairings {
        for k in ALPHABET {
            work.push((*ai, *vi, k));
        }
    }
    if let Some(case) = ctx.read_replay_case() {
        let actor = case.get("actor").and_then(|x| x.as_str()).unwrap_or("").to_string();
        let victim = case.get("victim").and_then(|x| x.as_str()).unwrap_or("").to_string();
        let script = case.get("script").and_then(|x| x.as_str()).unwrap_or("").to_string();
        let mut l = Local::new();
        // the script is recorded as the Debug rendering of the abstract ops: "[Drop, Globalize]"
        let ks: Vec<K> = script
            .trim_matches(|c| c == '[' || c == ']')
            .split(',')
            .map(|t| t.trim())
            .filter(|t| !t.is_empty())
            .map(|t| ALPHABET.iter().copied().find(|k| format!("{k:?}") == t).unwrap_or_else(|| mc_core::machinery_error(&format!("replay: unknown op {t}"))))
            .collect();
        if ks.is_empty() {
            mc_core::machinery_error("replay: empty script");
        }
        for a in &acts {
            for v in &vics {
                if a.name == actor && format!("{v:?}") == victim {
                    run_case(&w, a, v, &ks, &mut l, &full_check);
                }
            }
        }
        for v in &l.violations {
            println!("replayed: {}: {}", v.key, v.what);
        }
        ctx.merge(l);
        ctx.finish(Level::ModelChecking, "replay", 0, false, Map::new(), &[]);
    }
    par_for(&ctx, &work, |(ai, vi, first), l| {
        let (a, v) = (&acts[*ai], &vics[*vi]);
        // depth-first over extensions of the scripts whose last op succeeded (a failing op aborts the invocation)
        let mut stack: Vec<Vec<K>> = vec![vec![*first]];
        while let Some(s) = stack.pop() {
            scripts_run.fetch_add(1, std::sync::atomic::Ordering::Relaxed);
            let ok = run_case(&w, a, v, &s, l, &full_check);
            if ok == Some(true) && s.len() < max_len {
                for k in ALPHABET.iter().rev() {
                    let mut n = s.clone();
                    n.push(*k);
                    stack.push(n);
                }
            }
        }
    });
    let classes = ctx.classes();
    let refused: u64 = classes.iter().filter(|(k, _)| k.contains("forbidden→refused")).map(|(_, n)| *n).sum();
    let done: u64 = classes.iter().filter(|(k, _)| k.contains("permitted→done") || k.contains("required→done")).map(|(_, n)| *n).sum();
    if !ctx.has_violations() && (refused == 0 || done == 0) {
        mc_core::machinery_error(&format!("C50: vacuous: forbidden-and-refused={refused}, permitted-and-done={done}"));
    }
    let n_scripts = scripts_run.load(std::sync::atomic::Ordering::Relaxed);
    let mut cov = Map::new();
    cov.insert("states".into(), json!(n_scripts));
    cov.insert("transitions".into(), json!(ctx.evals()));
    cov.insert("traces_validated_against_impl".into(), json!(n_scripts));
    cov.insert("programs".into(), json!(n_scripts));
    cov.insert("pairings".into(), json!(pairings.len()));
    cov.insert("actors".into(), json!(acts.iter().map(|a| a.name).collect::<Vec<_>>()));
    cov.insert("victims".into(), json!(vics.iter().map(|v| format!("{v:?}")).collect::<Vec<_>>()));
    cov.insert("alphabet".into(), json!(ALPHABET.iter().map(|k| format!("{k:?}")).collect::<Vec<_>>()));
    cov.insert("max_script_length".into(), json!(max_len));
    cov.insert("forbidden_and_refused".into(), json!(refused));
    ctx.finish(
        Level::ModelChecking,
        "every sequence of ≤ L abstract system-API operations per (actor, victim) pairing, prefix-pruned at the first failing operation, each executed as a real transaction through the native Probe blueprints; every operation result compared with the reference encapsulation policy; committed scripts: global components' state compared with the root, engine database checkers on structure-changing scripts; non-trivial = forbidden operations that were attempted and refused",
        refused,
        true,
        cov,
        &[
            "a blueprint can only reach other nodes' state through the actor handles SELF/OUTER and through nodes it owns or borrows; references to non-global nodes cannot be passed as arguments (kernel rule), so 'held only by reference' victims are the object moved into an own key-value entry, the global component, the account and the actor's own auth zone",
            "vault victims (direct-access references) are not enumerated",
            "same-package cross-blueprint create/globalize, inner→outer state access and sibling-inner-blueprint drop are informational",
            "only the SystemApi surface is scripted (kernel-level calls available to native code are out of scope)",
        ],
    )
}
