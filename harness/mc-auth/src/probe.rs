//! Probe native packages (DESIGN §3.5): test blueprints whose functions/methods interpret a small script
//! of *system-API* calls. Built with the repo's own mechanism (a `VmInvoke` + a `NativeVmExtension` +
//! `publish_native_package`); no engine source change.
//!
//! Two packages are published:
//!   P = { ProbeA, ProbeB, ProbeOuter, ProbeInner (inner blueprint of ProbeOuter) }      code id PROBE_P
//!   Q = { ProbeX }                                                                         code id PROBE_Q
//! Every blueprint has two fields (any type), one key-value collection (any → any, ownership allowed),
//! a function `run`, public methods `call`, and the role-protected methods `guarded` (role "r") and
//! `guarded_rs` (roles "r","s"); role "t" is never assigned (owner fallback).
//!
//! Only the `SystemApi` part of the native interface is used by the interpreter (the kernel-level traits a
//! native blueprint additionally gets are *not* what a blueprint "can call" in the sense of C50).
//!
//! Every executed op is appended to a log shared with the harness (`Probe::log`), so results are observable
//! even when the transaction fails afterwards.
use mc_ledger::*;
use radix_engine::errors::RuntimeError;
use radix_engine::kernel::kernel_api::{KernelNodeApi, KernelSubstateApi};
use radix_engine::system::system_callback::SystemLockData;
use radix_engine::vm::{NativeVmExtension, VmApi, VmInvoke};
use radix_blueprint_schema_init::*;
use sbor::basic_well_known_types::ANY_TYPE;
use radix_native_sdk::modules::metadata::Metadata;
use radix_native_sdk::modules::role_assignment::RoleAssignment;
use radix_native_sdk::modules::royalty::ComponentRoyalty;
use radix_native_sdk::runtime::Runtime;
use std::sync::{Arc, Mutex};

pub const PROBE_P: u64 = 0xC0DE_0001;
pub const PROBE_Q: u64 = 0xC0DE_0002;

pub const BP_A: &str = "ProbeA";
pub const BP_B: &str = "ProbeB";
pub const BP_OUTER: &str = "ProbeOuter";
pub const BP_INNER: &str = "ProbeInner";
pub const BP_INNER2: &str = "ProbeInner2";
pub const BP_X: &str = "ProbeX";

/// node operand
#[derive(ScryptoSbor, Clone, Debug, PartialEq, Eq)]
pub enum N {
    /// i-th node-carrying argument of this invocation
    Arg(u8),
    /// node produced by an earlier op of this script
    Reg(u8),
    /// `actor_get_node_id(handle)`: 0 self, 1 outer, 2 global, 8 auth zone
    Actor(u32),
}

#[derive(ScryptoSbor, Clone, Debug, PartialEq, Eq)]
pub enum Val {
    Str(String),
    Own(N),
    Ref(N),
}

#[derive(ScryptoSbor, Clone, Debug, PartialEq, Eq)]
pub enum Pkg {
    /// the package of the running actor
    Own,
    Other(PackageAddress),
}

#[derive(ScryptoSbor, Clone, Debug, PartialEq, Eq)]
pub enum Pass {
    Own(N),
    Ref(N),
}

/// how the globalized object's modules are configured
#[derive(ScryptoSbor, Clone, Debug, PartialEq, Eq)]
pub struct GlobalizeCfg {
    pub owner: OwnerRole,
    /// use `OwnerRoleUpdater::Object` instead of what `owner` says
    pub owner_updater_object: bool,
    /// main-module roles (r, s, …)
    pub main_roles: Vec<(String, Option<AccessRule>)>,
    /// metadata-module roles
    pub metadata_roles: Vec<(String, Option<AccessRule>)>,
    /// royalty module: None = not attached; Some(list of (method, amount in XRD, locked))
    pub royalty: Option<Vec<(String, u32, bool)>>,
    pub royalty_roles: Vec<(String, Option<AccessRule>)>,
    /// replace `SelfCaller` placeholders: roles listed here get `require(global_caller(<new address>))`
    pub self_caller_main_roles: Vec<String>,
    pub self_caller_metadata_roles: Vec<String>,
    pub self_caller_royalty_roles: Vec<String>,
}

impl GlobalizeCfg {
    pub fn simple(owner: OwnerRole) -> Self {
        GlobalizeCfg {
            owner,
            owner_updater_object: false,
            main_roles: vec![],
            metadata_roles: vec![],
            royalty: None,
            royalty_roles: vec![],
            self_caller_main_roles: vec![],
            self_caller_metadata_roles: vec![],
            self_caller_royalty_roles: vec![],
        }
    }
}

#[derive(ScryptoSbor, Clone, Debug, PartialEq, Eq)]
pub enum Op {
    /// new_object(blueprint in the actor's package); both fields initialised to "init"; `lock0`: field 0 immutable
    NewObject { bp: String, lock0: bool },
    NewKvStore,
    Drop(N),
    /// globalize with fresh metadata + role-assignment (+ royalty) modules
    Globalize { node: N, reservation: Option<N>, cfg: GlobalizeCfg },
    /// allocate_global_address(blueprint id) → two registers: reservation, address
    AllocAddress { pkg: Pkg, bp: String },
    ReservationAddress(N),
    GetBlueprintId(N),
    GetOuterObject(N),
    // ---- state
    OpenField { obj: u32, idx: u8, mutable: bool },
    FieldRead(u8),
    /// read a field holding `Own(node)`; the node goes to a register
    FieldReadOwn(u8),
    FieldWrite(u8, Val),
    FieldLock(u8),
    FieldClose(u8),
    OpenKvColl { obj: u32, coll: u8, key: String, mutable: bool },
    OpenKvStore { store: N, key: String, mutable: bool },
    KvGet(u8),
    KvSet(u8, Val),
    KvRemove(u8),
    KvLock(u8),
    KvClose(u8),
    ActorRemoveKv { obj: u32, coll: u8, key: String },
    KvStoreRemove { store: N, key: String },
    // ---- calls
    /// call a probe method (`call`, `guarded`, …) with a sub-script
    CallProbeMethod { recv: N, method: String, script: Vec<Op>, pass: Vec<Pass> },
    CallProbeFunction { pkg: Pkg, bp: String, func: String, script: Vec<Op>, pass: Vec<Pass> },
    /// arbitrary method call with pre-encoded arguments (bucket/proof/auth-zone/module methods)
    CallRaw { recv: N, module: Option<AttachedModuleId>, method: String, args: Vec<u8> },
    /// method call whose single argument is a node of this frame (e.g. AuthZone::push(proof))
    CallRawWithNode { recv: N, method: String, node: Pass },
    CallFunctionRaw { pkg: PackageAddress, bp: String, func: String, args: Vec<u8> },
    /// function call whose single argument is a node of this frame (e.g. FungibleProof::drop(proof))
    CallFunctionWithNode { pkg: PackageAddress, bp: String, func: String, node: Pass },
    /// a proof-returning raw call: the returned proof goes to a register
    CallRawReturningNode { recv: N, method: String, args: Vec<u8> },
    // ---- auth
    AssertRule(AccessRule),
    /// fail the invocation on purpose
    Fail,
    /// return these nodes (as `Vec<Own>`) to the caller when the script ends
    Return(Vec<N>),
}

#[derive(Clone, Debug, PartialEq, Eq)]
pub struct LogEntry {
    /// nesting depth of the invocation (0 = called from the manifest)
    pub depth: u8,
    pub blueprint: String,
    pub op: String,
    /// Ok(summary) / Err(variant path of the RuntimeError)
    pub result: Result<String, String>,
    pub full_error: String,
}

#[derive(Clone)]
pub struct Probe {
    pub log: Arc<Mutex<Vec<LogEntry>>>,
}

impl Probe {
    pub fn new() -> Self {
        Probe { log: Arc::new(Mutex::new(vec![])) }
    }
    pub fn take_log(&self) -> Vec<LogEntry> {
        DEPTH.with(|d| d.set(0));
        std::mem::take(&mut *self.log.lock().unwrap())
    }
}

#[derive(Clone)]
pub struct ProbeExt(pub Probe);

impl NativeVmExtension for ProbeExt {
    type Instance = Probe;
    fn try_create_instance(&self, code: &[u8]) -> Option<Probe> {
        let code: [u8; 8] = code.try_into().ok()?;
        let id = u64::from_be_bytes(code);
        if id == PROBE_P || id == PROBE_Q {
            Some(self.0.clone())
        } else {
            None
        }
    }
}

pub type PSim = Sim<ProbeExt>;

fn err_class(e: &RuntimeError) -> String {
    variant_path(&format!("{e:?}"), 4)
}

fn str_val(s: &str) -> Vec<u8> {
    scrypto_encode(&s.to_string()).unwrap()
}

struct Frame {
    args: Vec<NodeId>,
    regs: Vec<NodeId>,
    handles: Vec<u32>,
}

impl Frame {
    fn node<Y: SystemApi<RuntimeError>>(&self, n: &N, api: &mut Y) -> Result<NodeId, RuntimeError> {
        match n {
            N::Arg(i) => self.args.get(*i as usize).copied().ok_or_else(|| missing("arg")),
            N::Reg(i) => self.regs.get(*i as usize).copied().ok_or_else(|| missing("reg")),
            N::Actor(h) => api.actor_get_node_id(*h),
        }
    }
    fn handle(&self, h: u8) -> Result<u32, RuntimeError> {
        self.handles.get(h as usize).copied().ok_or_else(|| missing("handle"))
    }
    fn val<Y: SystemApi<RuntimeError>>(&self, v: &Val, api: &mut Y) -> Result<Vec<u8>, RuntimeError> {
        Ok(match v {
            Val::Str(s) => str_val(s),
            Val::Own(n) => scrypto_encode(&Own(self.node(n, api)?)).unwrap(),
            Val::Ref(n) => scrypto_encode(&Reference(self.node(n, api)?)).unwrap(),
        })
    }
    fn pass_args<Y: SystemApi<RuntimeError>>(&self, script: &[Op], pass: &[Pass], api: &mut Y) -> Result<Vec<u8>, RuntimeError> {
        let mut fields: Vec<ScryptoValue> = vec![ScryptoValue::Array {
            element_value_kind: ScryptoValueKind::U8,
            elements: scrypto_encode(&script.to_vec()).unwrap().into_iter().map(|value| ScryptoValue::U8 { value }).collect(),
        }];
        for p in pass {
            fields.push(match p {
                Pass::Own(n) => ScryptoValue::Custom { value: ScryptoCustomValue::Own(Own(self.node(n, api)?)) },
                Pass::Ref(n) => ScryptoValue::Custom { value: ScryptoCustomValue::Reference(Reference(self.node(n, api)?)) },
            });
        }
        Ok(scrypto_encode(&ScryptoValue::Tuple { fields }).unwrap())
    }
}

/// a script referring to a register/argument that does not exist: reported as an application-level panic error
fn missing(what: &str) -> RuntimeError {
    RuntimeError::ApplicationError(radix_engine::errors::ApplicationError::PanicMessage(format!("probe: missing {what}")))
}

fn role_init(list: &[(String, Option<AccessRule>)], self_caller: &[String], addr: GlobalAddress) -> RoleAssignmentInit {
    let mut init = RoleAssignmentInit::new();
    for (k, r) in list {
        init.data.insert(RoleKey::new(k.as_str()), r.clone());
    }
    for k in self_caller {
        init.data.insert(RoleKey::new(k.as_str()), Some(rule!(require(global_caller(addr)))));
    }
    init
}

impl Probe {
    fn exec<Y: SystemApi<RuntimeError>>(&mut self, f: &mut Frame, op: &Op, api: &mut Y) -> Result<String, RuntimeError> {
        Ok(match op {
            Op::NewObject { bp, lock0 } => {
                let f0 = if *lock0 { FieldValue::immutable("init".to_string()) } else { FieldValue::new("init".to_string()) };
                let node = api.new_object(bp, vec![], GenericArgs::default(), indexmap!(0u8 => f0, 1u8 => FieldValue::new("init".to_string())), indexmap!())?;
                f.regs.push(node);
                format!("reg{}", f.regs.len() - 1)
            }
            Op::NewKvStore => {
                let node = api.key_value_store_new(KeyValueStoreDataSchema::new_local_without_self_package_replacement::<String, ScryptoValue>(true))?;
                f.regs.push(node);
                format!("reg{}", f.regs.len() - 1)
            }
            Op::Drop(n) => {
                let node = f.node(n, api)?;
                let fields = api.drop_object(&node)?;
                format!("dropped:{}fields", fields.len())
            }
            Op::Globalize { node, reservation, cfg } => {
                let node = f.node(node, api)?;
                // the address is needed for self-caller roles: take it from the reservation, or allocate one
                let (reservation, address) = match reservation {
                    Some(r) => {
                        let r = f.node(r, api)?;
                        let a = api.get_reservation_address(&r)?;
                        (GlobalAddressReservation(Own(r)), a)
                    }
                    None => {
                        let bp = api.get_blueprint_id(&node)?;
                        api.allocate_global_address(bp)?
                    }
                };
                let metadata = Metadata::create(api)?;
                let mut owner: OwnerRoleEntry = cfg.owner.clone().into();
                if cfg.owner_updater_object {
                    owner.updater = OwnerRoleUpdater::Object;
                }
                let mut roles = indexmap!(
                    ModuleId::Main => role_init(&cfg.main_roles, &cfg.self_caller_main_roles, address),
                    ModuleId::Metadata => role_init(&cfg.metadata_roles, &cfg.self_caller_metadata_roles, address),
                );
                if cfg.royalty.is_some() {
                    roles.insert(ModuleId::Royalty, role_init(&cfg.royalty_roles, &cfg.self_caller_royalty_roles, address));
                }
                let ra = RoleAssignment::create(owner, roles, api)?;
                let mut modules = indexmap!(
                    AttachedModuleId::Metadata => metadata.0,
                    AttachedModuleId::RoleAssignment => ra.0 .0,
                );
                if let Some(list) = &cfg.royalty {
                    let mut c = ComponentRoyaltyConfig::default();
                    for (m, amt, locked) in list {
                        let amount = if *amt == 0 { RoyaltyAmount::Free } else { RoyaltyAmount::Xrd(Decimal::from(*amt)) };
                        c.royalty_amounts.insert(m.clone(), (amount, *locked));
                    }
                    let r = ComponentRoyalty::create(c, api)?;
                    modules.insert(AttachedModuleId::Royalty, r.0);
                }
                let addr = api.globalize(node, modules, Some(reservation))?;
                f.regs.push(addr.into_node_id());
                format!("reg{}", f.regs.len() - 1)
            }
            Op::AllocAddress { pkg, bp } => {
                let package = match pkg {
                    Pkg::Own => api.actor_get_blueprint_id()?.package_address,
                    Pkg::Other(p) => *p,
                };
                let (res, addr) = api.allocate_global_address(BlueprintId::new(&package, bp.as_str()))?;
                f.regs.push(res.0 .0);
                f.regs.push(addr.into_node_id());
                format!("reg{},reg{}", f.regs.len() - 2, f.regs.len() - 1)
            }
            Op::ReservationAddress(n) => {
                let node = f.node(n, api)?;
                let a = api.get_reservation_address(&node)?;
                format!("{:?}", a.as_node_id().entity_type())
            }
            Op::GetBlueprintId(n) => {
                let node = f.node(n, api)?;
                api.get_blueprint_id(&node)?.blueprint_name
            }
            Op::GetOuterObject(n) => {
                let node = f.node(n, api)?;
                format!("{:?}", api.get_outer_object(&node)?.as_node_id().entity_type())
            }
            Op::OpenField { obj, idx, mutable } => {
                let h = api.actor_open_field(*obj, *idx, if *mutable { LockFlags::MUTABLE } else { LockFlags::read_only() })?;
                f.handles.push(h);
                format!("h{}", f.handles.len() - 1)
            }
            Op::FieldRead(h) => {
                let v = api.field_read(f.handle(*h)?)?;
                match scrypto_decode::<String>(&v) {
                    Ok(s) => format!("read:{s}"),
                    Err(_) => "read:<non-string>".to_string(),
                }
            }
            Op::FieldReadOwn(h) => {
                let v = api.field_read(f.handle(*h)?)?;
                let o: Own = scrypto_decode(&v).map_err(|_| missing("Own in field"))?;
                f.regs.push(o.0);
                format!("reg{}", f.regs.len() - 1)
            }
            Op::FieldWrite(h, v) => {
                let bytes = f.val(v, api)?;
                api.field_write(f.handle(*h)?, bytes)?;
                "written".into()
            }
            Op::FieldLock(h) => {
                api.field_lock(f.handle(*h)?)?;
                "locked".into()
            }
            Op::FieldClose(h) => {
                api.field_close(f.handle(*h)?)?;
                "closed".into()
            }
            Op::OpenKvColl { obj, coll, key, mutable } => {
                let h = api.actor_open_key_value_entry(*obj, *coll, &str_val(key), if *mutable { LockFlags::MUTABLE } else { LockFlags::read_only() })?;
                f.handles.push(h);
                format!("h{}", f.handles.len() - 1)
            }
            Op::OpenKvStore { store, key, mutable } => {
                let node = f.node(store, api)?;
                let h = api.key_value_store_open_entry(&node, &str_val(key), if *mutable { LockFlags::MUTABLE } else { LockFlags::read_only() })?;
                f.handles.push(h);
                format!("h{}", f.handles.len() - 1)
            }
            Op::KvGet(h) => {
                let v = api.key_value_entry_get(f.handle(*h)?)?;
                match scrypto_decode::<Option<String>>(&v) {
                    Ok(s) => format!("get:{s:?}"),
                    Err(_) => "get:<non-string>".to_string(),
                }
            }
            Op::KvSet(h, v) => {
                let bytes = f.val(v, api)?;
                api.key_value_entry_set(f.handle(*h)?, bytes)?;
                "set".into()
            }
            Op::KvRemove(h) => {
                api.key_value_entry_remove(f.handle(*h)?)?;
                "removed".into()
            }
            Op::KvLock(h) => {
                api.key_value_entry_lock(f.handle(*h)?)?;
                "locked".into()
            }
            Op::KvClose(h) => {
                api.key_value_entry_close(f.handle(*h)?)?;
                "closed".into()
            }
            Op::ActorRemoveKv { obj, coll, key } => {
                api.actor_remove_key_value_entry(*obj, *coll, &str_val(key))?;
                "removed".into()
            }
            Op::KvStoreRemove { store, key } => {
                let node = f.node(store, api)?;
                api.key_value_store_remove_entry(&node, &str_val(key))?;
                "removed".into()
            }
            Op::CallProbeMethod { recv, method, script, pass } => {
                let node = f.node(recv, api)?;
                let args = f.pass_args(script, pass, api)?;
                api.call_method(&node, method, args)?;
                "returned".into()
            }
            Op::CallProbeFunction { pkg, bp, func, script, pass } => {
                let package = match pkg {
                    Pkg::Own => api.actor_get_blueprint_id()?.package_address,
                    Pkg::Other(p) => *p,
                };
                let args = f.pass_args(script, pass, api)?;
                api.call_function(package, bp, func, args)?;
                "returned".into()
            }
            Op::CallRaw { recv, module, method, args } => {
                let node = f.node(recv, api)?;
                match module {
                    None => api.call_method(&node, method, args.clone())?,
                    Some(m) => api.call_module_method(&node, *m, method, args.clone())?,
                };
                "returned".into()
            }
            Op::CallRawWithNode { recv, method, node } => {
                let r = f.node(recv, api)?;
                let arg = match node {
                    Pass::Own(n) => ScryptoValue::Custom { value: ScryptoCustomValue::Own(Own(f.node(n, api)?)) },
                    Pass::Ref(n) => ScryptoValue::Custom { value: ScryptoCustomValue::Reference(Reference(f.node(n, api)?)) },
                };
                api.call_method(&r, method, scrypto_encode(&ScryptoValue::Tuple { fields: vec![arg] }).unwrap())?;
                "returned".into()
            }
            Op::CallFunctionRaw { pkg, bp, func, args } => {
                api.call_function(*pkg, bp, func, args.clone())?;
                "returned".into()
            }
            Op::CallFunctionWithNode { pkg, bp, func, node } => {
                let arg = match node {
                    Pass::Own(n) => ScryptoValue::Custom { value: ScryptoCustomValue::Own(Own(f.node(n, api)?)) },
                    Pass::Ref(n) => ScryptoValue::Custom { value: ScryptoCustomValue::Reference(Reference(f.node(n, api)?)) },
                };
                api.call_function(*pkg, bp, func, scrypto_encode(&ScryptoValue::Tuple { fields: vec![arg] }).unwrap())?;
                "returned".into()
            }
            Op::CallRawReturningNode { recv, method, args } => {
                let node = f.node(recv, api)?;
                let out = api.call_method(&node, method, args.clone())?;
                let v = IndexedScryptoValue::from_vec(out).map_err(|_| missing("decodable output"))?;
                let n = v.owned_nodes().first().copied().ok_or_else(|| missing("returned node"))?;
                f.regs.push(n);
                format!("reg{}", f.regs.len() - 1)
            }
            Op::AssertRule(rule) => {
                Runtime::assert_access_rule(rule.clone(), api)?;
                "authorized".into()
            }
            Op::Return(_) => "return".into(),
            Op::Fail => return Err(RuntimeError::ApplicationError(radix_engine::errors::ApplicationError::PanicMessage("probe: Fail op".into()))),
        })
    }
}

fn op_label(op: &Op) -> String {
    // short label (no nested scripts / argument bytes)
    match op {
        Op::CallProbeMethod { recv, method, pass, .. } => format!("CallProbeMethod({recv:?},{method},{pass:?})"),
        Op::CallProbeFunction { bp, func, pass, .. } => format!("CallProbeFunction({bp},{func},{pass:?})"),
        Op::CallRaw { recv, module, method, .. } => format!("CallRaw({recv:?},{module:?},{method})"),
        Op::CallFunctionRaw { bp, func, .. } => format!("CallFunctionRaw({bp},{func})"),
        Op::CallFunctionWithNode { bp, func, node, .. } => format!("CallFunctionWithNode({bp},{func},{node:?})"),
        Op::CallRawReturningNode { recv, method, .. } => format!("CallRawReturningNode({recv:?},{method})"),
        Op::Globalize { node, reservation, .. } => format!("Globalize({node:?},{reservation:?})"),
        Op::AssertRule(_) => "AssertRule".into(),
        other => format!("{other:?}"),
    }
}

impl VmInvoke for Probe {
    fn invoke<Y: SystemApi<RuntimeError> + KernelNodeApi + KernelSubstateApi<SystemLockData>, V: VmApi>(
        &mut self,
        export_name: &str,
        input: &IndexedScryptoValue,
        api: &mut Y,
        _vm_api: &V,
    ) -> Result<IndexedScryptoValue, RuntimeError> {
        let _ = export_name;
        let dec = |_| missing("decodable input");
        // input = (script bytes, node-carrying values…)
        let (script, args): (Vec<Op>, Vec<NodeId>) = {
            let v = input.as_scrypto_value();
            let ScryptoValue::Tuple { fields } = &*v else { return Err(missing("tuple input")) };
            let Some(first) = fields.first() else { return Err(missing("script")) };
            let bytes: Vec<u8> = scrypto_decode(&scrypto_encode(first).unwrap()).map_err(dec)?;
            let script: Vec<Op> = scrypto_decode(&bytes).map_err(dec)?;
            let mut nodes = vec![];
            for fl in fields.iter().skip(1) {
                match fl {
                    ScryptoValue::Custom { value: ScryptoCustomValue::Own(o) } => nodes.push(o.0),
                    ScryptoValue::Custom { value: ScryptoCustomValue::Reference(r) } => nodes.push(r.0),
                    _ => return Err(missing("node argument")),
                }
            }
            (script, nodes)
        };
        let blueprint = api.actor_get_blueprint_id().map(|b| b.blueprint_name).unwrap_or_default();
        let depth = DEPTH.with(|d| d.get());
        let mut frame = Frame { args, regs: vec![], handles: vec![] };
        let mut ret: Vec<Own> = vec![];
        for op in &script {
            if let Op::Return(nodes) = op {
                for n in nodes {
                    match frame.node(n, api) {
                        Ok(id) => ret.push(Own(id)),
                        Err(e) => return Err(e),
                    }
                }
                continue;
            }
            let nested = matches!(op, Op::CallProbeMethod { .. } | Op::CallProbeFunction { .. });
            if nested {
                // the callee logs with depth+1 (the log is shared; the depth travels through the thread-local)
                DEPTH.with(|d| d.set(d.get() + 1));
            }
            let r = self.exec(&mut frame, op, api);
            if nested {
                DEPTH.with(|d| d.set(d.get() - 1));
            }
            let entry = match &r {
                Ok(s) => LogEntry { depth, blueprint: blueprint.clone(), op: op_label(op), result: Ok(s.clone()), full_error: String::new() },
                Err(e) => LogEntry { depth, blueprint: blueprint.clone(), op: op_label(op), result: Err(err_class(e)), full_error: mc_core::truncate(&format!("{e:?}"), 300) },
            };
            self.log.lock().unwrap().push(entry);
            // An error is fatal for the invocation, exactly as for real blueprints (the kernel does not unwind a
            // failed call frame, so continuing after an error would explore states no blueprint can reach).
            if let Err(e) = r {
                return Err(e);
            }
        }
        if ret.is_empty() {
            Ok(IndexedScryptoValue::from_typed(&()))
        } else {
            Ok(IndexedScryptoValue::from_typed(&ret))
        }
    }
}

thread_local! {
    static DEPTH: std::cell::Cell<u8> = std::cell::Cell::new(0);
}

// ------------------------------------------------------------------------------------------------
// package definitions
// ------------------------------------------------------------------------------------------------

fn fn_schema(receiver: bool, export: &str) -> FunctionSchemaInit {
    FunctionSchemaInit {
        receiver: if receiver { Some(ReceiverInfo::normal_ref()) } else { None },
        input: TypeRef::Static(LocalTypeId::WellKnown(ANY_TYPE)),
        output: TypeRef::Static(LocalTypeId::WellKnown(ANY_TYPE)),
        export: export.to_string(),
    }
}

/// `function_rules`: access rules of the two functions `run` (always allow-all) and `guarded_fn`.
pub fn probe_blueprint(kind: BlueprintType, guarded_fn_rule: Option<AccessRule>) -> BlueprintDefinitionInit {
    let mut functions = index_map_new();
    functions.insert("run".to_string(), fn_schema(false, "run"));
    functions.insert("guarded_fn".to_string(), fn_schema(false, "guarded_fn"));
    for m in ["call", "guarded", "guarded_rs", "guarded_t", "own_pkg_only"] {
        functions.insert(m.to_string(), fn_schema(true, m));
    }
    let role = |s: &str| RoleKey::new(s);
    let mut roles: IndexMap<RoleKey, RoleList> = index_map_new();
    roles.insert(role("r"), RoleList { list: vec![role("r_updater")] });
    roles.insert(role("r_updater"), RoleList { list: vec![role("r_updater")] });
    roles.insert(role("s"), RoleList { list: vec![role("s")] });
    roles.insert(role("t"), RoleList { list: vec![] });
    let mut methods: IndexMap<MethodKey, MethodAccessibility> = index_map_new();
    methods.insert(MethodKey::new("call"), MethodAccessibility::Public);
    methods.insert(MethodKey::new("guarded"), MethodAccessibility::RoleProtected(RoleList { list: vec![role("r")] }));
    methods.insert(MethodKey::new("guarded_rs"), MethodAccessibility::RoleProtected(RoleList { list: vec![role("r"), role("s")] }));
    methods.insert(MethodKey::new("guarded_t"), MethodAccessibility::RoleProtected(RoleList { list: vec![role("t")] }));
    methods.insert(MethodKey::new("own_pkg_only"), MethodAccessibility::OwnPackageOnly);
    let is_inner = matches!(kind, BlueprintType::Inner { .. });
    BlueprintDefinitionInit {
        blueprint_type: kind,
        schema: BlueprintSchemaInit {
            state: BlueprintStateSchemaInit {
                fields: vec![FieldSchema::static_field(LocalTypeId::WellKnown(ANY_TYPE)), FieldSchema::static_field(LocalTypeId::WellKnown(ANY_TYPE))],
                collections: vec![BlueprintCollectionSchema::KeyValueStore(BlueprintKeyValueSchema {
                    key: TypeRef::Static(LocalTypeId::WellKnown(ANY_TYPE)),
                    value: TypeRef::Static(LocalTypeId::WellKnown(ANY_TYPE)),
                    allow_ownership: true,
                })],
            },
            functions: BlueprintFunctionsSchemaInit { functions },
            ..Default::default()
        },
        auth_config: AuthConfig {
            function_auth: match guarded_fn_rule {
                None => FunctionAuth::AllowAll,
                Some(rule) => FunctionAuth::AccessRules(indexmap!("run".to_string() => AccessRule::AllowAll, "guarded_fn".to_string() => rule)),
            },
            method_auth: if is_inner {
                // inner objects are never global; their methods are public (role lookups would go to the outer object)
                MethodAuthTemplate::AllowAll
            } else {
                MethodAuthTemplate::StaticRoleDefinition(StaticRoleDefinition { roles: RoleSpecification::Normal(roles), methods })
            },
        },
        ..Default::default()
    }
}

pub fn package_p() -> PackageDefinition {
    let mut blueprints = index_map_new();
    blueprints.insert(BP_A.to_string(), probe_blueprint(BlueprintType::Outer, None));
    blueprints.insert(BP_B.to_string(), probe_blueprint(BlueprintType::Outer, None));
    blueprints.insert(BP_OUTER.to_string(), probe_blueprint(BlueprintType::Outer, None));
    blueprints.insert(BP_INNER.to_string(), probe_blueprint(BlueprintType::Inner { outer_blueprint: BP_OUTER.to_string() }, None));
    blueprints.insert(BP_INNER2.to_string(), probe_blueprint(BlueprintType::Inner { outer_blueprint: BP_OUTER.to_string() }, None));
    PackageDefinition { blueprints }
}

pub fn package_q() -> PackageDefinition {
    let mut blueprints = index_map_new();
    blueprints.insert(BP_X.to_string(), probe_blueprint(BlueprintType::Outer, None));
    PackageDefinition { blueprints }
}

/// a one-blueprint package (blueprint "ProbeF") whose function `guarded_fn` is protected by `rule`
pub fn package_with_function_rule(rule: AccessRule) -> PackageDefinition {
    let mut blueprints = index_map_new();
    blueprints.insert("ProbeF".to_string(), probe_blueprint(BlueprintType::Outer, Some(rule)));
    PackageDefinition { blueprints }
}

pub fn new_probe_sim() -> (PSim, Probe) {
    let probe = Probe::new();
    (LedgerSimulatorBuilder::new().with_custom_extension(ProbeExt(probe.clone())).without_kernel_trace().without_receipt_substate_check().build(), probe)
}

pub fn probe_sim_from(snap: &Snap) -> (PSim, Probe) {
    let probe = Probe::new();
    (LedgerSimulatorBuilder::new().with_custom_extension(ProbeExt(probe.clone())).without_kernel_trace().build_from_snapshot(snap.clone()), probe)
}

/// manifest arguments of a probe call: (script bytes, node-carrying values…) — built by the caller with
/// `manifest_args!(script_bytes(&ops), bucket, address, …)`
pub fn script_bytes(ops: &[Op]) -> Vec<u8> {
    scrypto_encode(&ops.to_vec()).unwrap()
}
