//! mc-auth: serves C08 C50 C51 (one module per property).
use mc_core::Ctx;

mod c08;
mod c50;
mod c51;
mod probe;

fn main() {
    let ctx = Ctx::from_args();
    match ctx.id.as_str() {
        "C08" => c08::run(ctx),
        "C50" => c50::run(ctx),
        "C51" => c51::run(ctx),
        other => mc_core::machinery_error(&format!("mc-auth does not serve {other}")),
    }
}
