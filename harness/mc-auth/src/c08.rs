//! C08 — protected calls succeed exactly when the access rule is satisfied.
//!
//! Bounded-exhaustive enumeration of (access rule, proof placement, entry point) triples, executed as real
//! transactions, compared with a small reference evaluator of the documented semantics (DESIGN A.1).
//!
//! Sections
//!  1. `role:tx-zone`     every rule × every subset of {G×1, G×5, N#1, N{#1,#2}, signature S} in the transaction auth
//!                        zone, through the role-protected method `guarded` of component C (role "r" := rule);
//!  2. `assert:tx-zone`   the same through `assert_access_rule` executed by a Probe function;
//!  3. `owner-fallback`, `role-list`, `function`: representative rules through a method whose role is unassigned
//!                        (owner rule := rule), a method protected by the role list [r, s] (s = DenyAll), and a
//!                        package function protected by function auth;
//!  4. `chain`            representative rules × proofs in the transaction zone (T) and/or in the zone of an
//!                        intermediate component K1 (Q) × call paths (direct; via global K1; via K1 then global K2 —
//!                        barrier; via K1's owned child object) × {method of C, assert in the last frame};
//!  5. `caller`           global_caller / package_of_direct_caller rules × the caller relations;
//!  6. `simulate-signatures` representative rules + rules over a signature badge nobody signs with, previewed with
//!                        "assume all signature proofs" (every proof under the signature resources is simulated).
//!
//! Reference: zones form a forest; a call creates a zone whose parent is the caller's zone iff the call stays in
//! the same global context, and whose "global caller zone" is the caller's zone on a global context change
//! (copied otherwise). A permission is evaluated against: the callee zone's local implicit badges (global caller,
//! package of direct caller), the global caller zone and its parent chain, the callee zone's parent chain — never
//! the callee's own proofs. Require(resource) needs a proof of the resource; Require(non-fungible) a proof
//! containing the id or an implicit badge; AmountOf a *single* proof with at least the amount; AllOf/AnyOf/CountOf
//! count matching entries.
use crate::probe::*;
use mc_core::{par_for, Ctx, Level, Local};
use mc_ledger::*;
use serde_json::{json, Map};
use std::collections::BTreeSet;

// ------------------------------------------------------------------------------------------------
// reference model
// ------------------------------------------------------------------------------------------------

#[derive(Clone, Debug, PartialEq, Eq)]
struct ProofM {
    res: ResourceAddress,
    amount: Decimal,
    ids: BTreeSet<NonFungibleLocalId>,
}

#[derive(Clone, Debug, Default)]
struct Vis {
    proofs: Vec<ProofM>,
    implicit: BTreeSet<NonFungibleGlobalId>,
    /// resources under which every non-fungible proof is simulated (preview flag)
    simulated: BTreeSet<ResourceAddress>,
}

fn atom_ok(v: &Vis, x: &ResourceOrNonFungible) -> bool {
    match x {
        ResourceOrNonFungible::Resource(r) => v.proofs.iter().any(|p| p.res == *r),
        ResourceOrNonFungible::NonFungible(g) => {
            v.implicit.contains(g) || v.simulated.contains(&g.resource_address()) || v.proofs.iter().any(|p| p.res == g.resource_address() && p.ids.contains(g.local_id()))
        }
    }
}

/// `summed`: the alternative reading of AmountOf (sum over all visible proofs) — used only to detect the
/// statement-silent cases.
fn basic_ok(v: &Vis, b: &BasicRequirement, summed: bool) -> bool {
    match b {
        BasicRequirement::Require(x) => atom_ok(v, x),
        BasicRequirement::AmountOf(a, r) => {
            if summed {
                let mut sum = Decimal::ZERO;
                let mut any = false;
                for p in v.proofs.iter().filter(|p| p.res == *r) {
                    sum = sum.checked_add(p.amount).unwrap();
                    any = true;
                }
                any && sum >= *a
            } else {
                v.proofs.iter().any(|p| p.res == *r && p.amount >= *a)
            }
        }
        BasicRequirement::AllOf(l) => l.iter().all(|x| atom_ok(v, x)),
        BasicRequirement::AnyOf(l) => l.iter().any(|x| atom_ok(v, x)),
        BasicRequirement::CountOf(c, l) => l.iter().filter(|x| atom_ok(v, x)).count() >= *c as usize,
    }
}

fn composite_ok(v: &Vis, c: &CompositeRequirement, summed: bool) -> bool {
    match c {
        CompositeRequirement::BasicRequirement(b) => basic_ok(v, b, summed),
        CompositeRequirement::AnyOf(l) => l.iter().any(|x| composite_ok(v, x, summed)),
        CompositeRequirement::AllOf(l) => l.iter().all(|x| composite_ok(v, x, summed)),
    }
}

fn rule_ok(v: &Vis, r: &AccessRule, summed: bool) -> bool {
    match r {
        AccessRule::AllowAll => true,
        AccessRule::DenyAll => false,
        AccessRule::Protected(c) => composite_ok(v, c, summed),
    }
}

/// zone forest of one call path (index 0 = the transaction processor's zone)
#[derive(Clone, Debug, Default)]
struct ZoneM {
    proofs: Vec<ProofM>,
    /// signature badges (root zone only)
    implicit: BTreeSet<NonFungibleGlobalId>,
    /// "simulate every proof under these resources" (root zone only)
    simulated: BTreeSet<ResourceAddress>,
    local_implicit: BTreeSet<NonFungibleGlobalId>,
    parent: Option<usize>,
    gc_zone: Option<usize>,
    /// the global-caller badge this zone carries (copied to same-context callees)
    gc_badge: Option<NonFungibleGlobalId>,
}

#[derive(Clone, Debug)]
struct CallerM {
    /// badge of the caller's global ancestor (component address) or blueprint (function)
    global_badge: NonFungibleGlobalId,
    package: PackageAddress,
}

struct Zones(Vec<ZoneM>);

impl Zones {
    /// a call from the frame owning zone `from` made by `caller`; returns the callee's zone
    fn call(&mut self, from: usize, caller: &CallerM, global_context_change: bool) -> usize {
        let (parent, gc_zone, gc_badge) = if global_context_change {
            (None, Some(from), Some(caller.global_badge.clone()))
        } else {
            (Some(from), self.0[from].gc_zone, self.0[from].gc_badge.clone())
        };
        let mut local = BTreeSet::new();
        if let Some(b) = &gc_badge {
            local.insert(b.clone());
        }
        local.insert(NonFungibleGlobalId::package_of_direct_caller_badge(caller.package));
        self.0.push(ZoneM { proofs: vec![], implicit: BTreeSet::new(), simulated: BTreeSet::new(), local_implicit: local, parent, gc_zone, gc_badge });
        self.0.len() - 1
    }
    fn chain(&self, mut z: Option<usize>, v: &mut Vis) {
        while let Some(i) = z {
            v.proofs.extend(self.0[i].proofs.iter().cloned());
            v.implicit.extend(self.0[i].implicit.iter().cloned());
            v.simulated.extend(self.0[i].simulated.iter().cloned());
            z = self.0[i].parent;
        }
    }
    /// what a permission check of the frame owning zone `z` sees
    fn visible(&self, z: usize) -> Vis {
        let mut v = Vis::default();
        v.implicit.extend(self.0[z].local_implicit.iter().cloned());
        self.chain(self.0[z].gc_zone, &mut v);
        self.chain(self.0[z].parent, &mut v);
        v
    }
}

// ------------------------------------------------------------------------------------------------
// world
// ------------------------------------------------------------------------------------------------

#[derive(Clone, Copy, Debug, PartialEq, Eq, PartialOrd, Ord)]
enum Atom {
    G1,
    G5,
    Nf1,
    Nf12,
    Sig,
}
const ATOMS: [Atom; 5] = [Atom::G1, Atom::G5, Atom::Nf1, Atom::Nf12, Atom::Sig];

struct W08 {
    snap: Snap,
    acct: ComponentAddress,
    g: ResourceAddress,
    nf: ResourceAddress,
    pk_s: Secp256k1PublicKey,
    sig_s: NonFungibleGlobalId,
    sig_t: NonFungibleGlobalId,
    pkg_p: PackageAddress,
    pkg_q: PackageAddress,
    c: ComponentAddress,
    k1: ComponentAddress,
    k2: ComponentAddress,
    /// packages whose `ProbeF::guarded_fn` is protected by rep rule i
    fn_pkgs: Vec<PackageAddress>,
}

fn nfid(i: u64) -> NonFungibleLocalId {
    NonFungibleLocalId::integer(i)
}

fn mb(w_acct: ComponentAddress) -> ManifestBuilder {
    ManifestBuilder::new().lock_fee(w_acct, 50)
}

fn build_world(rep_rules_for_functions: &dyn Fn(&W08) -> Vec<AccessRule>) -> W08 {
    let (mut sim, _probe) = new_probe_sim();
    let acct = sim.new_account_advanced(OwnerRole::Fixed(AccessRule::AllowAll));
    for _ in 0..3 {
        sim.load_account_from_faucet(acct);
    }
    let (pk_s, _) = sim.new_key_pair();
    let (pk_t, _) = sim.new_key_pair();
    let g = sim.create_freely_mintable_and_burnable_fungible_resource(OwnerRole::None, Some(dec!(100)), 0, acct);
    let nf = sim.create_freely_mintable_and_burnable_non_fungible_resource(
        OwnerRole::None,
        NonFungibleIdType::Integer,
        Some(vec![
            (nfid(1), NfData { name: "one".into(), level: 1 }),
            (nfid(2), NfData { name: "two".into(), level: 2 }),
            (nfid(3), NfData { name: "three".into(), level: 3 }),
        ]),
        acct,
    );
    let pkg_p = sim.publish_native_package(PROBE_P, package_p());
    let pkg_q = sim.publish_native_package(PROBE_Q, package_q());
    let new_component = |sim: &mut PSim, pkg: PackageAddress, bp: &str, pre: Vec<Op>, cfg: GlobalizeCfg| -> ComponentAddress {
        let mut ops = vec![Op::NewObject { bp: bp.to_string(), lock0: false }];
        ops.extend(pre);
        ops.push(Op::Globalize { node: N::Reg(0), reservation: None, cfg });
        let m = ManifestBuilder::new().lock_fee_from_faucet().call_function(pkg, bp, "run", manifest_args!(script_bytes(&ops))).build();
        sim.execute_manifest(m, vec![]).expect_commit_success().new_component_addresses()[0]
    };
    // C: the protected target. r is (re)assigned per rule (its updater is AllowAll); s = DenyAll; t unassigned;
    // the owner rule is (re)assigned by the component's own code (updater = Object).
    let mut cfg_c = GlobalizeCfg::simple(OwnerRole::Updatable(AccessRule::DenyAll));
    cfg_c.owner_updater_object = true;
    cfg_c.main_roles = vec![
        ("r".into(), Some(AccessRule::AllowAll)),
        ("r_updater".into(), Some(AccessRule::AllowAll)),
        ("s".into(), Some(AccessRule::DenyAll)),
    ];
    let c = new_component(&mut sim, pkg_p, BP_A, vec![], cfg_c);
    // K1: an intermediate global component (package P) owning a child object (blueprint ProbeB) in field 0
    let pre_k1 = vec![
        Op::NewObject { bp: BP_B.to_string(), lock0: false },
        Op::CallProbeMethod {
            recv: N::Reg(0),
            method: "call".into(),
            script: vec![Op::OpenField { obj: 0, idx: 0, mutable: true }, Op::FieldWrite(0, Val::Own(N::Arg(0))), Op::FieldClose(0)],
            pass: vec![Pass::Own(N::Reg(1))],
        },
    ];
    let k1 = new_component(&mut sim, pkg_p, BP_A, pre_k1, GlobalizeCfg::simple(OwnerRole::None));
    // K2: a second intermediate global component, other package
    let k2 = new_component(&mut sim, pkg_q, BP_X, vec![], GlobalizeCfg::simple(OwnerRole::None));
    let mut w = W08 {
        snap: sim.create_snapshot(),
        acct,
        g,
        nf,
        pk_s,
        sig_s: NonFungibleGlobalId::from_public_key(&pk_s),
        sig_t: NonFungibleGlobalId::from_public_key(&pk_t),
        pkg_p,
        pkg_q,
        c,
        k1,
        k2,
        fn_pkgs: vec![],
    };
    for rule in rep_rules_for_functions(&w) {
        w.fn_pkgs.push(sim.publish_native_package(PROBE_P, package_with_function_rule(rule)));
    }
    w.snap = sim.create_snapshot();
    w
}

// ------------------------------------------------------------------------------------------------
// rule alphabet
// ------------------------------------------------------------------------------------------------

struct Alphabet {
    /// all basic requirements
    basics: Vec<BasicRequirement>,
    /// representative basics (spanning the kinds), used for composites / secondary entry points
    reps: Vec<BasicRequirement>,
}

fn alphabet(w: &W08) -> Alphabet {
    use ResourceOrNonFungible as X;
    let rg = X::Resource(w.g);
    let rn = X::Resource(w.nf);
    let n = |i: u64| X::NonFungible(NonFungibleGlobalId::new(w.nf, nfid(i)));
    let s = X::NonFungible(w.sig_s.clone());
    let t = X::NonFungible(w.sig_t.clone());
    let mut basics = vec![];
    for x in [rg.clone(), rn.clone(), n(1), n(2), n(3), s.clone(), t.clone()] {
        basics.push(BasicRequirement::Require(x));
    }
    for a in [1u32, 2, 5, 6] {
        basics.push(BasicRequirement::AmountOf(Decimal::from(a), w.g));
    }
    for a in [1u32, 2, 3] {
        basics.push(BasicRequirement::AmountOf(Decimal::from(a), w.nf));
    }
    // lists over 5 entries (n(3) is never provable)
    let entries = [rg.clone(), n(1), n(2), s.clone(), n(3)];
    for i in 0..entries.len() {
        basics.push(BasicRequirement::AllOf(vec![entries[i].clone()]));
        basics.push(BasicRequirement::AnyOf(vec![entries[i].clone()]));
        for j in 0..entries.len() {
            if i != j {
                basics.push(BasicRequirement::AllOf(vec![entries[i].clone(), entries[j].clone()]));
                basics.push(BasicRequirement::AnyOf(vec![entries[i].clone(), entries[j].clone()]));
            }
        }
    }
    // count-of over lists of 2–3 distinct entries, both orders, counts 0..=3
    for i in 0..entries.len() {
        for j in (i + 1)..entries.len() {
            let mut lists = vec![vec![entries[i].clone(), entries[j].clone()]];
            for k in (j + 1)..entries.len() {
                lists.push(vec![entries[i].clone(), entries[j].clone(), entries[k].clone()]);
            }
            for l in lists {
                let mut rev = l.clone();
                rev.reverse();
                for c in 0..=3u8 {
                    basics.push(BasicRequirement::CountOf(c, l.clone()));
                    basics.push(BasicRequirement::CountOf(c, rev.clone()));
                }
            }
        }
    }
    let reps = vec![
        BasicRequirement::Require(rg.clone()),
        BasicRequirement::Require(n(1)),
        BasicRequirement::Require(n(2)),
        BasicRequirement::Require(s.clone()),
        BasicRequirement::Require(n(3)),
        BasicRequirement::AmountOf(dec!(5), w.g),
        BasicRequirement::AmountOf(dec!(2), w.nf),
        BasicRequirement::AllOf(vec![rg.clone(), s.clone()]),
        BasicRequirement::AnyOf(vec![n(2), n(3)]),
        BasicRequirement::CountOf(2, vec![rg.clone(), n(2), s.clone()]),
        BasicRequirement::CountOf(2, vec![n(3), n(1), n(2)]),
        BasicRequirement::CountOf(3, vec![rg.clone(), n(1), s.clone()]),
    ];
    Alphabet { basics, reps }
}

fn b(x: &BasicRequirement) -> CompositeRequirement {
    CompositeRequirement::BasicRequirement(x.clone())
}

/// all rules of the primary sections
fn rules(a: &Alphabet, quick: bool) -> Vec<AccessRule> {
    let mut out = vec![AccessRule::AllowAll, AccessRule::DenyAll];
    for x in &a.basics {
        out.push(AccessRule::Protected(b(x)));
    }
    let any = |l: Vec<CompositeRequirement>| CompositeRequirement::AnyOf(l);
    let all = |l: Vec<CompositeRequirement>| CompositeRequirement::AllOf(l);
    // depth 1: one or two children over the representatives (quick) / over representatives × all basics (thorough)
    let d1: Vec<&BasicRequirement> = a.reps.iter().collect();
    let d1_second: Vec<&BasicRequirement> = if quick { a.reps.iter().collect() } else { a.basics.iter().step_by(3).collect() };
    for x in &d1 {
        out.push(AccessRule::Protected(any(vec![b(x)])));
        out.push(AccessRule::Protected(all(vec![b(x)])));
        for y in &d1_second {
            if x != y {
                out.push(AccessRule::Protected(any(vec![b(x), b(y)])));
                out.push(AccessRule::Protected(all(vec![b(x), b(y)])));
                if !quick {
                    out.push(AccessRule::Protected(any(vec![b(y), b(x)])));
                    out.push(AccessRule::Protected(all(vec![b(y), b(x)])));
                }
            }
        }
    }
    // depth 2: op1([op2([x, y]), z]) and op1([z, op2([x, y])])
    let d2: Vec<&BasicRequirement> = if quick { a.reps.iter().take(4).collect() } else { a.reps.iter().take(9).collect() };
    for x in &d2 {
        for y in &d2 {
            if x == y {
                continue;
            }
            for z in &d2 {
                for inner_any in [true, false] {
                    let inner = if inner_any { any(vec![b(x), b(y)]) } else { all(vec![b(x), b(y)]) };
                    out.push(AccessRule::Protected(any(vec![inner.clone(), b(z)])));
                    out.push(AccessRule::Protected(all(vec![inner.clone(), b(z)])));
                    out.push(AccessRule::Protected(any(vec![b(z), inner.clone()])));
                    out.push(AccessRule::Protected(all(vec![b(z), inner.clone()])));
                }
            }
        }
    }
    out
}

/// representative rules for the secondary entry points and the chain section
fn rep_rules(a: &Alphabet) -> Vec<AccessRule> {
    let mut out = vec![AccessRule::AllowAll, AccessRule::DenyAll];
    for x in &a.reps {
        out.push(AccessRule::Protected(b(x)));
    }
    let r = &a.reps;
    out.push(AccessRule::Protected(CompositeRequirement::AnyOf(vec![b(&r[1]), b(&r[2])])));
    out.push(AccessRule::Protected(CompositeRequirement::AllOf(vec![b(&r[0]), b(&r[2])])));
    out.push(AccessRule::Protected(CompositeRequirement::AllOf(vec![b(&r[3]), CompositeRequirement::AnyOf(vec![b(&r[2]), b(&r[5])])])));
    out.push(AccessRule::Protected(CompositeRequirement::AnyOf(vec![b(&r[4]), CompositeRequirement::AllOf(vec![b(&r[1]), b(&r[2])])])));
    out
}

// ------------------------------------------------------------------------------------------------
// execution
// ------------------------------------------------------------------------------------------------

fn proof_of(w: &W08, a: Atom) -> Option<ProofM> {
    let ids = |l: &[u64]| l.iter().map(|i| nfid(*i)).collect::<BTreeSet<_>>();
    match a {
        Atom::G1 => Some(ProofM { res: w.g, amount: dec!(1), ids: BTreeSet::new() }),
        Atom::G5 => Some(ProofM { res: w.g, amount: dec!(5), ids: BTreeSet::new() }),
        Atom::Nf1 => Some(ProofM { res: w.nf, amount: dec!(1), ids: ids(&[1]) }),
        Atom::Nf12 => Some(ProofM { res: w.nf, amount: dec!(2), ids: ids(&[1, 2]) }),
        Atom::Sig => None,
    }
}

/// manifest prefix: fee + the proofs of `atoms` pushed to the transaction auth zone
fn with_tx_proofs(w: &W08, atoms: &[Atom]) -> ManifestBuilder {
    let mut m = mb(w.acct);
    for a in atoms {
        m = match a {
            Atom::G1 => m.create_proof_from_account_of_amount(w.acct, w.g, dec!(1)),
            Atom::G5 => m.create_proof_from_account_of_amount(w.acct, w.g, dec!(5)),
            Atom::Nf1 => m.create_proof_from_account_of_non_fungibles(w.acct, w.nf, [nfid(1)]),
            Atom::Nf12 => m.create_proof_from_account_of_non_fungibles(w.acct, w.nf, [nfid(1), nfid(2)]),
            Atom::Sig => m,
        };
    }
    m
}

fn tx_zone(w: &W08, atoms: &[Atom]) -> ZoneM {
    let mut z = ZoneM::default();
    for a in atoms {
        match proof_of(w, *a) {
            Some(p) => z.proofs.push(p),
            None => {
                z.implicit.insert(w.sig_s.clone());
            }
        }
    }
    z
}

fn signers(w: &W08, atoms: &[Atom]) -> Vec<NonFungibleGlobalId> {
    if atoms.contains(&Atom::Sig) {
        vec![w.sig_s.clone()]
    } else {
        vec![]
    }
}

fn tx_processor_caller() -> CallerM {
    CallerM {
        global_badge: NonFungibleGlobalId::global_caller_badge(GlobalCaller::PackageBlueprint(BlueprintId::new(&TRANSACTION_PROCESSOR_PACKAGE, TRANSACTION_PROCESSOR_BLUEPRINT))),
        package: TRANSACTION_PROCESSOR_PACKAGE,
    }
}

#[derive(Clone, Copy, Debug, PartialEq, Eq)]
enum Outcome {
    Authorized,
    /// AuthError::Unauthorized for the protected callee / AssertAccessRuleFailed for the assertion
    Denied,
}

fn classify(receipt: &TransactionReceipt, assert_entry: bool) -> Result<Outcome, String> {
    use radix_engine::errors::{RuntimeError, SystemError, SystemModuleError};
    use radix_engine::system::system_modules::auth::AuthError;
    if is_success(receipt) {
        return Ok(Outcome::Authorized);
    }
    if let TransactionResult::Commit(c) = &receipt.result {
        if let TransactionOutcome::Failure(e) = &c.outcome {
            match e {
                RuntimeError::SystemError(SystemError::AssertAccessRuleFailed) if assert_entry => return Ok(Outcome::Denied),
                RuntimeError::SystemModuleError(SystemModuleError::AuthError(AuthError::Unauthorized(u))) if !assert_entry && u.fn_identifier.ident.starts_with("guarded") => {
                    return Ok(Outcome::Denied)
                }
                _ => {}
            }
        }
    }
    Err(mc_core::truncate(&format!("{}: {}", receipt_class(receipt), failure_text(receipt)), 300))
}

fn judge(l: &mut Local, section: &str, rule: &AccessRule, vis: &Vis, got: Result<Outcome, String>, case: impl Fn() -> serde_json::Value) {
    l.eval();
    let per_proof = rule_ok(vis, rule, false);
    let summed = rule_ok(vis, rule, true);
    let got = match got {
        Ok(g) => g,
        Err(other) => {
            // neither success nor the authorization failure of the entry point: harness trouble, reported after the sweep
            l.class(&format!("{section}:other-failure"));
            l.class(&format!("detail:{section}:{}:other-failure", mc_core::truncate(&other, 140)));
            return;
        }
    };
    if per_proof != summed {
        // AmountOf reachable only by adding up several proofs: the statement is silent
        l.info(&format!("{section}:amount-only-by-sum:{got:?}"));
        l.class(&format!("{section}:not-judged"));
        return;
    }
    let trivial = !matches!(rule, AccessRule::Protected(_));
    match (per_proof, got) {
        (true, Outcome::Authorized) => l.class(&format!("{section}:authorized{}", if trivial { "(trivial)" } else { "" })),
        (false, Outcome::Denied) => l.class(&format!("{section}:denied{}", if trivial { "(trivial)" } else { "" })),
        (true, Outcome::Denied) => l.violation(format!("{section}:denied-but-satisfied:{}", rule_kind(rule)), format!("rule {rule:?} is satisfied by the visible proofs but the call was refused"), case()),
        (false, Outcome::Authorized) => l.violation(format!("{section}:authorized-but-unsatisfied:{}", rule_kind(rule)), format!("rule {rule:?} is not satisfied by the visible proofs but the call was authorized"), case()),
    }
    l.sample(|| {
        let mut c = case();
        c["expected_authorized"] = json!(per_proof);
        c
    });
}

fn rule_kind(r: &AccessRule) -> String {
    fn bk(b: &BasicRequirement) -> &'static str {
        match b {
            BasicRequirement::Require(_) => "require",
            BasicRequirement::AmountOf(..) => "amount-of",
            BasicRequirement::CountOf(..) => "count-of",
            BasicRequirement::AllOf(_) => "all-of",
            BasicRequirement::AnyOf(_) => "any-of",
        }
    }
    fn ck(c: &CompositeRequirement, depth: usize) -> String {
        match c {
            CompositeRequirement::BasicRequirement(b) => bk(b).to_string(),
            CompositeRequirement::AnyOf(l) => format!("any[{}]", if depth > 1 { "…".to_string() } else { l.iter().map(|x| ck(x, depth + 1)).collect::<Vec<_>>().join(",") }),
            CompositeRequirement::AllOf(l) => format!("all[{}]", if depth > 1 { "…".to_string() } else { l.iter().map(|x| ck(x, depth + 1)).collect::<Vec<_>>().join(",") }),
        }
    }
    match r {
        AccessRule::AllowAll => "allow-all".into(),
        AccessRule::DenyAll => "deny-all".into(),
        AccessRule::Protected(c) => ck(c, 0),
    }
}

fn subsets<T: Copy>(items: &[T]) -> Vec<Vec<T>> {
    (0..(1u32 << items.len())).map(|m| items.iter().enumerate().filter(|(i, _)| m & (1 << i) != 0).map(|(_, x)| *x).collect()).collect()
}

fn run_tx(sim: &mut PSim, probe: &Probe, m: TransactionManifestV1, proofs: Vec<NonFungibleGlobalId>) -> Result<TransactionReceipt, String> {
    probe.take_log();
    exec(sim, m, proofs)
}

fn must_commit(sim: &mut PSim, probe: &Probe, m: TransactionManifestV1, what: &str) {
    match run_tx(sim, probe, m, vec![]) {
        Ok(r) if is_success(&r) => {}
        Ok(r) => mc_core::machinery_error(&format!("C08 setup transaction '{what}' failed: {}", failure_text(&r))),
        Err(p) => mc_core::machinery_error(&format!("C08 setup transaction '{what}' panicked: {p}")),
    }
}

fn set_role_r(w: &W08, sim: &mut PSim, probe: &Probe, rule: &AccessRule) {
    must_commit(sim, probe, mb(w.acct).set_role(w.c, ModuleId::Main, "r", rule.clone()).build(), "set role r");
}

fn set_owner_rule(w: &W08, sim: &mut PSim, probe: &Probe, rule: &AccessRule) {
    let args = scrypto_encode(&RoleAssignmentSetOwnerInput { rule: rule.clone() }).unwrap();
    let ops = [Op::CallRaw { recv: N::Actor(2), module: Some(AttachedModuleId::RoleAssignment), method: ROLE_ASSIGNMENT_SET_OWNER_IDENT.into(), args }];
    must_commit(sim, probe, mb(w.acct).call_method(w.c, "call", manifest_args!(script_bytes(&ops), w.g, w.nf)).build(), "set owner rule through the component's own code");
}

#[derive(Clone, Copy, Debug, PartialEq, Eq)]
enum Entry {
    Role,
    Assert,
    OwnerFallback,
    RoleList,
    Function,
}

#[derive(Clone, Copy, Debug, PartialEq, Eq)]
enum Path {
    /// manifest → check
    Direct,
    /// manifest → function ProbeA::run → check
    ViaFn,
    /// manifest → K1 (global) → check
    ViaK1,
    /// manifest → K1 → K2 (global, other package) → check
    ViaK1K2,
    /// manifest → K1 → child object owned by K1 → check
    ViaK1Child,
}

#[derive(Clone, Debug)]
enum Work {
    /// sections 1–3: one rule, all tx-zone placements, one entry point
    TxZone { entry: Entry, rule: usize, fn_pkg: Option<usize> },
    /// section 4/5: one rule (index into the given list), all (path, check, T, Q) combinations
    Chain { rule: usize, caller_section: bool },
    /// section 6: previews with "assume all signature proofs" (= simulate every proof under the signature resources)
    Simulate { rule: usize },
}

#[derive(Clone, Copy, Debug, PartialEq, Eq, PartialOrd, Ord)]
enum QAtom {
    G5,
    Nf2,
}

/// script of the last frame: either assert the rule or call C.guarded
fn final_ops(w: &W08, rule: &AccessRule, assert: bool, c_arg: N) -> Vec<Op> {
    if assert {
        vec![Op::AssertRule(rule.clone())]
    } else {
        let _ = w;
        vec![Op::CallProbeMethod { recv: c_arg, method: "guarded".into(), script: vec![], pass: vec![] }]
    }
}

/// Build the manifest + the reference zones for a chain scenario. Node arguments of K1: [C, K2, (bucket G)?, (bucket Nf)?].
fn chain_case(w: &W08, rule: &AccessRule, path: Path, assert: bool, t: &[Atom], q: &[QAtom]) -> (TransactionManifestV1, Vis) {
    // ---------- reference
    let mut zones = Zones(vec![tx_zone(w, t)]);
    let txp = tx_processor_caller();
    let k1_caller = CallerM { global_badge: NonFungibleGlobalId::global_caller_badge(GlobalCaller::GlobalObject(w.k1.into())), package: w.pkg_p };
    let k2_caller = CallerM { global_badge: NonFungibleGlobalId::global_caller_badge(GlobalCaller::GlobalObject(w.k2.into())), package: w.pkg_q };
    let fn_caller = CallerM { global_badge: NonFungibleGlobalId::global_caller_badge(GlobalCaller::PackageBlueprint(BlueprintId::new(&w.pkg_p, BP_A))), package: w.pkg_p };
    let q_proofs: Vec<ProofM> = q
        .iter()
        .map(|a| match a {
            QAtom::G5 => ProofM { res: w.g, amount: dec!(5), ids: BTreeSet::new() },
            QAtom::Nf2 => ProofM { res: w.nf, amount: dec!(1), ids: [nfid(2)].into_iter().collect() },
        })
        .collect();
    // (zone of the last frame, the caller description of the last frame)
    let (last_zone, last_caller) = match path {
        Path::Direct => (0, txp.clone()),
        Path::ViaFn => (zones.call(0, &txp, true), fn_caller.clone()),
        Path::ViaK1 | Path::ViaK1K2 | Path::ViaK1Child => {
            let z1 = zones.call(0, &txp, true);
            zones.0[z1].proofs = q_proofs.clone();
            match path {
                Path::ViaK1 => (z1, k1_caller.clone()),
                Path::ViaK1K2 => (zones.call(z1, &k1_caller, true), k2_caller.clone()),
                // the child is an owned object of K1: same global context; its global ancestor is K1, its package P
                _ => (zones.call(z1, &k1_caller, false), k1_caller.clone()),
            }
        }
    };
    let vis = if assert {
        if path == Path::Direct {
            // no frame to assert in: the Direct path asserts inside a function frame; handled by ViaFn
            Vis::default()
        } else {
            zones.visible(last_zone)
        }
    } else {
        let zc = zones.call(last_zone, &last_caller, true);
        zones.visible(zc)
    };

    // ---------- manifest
    let mut m = with_tx_proofs(w, t);
    let manifest = match path {
        Path::Direct => m.call_method(w.c, "guarded", manifest_args!(script_bytes(&[]))).build(),
        Path::ViaFn => {
            let ops = final_ops(w, rule, assert, N::Arg(0));
            m.call_function(w.pkg_p, BP_A, "run", manifest_args!(script_bytes(&ops), w.c, w.g, w.nf)).build()
        }
        _ => {
            // K1 script: push Q proofs, then continue along the path
            let mut k1_ops: Vec<Op> = vec![];
            let mut bucket_args: Vec<&str> = vec![];
            let mut next_arg = 4u8; // Arg(0) = C, Arg(1) = K2, Arg(2) = G, Arg(3) = NF (resource references used by the rule)
            for a in q {
                match a {
                    QAtom::G5 => {
                        m = m.withdraw_from_account(w.acct, w.g, dec!(5)).take_all_from_worktop(w.g, "bg");
                        bucket_args.push("bg");
                    }
                    QAtom::Nf2 => {
                        m = m.withdraw_non_fungibles_from_account(w.acct, w.nf, [nfid(2)]).take_all_from_worktop(w.nf, "bn");
                        bucket_args.push("bn");
                    }
                }
                k1_ops.push(Op::CallRawReturningNode { recv: N::Arg(next_arg), method: "create_proof_of_all".into(), args: scrypto_encode(&()).unwrap() });
                let reg = (k1_ops.iter().filter(|o| matches!(o, Op::CallRawReturningNode { .. })).count() - 1) as u8;
                k1_ops.push(Op::CallRawWithNode { recv: N::Actor(8), method: "push".into(), node: Pass::Own(N::Reg(reg)) });
                next_arg += 1;
            }
            let nregs = q.len() as u8;
            match path {
                Path::ViaK1 => k1_ops.extend(final_ops(w, rule, assert, N::Arg(0))),
                Path::ViaK1K2 => k1_ops.push(Op::CallProbeMethod { recv: N::Arg(1), method: "call".into(), script: final_ops(w, rule, assert, N::Arg(0)), pass: vec![Pass::Ref(N::Arg(0)), Pass::Ref(N::Arg(2)), Pass::Ref(N::Arg(3))] }),
                _ => {
                    k1_ops.push(Op::OpenField { obj: 0, idx: 0, mutable: false });
                    k1_ops.push(Op::FieldReadOwn(0));
                    k1_ops.push(Op::CallProbeMethod { recv: N::Reg(nregs), method: "call".into(), script: final_ops(w, rule, assert, N::Arg(0)), pass: vec![Pass::Ref(N::Arg(0)), Pass::Ref(N::Arg(2)), Pass::Ref(N::Arg(3))] });
                    k1_ops.push(Op::FieldClose(0));
                }
            }
            // give the buckets back (their proofs are dropped first)
            k1_ops.push(Op::CallRaw { recv: N::Actor(8), module: None, method: "drop_proofs".into(), args: scrypto_encode(&()).unwrap() });
            k1_ops.push(Op::Return((0..q.len() as u8).map(|i| N::Arg(4 + i)).collect()));
            let bytes = script_bytes(&k1_ops);
            let (c, k2, k1, g, nf) = (w.c, w.k2, w.k1, w.g, w.nf);
            let m = m.with_name_lookup(|b, lookup| match bucket_args.len() {
                0 => b.call_method(k1, "call", manifest_args!(bytes, c, k2, g, nf)),
                1 => b.call_method(k1, "call", manifest_args!(bytes, c, k2, g, nf, lookup.bucket(bucket_args[0]))),
                _ => b.call_method(k1, "call", manifest_args!(bytes, c, k2, g, nf, lookup.bucket(bucket_args[0]), lookup.bucket(bucket_args[1]))),
            });
            m.deposit_entire_worktop(w.acct).build()
        }
    };
    (manifest, vis)
}

fn caller_rules(w: &W08) -> Vec<AccessRule> {
    let gc = |c: GlobalCaller| AccessRule::Protected(CompositeRequirement::BasicRequirement(BasicRequirement::Require(ResourceOrNonFungible::NonFungible(NonFungibleGlobalId::global_caller_badge(c)))));
    let pk = |p: PackageAddress| AccessRule::Protected(CompositeRequirement::BasicRequirement(BasicRequirement::Require(ResourceOrNonFungible::NonFungible(NonFungibleGlobalId::package_of_direct_caller_badge(p)))));
    vec![
        gc(GlobalCaller::GlobalObject(w.k1.into())),
        gc(GlobalCaller::GlobalObject(w.k2.into())),
        gc(GlobalCaller::GlobalObject(w.c.into())),
        gc(GlobalCaller::PackageBlueprint(BlueprintId::new(&w.pkg_p, BP_A))),
        gc(GlobalCaller::PackageBlueprint(BlueprintId::new(&TRANSACTION_PROCESSOR_PACKAGE, TRANSACTION_PROCESSOR_BLUEPRINT))),
        pk(w.pkg_p),
        pk(w.pkg_q),
        pk(TRANSACTION_PROCESSOR_PACKAGE),
    ]
}

pub fn run(ctx: Ctx) -> ! {
    let quick = ctx.quick();
    let w = build_world(&|w| rep_rules(&alphabet(w)));
    let alpha = alphabet(&w);
    let all_rules = rules(&alpha, quick);
    let reps = rep_rules(&alpha);
    let callers = caller_rules(&w);
    let placements = subsets(&ATOMS);
    let t_sets = subsets(&[Atom::G5, Atom::Nf1, Atom::Sig]);
    let q_sets = subsets(&[QAtom::G5, QAtom::Nf2]);

    let mut work: Vec<Work> = vec![];
    for i in 0..all_rules.len() {
        work.push(Work::TxZone { entry: Entry::Role, rule: i, fn_pkg: None });
        work.push(Work::TxZone { entry: Entry::Assert, rule: i, fn_pkg: None });
    }
    for i in 0..reps.len() {
        work.push(Work::TxZone { entry: Entry::OwnerFallback, rule: i, fn_pkg: None });
        work.push(Work::TxZone { entry: Entry::RoleList, rule: i, fn_pkg: None });
        work.push(Work::TxZone { entry: Entry::Function, rule: i, fn_pkg: Some(i) });
        work.push(Work::Chain { rule: i, caller_section: false });
    }
    for i in 0..callers.len() {
        work.push(Work::Chain { rule: i, caller_section: true });
    }
    // rules for the simulation section: the representatives + rules over a signature badge nobody signs with
    let mut sim_rules = reps.clone();
    {
        use ResourceOrNonFungible as X;
        let t = X::NonFungible(w.sig_t.clone());
        let s_ = X::NonFungible(w.sig_s.clone());
        let n3 = X::NonFungible(NonFungibleGlobalId::new(w.nf, nfid(3)));
        let rg = X::Resource(w.g);
        for x in [
            BasicRequirement::Require(t.clone()),
            BasicRequirement::AllOf(vec![rg.clone(), t.clone()]),
            BasicRequirement::AllOf(vec![t.clone(), n3.clone()]),
            BasicRequirement::AnyOf(vec![n3.clone(), t.clone()]),
            BasicRequirement::CountOf(2, vec![t.clone(), s_.clone(), n3.clone()]),
            BasicRequirement::CountOf(3, vec![t.clone(), s_.clone(), n3.clone()]),
        ] {
            sim_rules.push(AccessRule::Protected(b(&x)));
        }
    }
    for i in 0..sim_rules.len() {
        work.push(Work::Simulate { rule: i });
    }

    let replay_case = ctx.read_replay_case();
    if let Some(case) = &replay_case {
        // replay = re-run the work item recorded in the case
        let idx = case.get("work").and_then(|x| x.as_u64()).unwrap_or(0) as usize;
        work = vec![work.get(idx).cloned().unwrap_or_else(|| mc_core::machinery_error("replay: bad work index"))];
    }
    let work_indexed: Vec<(usize, Work)> = work.into_iter().enumerate().collect();

    par_for(&ctx, &work_indexed, |(wi, item), l| {
        let (mut sim, probe) = probe_sim_from(&w.snap);
        match item {
            Work::TxZone { entry, rule, fn_pkg } => {
                let (section, rule) = match entry {
                    Entry::Role => ("role:tx-zone", &all_rules[*rule]),
                    Entry::Assert => ("assert:tx-zone", &all_rules[*rule]),
                    Entry::OwnerFallback => ("owner-fallback", &reps[*rule]),
                    Entry::RoleList => ("role-list", &reps[*rule]),
                    Entry::Function => ("function", &reps[*rule]),
                };
                match entry {
                    Entry::Role | Entry::RoleList => set_role_r(&w, &mut sim, &probe, rule),
                    Entry::OwnerFallback => set_owner_rule(&w, &mut sim, &probe, rule),
                    _ => {}
                }
                for p in &placements {
                    let m = with_tx_proofs(&w, p);
                    let m = match entry {
                        Entry::Role => m.call_method(w.c, "guarded", manifest_args!(script_bytes(&[]))),
                        Entry::RoleList => m.call_method(w.c, "guarded_rs", manifest_args!(script_bytes(&[]))),
                        Entry::OwnerFallback => m.call_method(w.c, "guarded_t", manifest_args!(script_bytes(&[]))),
                        Entry::Assert => m.call_function(w.pkg_p, BP_A, "run", manifest_args!(script_bytes(&[Op::AssertRule(rule.clone())]), w.g, w.nf)),
                        Entry::Function => m.call_function(w.fn_pkgs[fn_pkg.unwrap()], "ProbeF", "guarded_fn", manifest_args!(script_bytes(&[]))),
                    }
                    .build();
                    // reference: the callee's zone is created by a global context change from the transaction processor
                    let mut zones = Zones(vec![tx_zone(&w, p)]);
                    let zc = zones.call(0, &tx_processor_caller(), true);
                    let vis = zones.visible(zc);
                    let got = match run_tx(&mut sim, &probe, m, signers(&w, p)) {
                        Ok(r) => classify(&r, *entry == Entry::Assert),
                        Err(pn) => Err(format!("panic: {pn}")),
                    };
                    judge(l, section, rule, &vis, got, || json!({"work": wi, "section": section, "rule": format!("{rule:?}"), "tx_zone": format!("{p:?}")}));
                }
            }
            Work::Simulate { rule } => {
                let rule = &sim_rules[*rule];
                set_role_r(&w, &mut sim, &probe, rule);
                let flags = PreviewFlags { use_free_credit: true, assume_all_signature_proofs: true, skip_epoch_check: true, disable_auth: false };
                for p in &placements {
                    for assert in [false, true] {
                        let m = with_tx_proofs(&w, p);
                        let m = if assert {
                            m.call_function(w.pkg_p, BP_A, "run", manifest_args!(script_bytes(&[Op::AssertRule(rule.clone())]), w.g, w.nf))
                        } else {
                            m.call_method(w.c, "guarded", manifest_args!(script_bytes(&[])))
                        }
                        .build();
                        let mut root = tx_zone(&w, p);
                        root.simulated.insert(SECP256K1_SIGNATURE_RESOURCE);
                        root.simulated.insert(ED25519_SIGNATURE_RESOURCE);
                        let mut zones = Zones(vec![root]);
                        let zc = zones.call(0, &tx_processor_caller(), true);
                        let vis = zones.visible(zc);
                        let keys: Vec<PublicKey> = if p.contains(&Atom::Sig) { vec![PublicKey::Secp256k1(w.pk_s)] } else { vec![] };
                        probe.take_log();
                        let got = match mc_core::catch(|| sim.preview_manifest(m, keys, 0, flags.clone())) {
                            Ok(r) => classify(&r, assert),
                            Err(pn) => Err(format!("panic: {pn}")),
                        };
                        let sec = format!("simulate-signatures:{}", if assert { "assert" } else { "method" });
                        judge(l, &sec, rule, &vis, got, || json!({"work": wi, "section": sec, "rule": format!("{rule:?}"), "tx_zone": format!("{p:?}"), "preview": "assume_all_signature_proofs"}));
                    }
                }
            }
            Work::Chain { rule, caller_section } => {
                let (section, rule) = if *caller_section { ("caller", &callers[*rule]) } else { ("chain", &reps[*rule]) };
                set_role_r(&w, &mut sim, &probe, rule);
                let empty_t: Vec<Vec<Atom>> = vec![vec![]];
                let empty_q: Vec<Vec<QAtom>> = vec![vec![]];
                let (ts, qs) = if *caller_section { (&empty_t, &empty_q) } else { (&t_sets, &q_sets) };
                for path in [Path::Direct, Path::ViaFn, Path::ViaK1, Path::ViaK1K2, Path::ViaK1Child] {
                    for assert in [false, true] {
                        if assert && path == Path::Direct {
                            continue;
                        }
                        for t in ts {
                            for q in qs {
                                if !q.is_empty() && matches!(path, Path::Direct | Path::ViaFn) {
                                    continue;
                                }
                                let (m, vis) = chain_case(&w, rule, path, assert, t, q);
                                let got = match run_tx(&mut sim, &probe, m, signers(&w, t)) {
                                    Ok(r) => classify(&r, assert),
                                    Err(pn) => Err(format!("panic: {pn}")),
                                };
                                let sec = format!("{section}:{path:?}:{}", if assert { "assert" } else { "method" });
                                judge(l, &sec, rule, &vis, got, || json!({"work": wi, "section": sec, "rule": format!("{rule:?}"), "tx_zone": format!("{t:?}"), "k1_zone": format!("{q:?}")}));
                            }
                        }
                    }
                }
            }
        }
    });

    // harness trouble (a transaction failing for a reason other than the authorization under test) is not a verdict
    let classes = ctx.classes();
    let other: u64 = classes.iter().filter(|(k, _)| k.ends_with(":other-failure")).map(|(_, n)| *n).sum();
    if other > 0 && !ctx.has_violations() && replay_case.is_none() {
        mc_core::machinery_error(&format!("C08: {other} transactions failed for a reason other than the authorization under test (see classes): {:?}", classes.iter().filter(|(k, _)| k.ends_with(":other-failure")).collect::<Vec<_>>()));
    }
    let nontrivial: u64 = classes.iter().filter(|(k, _)| k.ends_with(":authorized")).map(|(_, n)| *n).sum();
    let mut cov = Map::new();
    cov.insert("programs".into(), json!(all_rules.len() + reps.len() + callers.len() + sim_rules.len()));
    cov.insert("rules_primary".into(), json!(all_rules.len()));
    cov.insert("rules_representative".into(), json!(reps.len()));
    cov.insert("basic_requirements".into(), json!(alpha.basics.len()));
    cov.insert("tx_zone_placements".into(), json!(placements.len()));
    cov.insert("chain_paths".into(), json!(["Direct", "ViaFn", "ViaK1", "ViaK1K2(barrier)", "ViaK1Child(owned)"]));
    ctx.finish(
        Level::Exploration,
        "every access rule of the alphabet × every subset of the proof set in the transaction auth zone × entry point (role-protected method, assert_access_rule; representative rules: owner fallback, role list, function auth, zone chains, caller badges), each executed as a real transaction and compared with the reference evaluator; non-trivial = cases in which a Protected rule was evaluated to 'authorized'",
        nontrivial,
        true,
        cov,
        &[
            "AmountOf is per single proof (documented at the check site); cases reachable only by summing proofs are informational",
            "count-of lists have distinct entries; empty all-of/any-of lists are not enumerated (statement silent)",
            "Require(resource) is not matched against implicit (signature/caller) badges of that resource: not enumerated",
            "frame-owned (not yet globalized, not stored) callers are not enumerated",
        ],
    )
}
