//! C51 — locked state stays locked forever.
//!
//! Explicit-state exploration of transaction histories over small groups of lockable items of every kind
//! the statement names (object field, key-value entry — collection entry and KV-store entry —, metadata
//! entry, component royalty setting, owner role) plus resource roles whose updater role is DenyAll.
//! Every transition is a real transaction on the real engine (manifest instructions for the module
//! methods, the `Probe` native blueprint for fields / KV entries / "the object's own code").
//!
//! Oracle (history invariant, written from the statement, independent of the code): a per-path set
//! `locked`: an item enters it when a lock action on it is *accepted* (or it was created locked); from then
//! on (a) the item's stored substate bytes are identical in every later state of the path, and (b) no
//! mutating attempt on it is accepted — whoever signs (owner badge, other badge, nobody) and whether the
//! attempt comes from a manifest or from the object's own code.
use crate::probe::*;
use mc_core::{bfs, BfsStats, Ctx, Level, Machine};
use mc_ledger::*;
use radix_engine::system::system_substates::FieldSubstate;
use radix_substate_store_interface::interface::SubstateDatabaseExtensions;
use serde_json::json;
use std::collections::BTreeMap;

#[derive(Clone, Debug)]
pub struct Item {
    pub name: String,
    pub node: NodeId,
    pub part: PartitionNumber,
    pub key: SubstateKey,
    pub pre_locked: bool,
}

#[derive(Clone)]
pub enum TxKind {
    Manifest(TransactionManifestV1),
    NextRound,
}

#[derive(Clone)]
pub struct Action {
    pub label: String,
    /// 0 = signed by A (owner badge), 1 = signed by B (other badge), 2 = no signature
    pub signer: u8,
    pub tx: TxKind,
    /// items this action tries to change (indices into the world's item list)
    pub mutates: Vec<usize>,
    /// items that are locked when this action is accepted
    pub locks: Vec<usize>,
    /// for probe scripts: labels (prefix) of the log entries that are the mutation / lock ops; empty = the receipt decides
    pub decisive_ops: Vec<String>,
}

impl std::fmt::Debug for Action {
    fn fmt(&self, f: &mut std::fmt::Formatter<'_>) -> std::fmt::Result {
        write!(f, "{}", self.label)
    }
}

pub struct World51 {
    pub snap: Snap,
    pub a: Acct,
    pub b: Acct,
    pub items: Vec<Item>,
    /// groups: (name, item indices, actions)
    pub groups: Vec<(String, Vec<usize>, Vec<Action>)>,
    /// the component used by the informational same-handle probe
    pub c1: ComponentAddress,
}

fn sval(s: &str) -> Vec<u8> {
    scrypto_encode(&s.to_string()).unwrap()
}

fn mb() -> ManifestBuilder {
    ManifestBuilder::new().lock_fee_from_faucet()
}

fn run_fn(pkg: PackageAddress, bp: &str, ops: &[Op]) -> TransactionManifestV1 {
    mb().call_function(pkg, bp, "run", manifest_args!(script_bytes(ops))).build()
}

fn call_method(c: ComponentAddress, ops: &[Op]) -> TransactionManifestV1 {
    mb().call_method(c, "call", manifest_args!(script_bytes(ops))).build()
}

pub fn build_world() -> World51 {
    let (mut sim, _probe) = new_probe_sim();
    let (pk_a, _, a_addr) = sim.new_account(true);
    let (pk_b, _, b_addr) = sim.new_account(true);
    let a = Acct { pk: pk_a, addr: a_addr, sig: NonFungibleGlobalId::from_public_key(&pk_a) };
    let b = Acct { pk: pk_b, addr: b_addr, sig: NonFungibleGlobalId::from_public_key(&pk_b) };
    let pkg_p = sim.publish_native_package(PROBE_P, package_p());
    let r1 = rule!(require(a.sig.clone()));
    let r2 = rule!(require_any_of(vec![a.sig.clone(), b.sig.clone()]));

    let new_component = |sim: &mut PSim, bp: &str, pre: Vec<Op>, lock0: bool, cfg: GlobalizeCfg| -> ComponentAddress {
        let mut ops = vec![Op::NewObject { bp: bp.to_string(), lock0 }];
        ops.extend(pre);
        ops.push(Op::Globalize { node: N::Reg(0), reservation: None, cfg });
        let r = sim.execute_manifest(run_fn(pkg_p, bp, &ops), vec![]);
        r.expect_commit_success().new_component_addresses()[0]
    };

    // C1: owner = Updatable(require A); module roles unassigned (owner fallback); royalty attached
    let mut cfg1 = GlobalizeCfg::simple(OwnerRole::Updatable(r1.clone()));
    cfg1.royalty = Some(vec![("call".into(), 0, false), ("guarded".into(), 1, false), ("guarded_rs".into(), 1, true)]);
    let c1 = new_component(&mut sim, BP_A, vec![], false, cfg1);

    // C2: "self-managed": owner = require A but updater = Object; module setter/locker roles = the component itself
    let mut cfg2 = GlobalizeCfg::simple(OwnerRole::Updatable(r1.clone()));
    cfg2.owner_updater_object = true;
    cfg2.royalty = Some(vec![("call".into(), 0, false)]);
    cfg2.self_caller_metadata_roles = vec![METADATA_SETTER_ROLE.into(), METADATA_LOCKER_ROLE.into()];
    cfg2.self_caller_royalty_roles = vec![COMPONENT_ROYALTY_SETTER_ROLE.into(), COMPONENT_ROYALTY_LOCKER_ROLE.into()];
    let c2 = new_component(&mut sim, BP_A, vec![], false, cfg2);

    // C3: everything locked at creation: owner Fixed, field 0 immutable, field 1 locked before globalization
    let pre3 = vec![Op::CallProbeMethod {
        recv: N::Reg(0),
        method: "call".into(),
        script: vec![Op::OpenField { obj: 0, idx: 1, mutable: true }, Op::FieldWrite(0, Val::Str("pre".into())), Op::FieldLock(0), Op::FieldClose(0)],
        pass: vec![],
    }];
    let c3 = new_component(&mut sim, BP_A, pre3, true, GlobalizeCfg::simple(OwnerRole::Fixed(r1.clone())));

    // C4: field 1 owns a key-value store
    let pre4 = vec![
        Op::NewKvStore,
        Op::CallProbeMethod {
            recv: N::Reg(0),
            method: "call".into(),
            script: vec![Op::OpenField { obj: 0, idx: 1, mutable: true }, Op::FieldWrite(0, Val::Own(N::Arg(0))), Op::FieldClose(0)],
            pass: vec![Pass::Own(N::Reg(1))],
        },
    ];
    let c4 = new_component(&mut sim, BP_B, pre4, false, GlobalizeCfg::simple(OwnerRole::None));
    let store: Own = sim
        .substate_db()
        .get_substate::<FieldSubstate<Own>>(c4.as_node_id(), MAIN_BASE_PARTITION, SubstateKey::Field(1))
        .expect("C4 field 1")
        .into_payload();
    let store = store.0;

    // resource R: minter/minter_updater = require A (lockable by setting the updater to DenyAll); burner locked at creation
    let res = {
        let m = mb()
            .create_fungible_resource(
                OwnerRole::Fixed(r1.clone()),
                true,
                18,
                FungibleResourceRoles {
                    mint_roles: Some(MintRoles { minter: Some(r1.clone()), minter_updater: Some(r1.clone()) }),
                    burn_roles: Some(BurnRoles { burner: Some(r1.clone()), burner_updater: Some(AccessRule::DenyAll) }),
                    ..Default::default()
                },
                metadata!(),
                None,
            )
            .build();
        sim.execute_manifest(m, vec![]).expect_commit_success().new_resource_addresses()[0]
    };

    // ---------------- items
    let mut items: Vec<Item> = vec![];
    let mut add = |name: &str, node: NodeId, part: PartitionNumber, key: SubstateKey, pre_locked: bool| -> usize {
        items.push(Item { name: name.to_string(), node, part, key, pre_locked });
        items.len() - 1
    };
    let md_part = METADATA_BASE_PARTITION;
    let roy_part = ROYALTY_BASE_PARTITION.at_offset(ROYALTY_CONFIG_PARTITION_OFFSET).unwrap();
    let owner_part = ROLE_ASSIGNMENT_BASE_PARTITION.at_offset(ROLE_ASSIGNMENT_FIELDS_PARTITION_OFFSET).unwrap();
    let role_part = ROLE_ASSIGNMENT_BASE_PARTITION.at_offset(ROLE_ASSIGNMENT_ROLE_DEF_PARTITION_OFFSET).unwrap();
    let coll_part = MAIN_BASE_PARTITION.at_offset(PartitionOffset(1)).unwrap();
    let map = |s: &str| SubstateKey::Map(sval(s));
    let role_key = |m: ModuleId, s: &str| SubstateKey::Map(scrypto_encode(&ModuleRoleKey::new(m, s)).unwrap());
    let n1 = *c1.as_node_id();
    let n2 = *c2.as_node_id();
    let n3 = *c3.as_node_id();
    let i_md = [add("md:C1:k1", n1, md_part, map("k1"), false), add("md:C1:k2", n1, md_part, map("k2"), false)];
    let i_owner1 = add("owner:C1", n1, owner_part, SubstateKey::Field(0), false);
    let i_roy = [add("royalty:C1:call", n1, roy_part, map("call"), false), add("royalty:C1:guarded", n1, roy_part, map("guarded"), false)];
    let i_roy_pre = add("royalty:C1:guarded_rs(pre-locked)", n1, roy_part, map("guarded_rs"), true);
    let i_field = [add("field:C1:0", n1, MAIN_BASE_PARTITION, SubstateKey::Field(0), false), add("field:C1:1", n1, MAIN_BASE_PARTITION, SubstateKey::Field(1), false)];
    let i_kv = [add("kv:C1:e1", n1, coll_part, map("e1"), false), add("kv:C1:e2", n1, coll_part, map("e2"), false)];
    let i_md2 = add("md:C2:k1(self-managed)", n2, md_part, map("k1"), false);
    let i_owner2 = add("owner:C2(updater=object)", n2, owner_part, SubstateKey::Field(0), false);
    let i_roy2 = add("royalty:C2:call(self-managed)", n2, roy_part, map("call"), false);
    let i_owner3 = add("owner:C3(fixed)", n3, owner_part, SubstateKey::Field(0), true);
    let i_f3 = [add("field:C3:0(immutable)", n3, MAIN_BASE_PARTITION, SubstateKey::Field(0), true), add("field:C3:1(locked-before-globalize)", n3, MAIN_BASE_PARTITION, SubstateKey::Field(1), true)];
    let i_store = [add("kvstore:C4:s1", store, MAIN_BASE_PARTITION, map("s1"), false), add("kvstore:C4:s2", store, MAIN_BASE_PARTITION, map("s2"), false)];
    let rn = *res.as_node_id();
    let i_minter = add("role:R:minter", rn, role_part, role_key(ModuleId::Main, "minter"), false);
    let i_minter_upd = add("role:R:minter_updater", rn, role_part, role_key(ModuleId::Main, "minter_updater"), false);
    let i_burner = add("role:R:burner(pre-locked)", rn, role_part, role_key(ModuleId::Main, "burner"), true);
    let i_burner_upd = add("role:R:burner_updater(pre-locked)", rn, role_part, role_key(ModuleId::Main, "burner_updater"), true);

    // ---------------- actions
    let act = |label: String, signer: u8, m: TransactionManifestV1, mutates: Vec<usize>, locks: Vec<usize>, decisive: Vec<&str>| Action {
        label,
        signer,
        tx: TxKind::Manifest(m),
        mutates,
        locks,
        decisive_ops: decisive.into_iter().map(|s| s.to_string()).collect(),
    };
    let who = ["A", "B", "nobody"];
    let next_round = Action { label: "next-round".into(), signer: 2, tx: TxKind::NextRound, mutates: vec![], locks: vec![], decisive_ops: vec![] };

    // metadata on C1 (+ owner role of C1)
    let mut g_md: Vec<Action> = vec![];
    for s in 0..2u8 {
        for (ki, k) in ["k1", "k2"].iter().enumerate() {
            for v in ["v1", "v2"] {
                g_md.push(act(format!("{}:md-set({k},{v})", who[s as usize]), s, mb().set_metadata(c1, *k, MetadataValue::String(v.into())).build(), vec![i_md[ki]], vec![], vec![]));
            }
            g_md.push(act(
                format!("{}:md-remove({k})", who[s as usize]),
                s,
                mb().call_metadata_method(c1, METADATA_REMOVE_IDENT, MetadataRemoveInput { key: k.to_string() }).build(),
                vec![i_md[ki]],
                vec![],
                vec![],
            ));
            g_md.push(act(format!("{}:md-lock({k})", who[s as usize]), s, mb().lock_metadata(c1, *k).build(), vec![], vec![i_md[ki]], vec![]));
        }
    }
    let owner_actions = |c: ComponentAddress, item: usize, tag: &str| -> Vec<Action> {
        let mut v = vec![];
        for s in 0..2u8 {
            v.push(act(format!("{}:owner-set({tag},A)", who[s as usize]), s, mb().set_owner_role(c, r1.clone()).build(), vec![item], vec![], vec![]));
            v.push(act(format!("{}:owner-set({tag},A|B)", who[s as usize]), s, mb().set_owner_role(c, r2.clone()).build(), vec![item], vec![], vec![]));
            v.push(act(format!("{}:owner-lock({tag})", who[s as usize]), s, mb().lock_owner_role(c).build(), vec![], vec![item], vec![]));
        }
        v
    };
    let g_owner1 = owner_actions(c1, i_owner1, "C1");
    let mut g1 = g_md.clone();
    g1.extend(g_owner1.clone());
    g1.push(next_round.clone());

    // royalty on C1
    let mut g_roy: Vec<Action> = vec![];
    for s in 0..2u8 {
        for (mi, m) in ["call", "guarded"].iter().enumerate() {
            g_roy.push(act(format!("{}:royalty-set({m},free)", who[s as usize]), s, mb().set_component_royalty(c1, *m, RoyaltyAmount::Free).build(), vec![i_roy[mi]], vec![], vec![]));
            g_roy.push(act(format!("{}:royalty-set({m},2xrd)", who[s as usize]), s, mb().set_component_royalty(c1, *m, RoyaltyAmount::Xrd(dec!(2))).build(), vec![i_roy[mi]], vec![], vec![]));
            g_roy.push(act(format!("{}:royalty-lock({m})", who[s as usize]), s, mb().lock_component_royalty(c1, *m).build(), vec![], vec![i_roy[mi]], vec![]));
        }
    }
    g_roy.push(act("A:royalty-set(guarded_rs,free)".into(), 0, mb().set_component_royalty(c1, "guarded_rs", RoyaltyAmount::Free).build(), vec![i_roy_pre], vec![], vec![]));
    g_roy.push(act("A:royalty-lock(guarded_rs)".into(), 0, mb().lock_component_royalty(c1, "guarded_rs").build(), vec![], vec![], vec![]));
    // a paid call of a royalty-bearing method (royalty is charged; the setting must not move)
    g_roy.push(act("A:call-guarded_rs".into(), 0, mb().call_method(c1, "guarded_rs", manifest_args!(script_bytes(&[]))).build(), vec![], vec![], vec![]));
    g_roy.push(next_round.clone());

    // fields and KV collection entries of C1, through the object's own code
    let field_actions = |c: ComponentAddress, its: [usize; 2], tag: &str| -> Vec<Action> {
        let mut v = vec![];
        for idx in 0..2u8 {
            for val in ["v1", "v2"] {
                v.push(act(
                    format!("code:field-write({tag}.{idx},{val})"),
                    2,
                    call_method(c, &[Op::OpenField { obj: 0, idx, mutable: true }, Op::FieldWrite(0, Val::Str(val.into())), Op::FieldClose(0)]),
                    vec![its[idx as usize]],
                    vec![],
                    vec!["FieldWrite"],
                ));
            }
            v.push(act(
                format!("code:field-lock({tag}.{idx})"),
                2,
                call_method(c, &[Op::OpenField { obj: 0, idx, mutable: true }, Op::FieldLock(0), Op::FieldClose(0)]),
                vec![],
                vec![its[idx as usize]],
                vec!["FieldLock"],
            ));
        }
        v
    };
    let mut g_state: Vec<Action> = field_actions(c1, i_field, "C1");
    for (ki, k) in ["e1", "e2"].iter().enumerate() {
        let open = Op::OpenKvColl { obj: 0, coll: 0, key: k.to_string(), mutable: true };
        for val in ["v1", "v2"] {
            g_state.push(act(format!("code:kv-set({k},{val})"), 2, call_method(c1, &[open.clone(), Op::KvSet(0, Val::Str(val.into())), Op::KvClose(0)]), vec![i_kv[ki]], vec![], vec!["KvSet"]));
        }
        g_state.push(act(format!("code:kv-remove({k})"), 2, call_method(c1, &[open.clone(), Op::KvRemove(0), Op::KvClose(0)]), vec![i_kv[ki]], vec![], vec!["KvRemove"]));
        g_state.push(act(
            format!("code:kv-actor-remove({k})"),
            2,
            call_method(c1, &[Op::ActorRemoveKv { obj: 0, coll: 0, key: k.to_string() }]),
            vec![i_kv[ki]],
            vec![],
            vec!["ActorRemoveKv"],
        ));
        g_state.push(act(format!("code:kv-lock({k})"), 2, call_method(c1, &[open.clone(), Op::KvLock(0), Op::KvClose(0)]), vec![], vec![i_kv[ki]], vec!["KvLock"]));
    }
    g_state.push(next_round.clone());

    // KV store entries of C4
    let mut g_store: Vec<Action> = vec![];
    let pre = vec![Op::OpenField { obj: 0, idx: 1, mutable: false }, Op::FieldReadOwn(0)];
    for (ki, k) in ["s1", "s2"].iter().enumerate() {
        let with = |ops: Vec<Op>| -> Vec<Op> {
            let mut v = pre.clone();
            v.extend(ops);
            v.push(Op::FieldClose(0));
            v
        };
        let open = Op::OpenKvStore { store: N::Reg(0), key: k.to_string(), mutable: true };
        for val in ["v1", "v2"] {
            g_store.push(act(format!("code:store-set({k},{val})"), 2, call_method(c4, &with(vec![open.clone(), Op::KvSet(1, Val::Str(val.into())), Op::KvClose(1)])), vec![i_store[ki]], vec![], vec!["KvSet"]));
        }
        g_store.push(act(format!("code:store-remove({k})"), 2, call_method(c4, &with(vec![open.clone(), Op::KvRemove(1), Op::KvClose(1)])), vec![i_store[ki]], vec![], vec!["KvRemove"]));
        g_store.push(act(
            format!("code:store-remove-entry({k})"),
            2,
            call_method(c4, &with(vec![Op::KvStoreRemove { store: N::Reg(0), key: k.to_string() }])),
            vec![i_store[ki]],
            vec![],
            vec!["KvStoreRemove"],
        ));
        g_store.push(act(format!("code:store-lock({k})"), 2, call_method(c4, &with(vec![open.clone(), Op::KvLock(1), Op::KvClose(1)])), vec![], vec![i_store[ki]], vec!["KvLock"]));
    }
    g_store.push(next_round.clone());

    // C2: the object's own code drives its modules; A (who satisfies the owner rule) and B try from outside
    let own_call = |module: AttachedModuleId, method: &str, args: Vec<u8>| -> TransactionManifestV1 {
        call_method(c2, &[Op::CallRaw { recv: N::Actor(2), module: Some(module), method: method.to_string(), args }])
    };
    let mut g_self: Vec<Action> = vec![];
    for val in ["v1", "v2"] {
        g_self.push(act(
            format!("code:md-set(C2.k1,{val})"),
            2,
            own_call(AttachedModuleId::Metadata, METADATA_SET_IDENT, scrypto_encode(&MetadataSetInput { key: "k1".into(), value: MetadataValue::String(val.into()) }).unwrap()),
            vec![i_md2],
            vec![],
            vec!["CallRaw"],
        ));
    }
    g_self.push(act("code:md-remove(C2.k1)".into(), 2, own_call(AttachedModuleId::Metadata, METADATA_REMOVE_IDENT, scrypto_encode(&MetadataRemoveInput { key: "k1".into() }).unwrap()), vec![i_md2], vec![], vec!["CallRaw"]));
    g_self.push(act("code:md-lock(C2.k1)".into(), 2, own_call(AttachedModuleId::Metadata, METADATA_LOCK_IDENT, scrypto_encode(&MetadataLockInput { key: "k1".into() }).unwrap()), vec![], vec![i_md2], vec!["CallRaw"]));
    g_self.push(act("A:md-set(C2.k1,v1)".into(), 0, mb().set_metadata(c2, "k1", MetadataValue::String("v1".into())).build(), vec![i_md2], vec![], vec![]));
    for (tag, amt) in [("free", RoyaltyAmount::Free), ("2xrd", RoyaltyAmount::Xrd(dec!(2)))] {
        g_self.push(act(
            format!("code:royalty-set(C2.call,{tag})"),
            2,
            own_call(AttachedModuleId::Royalty, COMPONENT_ROYALTY_SET_ROYALTY_IDENT, scrypto_encode(&ComponentRoyaltySetInput { method: "call".into(), amount: amt }).unwrap()),
            vec![i_roy2],
            vec![],
            vec!["CallRaw"],
        ));
    }
    g_self.push(act(
        "code:royalty-lock(C2.call)".into(),
        2,
        own_call(AttachedModuleId::Royalty, COMPONENT_ROYALTY_LOCK_ROYALTY_IDENT, scrypto_encode(&ComponentRoyaltyLockInput { method: "call".into() }).unwrap()),
        vec![],
        vec![i_roy2],
        vec!["CallRaw"],
    ));
    for (tag, r) in [("A", r1.clone()), ("A|B", r2.clone())] {
        g_self.push(act(
            format!("code:owner-set(C2,{tag})"),
            2,
            own_call(AttachedModuleId::RoleAssignment, ROLE_ASSIGNMENT_SET_OWNER_IDENT, scrypto_encode(&RoleAssignmentSetOwnerInput { rule: r }).unwrap()),
            vec![i_owner2],
            vec![],
            vec!["CallRaw"],
        ));
    }
    g_self.push(act(
        "code:owner-lock(C2)".into(),
        2,
        own_call(AttachedModuleId::RoleAssignment, ROLE_ASSIGNMENT_LOCK_OWNER_IDENT, scrypto_encode(&RoleAssignmentLockOwnerInput {}).unwrap()),
        vec![],
        vec![i_owner2],
        vec!["CallRaw"],
    ));
    g_self.push(act("A:owner-set(C2,A|B)".into(), 0, mb().set_owner_role(c2, r2.clone()).build(), vec![i_owner2], vec![], vec![]));
    g_self.push(act("A:owner-lock(C2)".into(), 0, mb().lock_owner_role(c2).build(), vec![], vec![i_owner2], vec![]));
    g_self.push(next_round.clone());

    // C3: created locked
    let mut g_pre: Vec<Action> = owner_actions(c3, i_owner3, "C3");
    for a in g_pre.iter_mut() {
        a.locks.clear(); // already locked; a (rejected) lock attempt changes nothing in the model
    }
    g_pre.extend(field_actions(c3, i_f3, "C3").into_iter().map(|mut a| {
        a.locks.clear();
        a
    }));
    g_pre.push(next_round.clone());

    // resource roles
    let mut g_res: Vec<Action> = vec![];
    for s in 0..2u8 {
        for (tag, r) in [("A", r1.clone()), ("A|B", r2.clone())] {
            g_res.push(act(format!("{}:role-set(minter,{tag})", who[s as usize]), s, mb().set_role(res, ModuleId::Main, "minter", r.clone()).build(), vec![i_minter], vec![], vec![]));
        }
        g_res.push(act(format!("{}:role-set(minter_updater,A|B)", who[s as usize]), s, mb().set_role(res, ModuleId::Main, "minter_updater", r2.clone()).build(), vec![i_minter_upd], vec![], vec![]));
        g_res.push(act(
            format!("{}:role-lock(minter_updater:=deny_all)", who[s as usize]),
            s,
            mb().set_role(res, ModuleId::Main, "minter_updater", AccessRule::DenyAll).build(),
            vec![i_minter_upd],
            vec![i_minter, i_minter_upd],
            vec![],
        ));
    }
    g_res.push(act("A:role-set(burner,A|B)".into(), 0, mb().set_role(res, ModuleId::Main, "burner", r2.clone()).build(), vec![i_burner], vec![], vec![]));
    g_res.push(act("A:role-set(burner_updater,A|B)".into(), 0, mb().set_role(res, ModuleId::Main, "burner_updater", r2.clone()).build(), vec![i_burner_upd], vec![], vec![]));
    g_res.push(act("A:owner-set(R,A|B)".into(), 0, mb().set_owner_role(res, r2.clone()).build(), vec![], vec![], vec![]));
    g_res.push(next_round.clone());

    // mixed: one item of each kind, owner actions interleaved (owner fallback decides who may lock what)
    let pick = |g: &[Action], names: &[&str]| -> Vec<Action> { g.iter().filter(|a| names.iter().any(|n| a.label == *n)).cloned().collect() };
    let mut g_mixed: Vec<Action> = vec![];
    g_mixed.extend(pick(&g_md, &["A:md-set(k1,v1)", "B:md-set(k1,v2)", "A:md-remove(k1)", "A:md-lock(k1)", "B:md-lock(k1)"]));
    g_mixed.extend(pick(&g_owner1, &["A:owner-set(C1,A|B)", "A:owner-lock(C1)", "B:owner-set(C1,A)"]));
    g_mixed.extend(pick(&g_roy, &["A:royalty-set(call,2xrd)", "B:royalty-set(call,free)", "A:royalty-lock(call)", "B:royalty-lock(call)"]));
    g_mixed.extend(pick(&g_state, &["code:field-write(C1.0,v1)", "code:field-lock(C1.0)", "code:kv-set(e1,v1)", "code:kv-remove(e1)", "code:kv-lock(e1)"]));
    g_mixed.push(next_round.clone());

    let mixed_items = vec![i_md[0], i_owner1, i_roy[0], i_field[0], i_kv[0]];
    let groups = vec![
        ("metadata+owner(C1)".to_string(), vec![i_md[0], i_md[1], i_owner1], g1),
        ("royalty(C1)".to_string(), vec![i_roy[0], i_roy[1], i_roy_pre], g_roy),
        ("kv-store(C4)".to_string(), vec![i_store[0], i_store[1]], g_store),
        ("self-managed(C2)".to_string(), vec![i_md2, i_owner2, i_roy2], g_self),
        ("created-locked(C3)".to_string(), vec![i_owner3, i_f3[0], i_f3[1]], g_pre),
        ("resource-roles(R)".to_string(), vec![i_minter, i_minter_upd, i_burner, i_burner_upd], g_res),
        ("mixed(C1)".to_string(), mixed_items, g_mixed),
        // the largest state space last (if the shared wall budget runs out, every kind has been explored before)
        ("field+kv-collection(C1)".to_string(), vec![i_field[0], i_field[1], i_kv[0], i_kv[1]], g_state),
    ];
    World51 { snap: sim.create_snapshot(), a, b, items, groups, c1 }
}

pub struct M51<'a> {
    pub w: &'a World51,
    pub group: usize,
}

pub struct St51 {
    sim: PSim,
    probe: Probe,
    /// item index → stored bytes at the moment it became locked
    locked: BTreeMap<usize, Option<Vec<u8>>>,
}

fn read_item<E: NativeVmExtension>(sim: &Sim<E>, it: &Item) -> Option<Vec<u8>> {
    sim.substate_db().get_raw_substate(it.node, it.part, it.key.clone())
}

impl<'a> M51<'a> {
    fn items(&self) -> &Vec<usize> {
        &self.w.groups[self.group].1
    }
}

impl<'a> Machine for M51<'a> {
    type Op = Action;
    type St = St51;

    fn init(&self) -> St51 {
        let (sim, probe) = probe_sim_from(&self.w.snap);
        let mut locked = BTreeMap::new();
        for &i in self.items() {
            if self.w.items[i].pre_locked {
                locked.insert(i, read_item(&sim, &self.w.items[i]));
            }
        }
        St51 { sim, probe, locked }
    }

    fn ops(&self, _st: &St51, _depth: usize) -> Vec<Action> {
        self.w.groups[self.group].2.clone()
    }

    fn fork(&self, st: &St51) -> Option<St51> {
        let (sim, probe) = probe_sim_from(&st.sim.create_snapshot());
        Some(St51 { sim, probe, locked: st.locked.clone() })
    }

    fn step(&self, st: &mut St51, op: &Action) -> Result<String, (String, String)> {
        st.probe.take_log();
        let proofs = match op.signer {
            0 => vec![self.w.a.sig.clone()],
            1 => vec![self.w.b.sig.clone()],
            _ => vec![],
        };
        let receipt = match &op.tx {
            TxKind::Manifest(m) => exec(&mut st.sim, m.clone(), proofs),
            TxKind::NextRound => mc_core::catch(|| {
                let r = st.sim.get_consensus_manager_state().round.number();
                st.sim.advance_to_round(Round::of(r + 1))
            }),
        };
        let receipt = match receipt {
            Ok(r) => r,
            Err(p) => return Err((format!("panic@{}", mc_core::last_panic_location()), format!("{} panicked: {p}", op.label))),
        };
        let log = st.probe.take_log();
        let committed = is_success(&receipt);
        // accepted = the transaction committed successfully and (for probe scripts) the decisive op returned Ok
        let decisive: Vec<&LogEntry> = log.iter().filter(|e| op.decisive_ops.iter().any(|d| e.op.starts_with(d.as_str()))).collect();
        let op_ok = decisive.iter().any(|e| e.result.is_ok());
        let accepted = if op.decisive_ops.is_empty() { committed } else { committed && op_ok };
        let class_detail = if !op.decisive_ops.is_empty() && !op_ok {
            decisive.iter().filter_map(|e| e.result.clone().err()).next().or_else(|| log.iter().filter_map(|e| e.result.clone().err()).next()).unwrap_or_else(|| "no-decisive-op".into())
        } else {
            receipt_class(&receipt)
        };

        // (b) a mutating attempt on a locked item must not be accepted (an API-level Ok is enough to count)
        for &i in &op.mutates {
            if st.locked.contains_key(&i) && (accepted || (!op.decisive_ops.is_empty() && op_ok)) {
                return Err((
                    format!("mutation-accepted:{}", kind_of(&self.w.items[i].name)),
                    format!("{} was accepted although {} is locked", op.label, self.w.items[i].name),
                ));
            }
        }
        // (a) stored bytes of every locked item are unchanged
        for (&i, bytes) in &st.locked {
            let now = read_item(&st.sim, &self.w.items[i]);
            if &now != bytes {
                return Err((
                    format!("locked-changed:{}", kind_of(&self.w.items[i].name)),
                    format!(
                        "stored substate of locked item {} changed after {} ({}): {} -> {}",
                        self.w.items[i].name,
                        op.label,
                        class_detail,
                        bytes.as_ref().map(|b| mc_core::hex(b)).unwrap_or("-".into()),
                        now.as_ref().map(|b| mc_core::hex(b)).unwrap_or("-".into())
                    ),
                ));
            }
        }
        if accepted {
            for &i in &op.locks {
                if self.items().contains(&i) && !st.locked.contains_key(&i) {
                    let b = read_item(&st.sim, &self.w.items[i]);
                    st.locked.insert(i, b);
                }
            }
        }
        let target_locked = op.mutates.iter().chain(op.locks.iter()).any(|i| st.locked.contains_key(i)) && !(accepted && !op.locks.is_empty());
        let kind = op.label.split('(').next().unwrap_or("").to_string();
        Ok(format!("{kind}{}:{}", if target_locked { "[target locked]" } else { "" }, if accepted { "accepted".to_string() } else { class_detail }))
    }

    fn fingerprint(&self, st: &St51) -> Vec<u8> {
        // the items' stored bytes (entities are created in the root world, so no history-dependent node ids
        // occur in them) + which items are in the model's locked set
        let mut fp = vec![];
        for &i in self.items() {
            match read_item(&st.sim, &self.w.items[i]) {
                Some(b) => {
                    fp.extend((b.len() as u32).to_le_bytes());
                    fp.extend(b);
                }
                None => fp.extend(u32::MAX.to_le_bytes()),
            }
            fp.push(st.locked.contains_key(&i) as u8);
        }
        fp
    }
}

fn kind_of(item_name: &str) -> String {
    item_name.split(':').next().unwrap_or("").to_string()
}

/// Informational (outside the statement, which speaks of *later transactions*): what happens when the object's own
/// code locks and then writes through the *same* open handle inside one transaction, and whether a later
/// transaction can still write. Recorded with `ctx.info`, never judged.
fn same_handle_probe(ctx: &Ctx, w: &World51) {
    let field_item = w.items.iter().find(|i| i.name == "field:C1:0").unwrap();
    let kv_item = w.items.iter().find(|i| i.name == "kv:C1:e1").unwrap();
    let cases: Vec<(&str, &Item, Vec<Op>, Vec<Op>)> = vec![
        (
            "field",
            field_item,
            vec![Op::OpenField { obj: 0, idx: 0, mutable: true }, Op::FieldLock(0), Op::FieldWrite(0, Val::Str("written-after-lock".into())), Op::FieldClose(0)],
            vec![Op::OpenField { obj: 0, idx: 0, mutable: true }, Op::FieldWrite(0, Val::Str("later-tx".into())), Op::FieldClose(0)],
        ),
        (
            "kv-entry",
            kv_item,
            vec![Op::OpenKvColl { obj: 0, coll: 0, key: "e1".into(), mutable: true }, Op::KvLock(0), Op::KvSet(0, Val::Str("written-after-lock".into())), Op::KvClose(0)],
            vec![Op::OpenKvColl { obj: 0, coll: 0, key: "e1".into(), mutable: true }, Op::KvSet(0, Val::Str("later-tx".into())), Op::KvClose(0)],
        ),
    ];
    for (kind, item, first, later) in cases {
        let (mut sim, probe) = probe_sim_from(&w.snap);
        probe.take_log();
        let r1 = exec(&mut sim, call_method(w.c1, &first), vec![]);
        let log1 = probe.take_log();
        let same_tx = match &r1 {
            Ok(r) if is_success(r) => "lock+write-in-one-handle:committed".to_string(),
            Ok(_) => format!("lock+write-in-one-handle:refused:{}", log1.iter().filter_map(|e| e.result.clone().err()).next().unwrap_or_default()),
            Err(_) => "lock+write-in-one-handle:panic".to_string(),
        };
        let after1 = read_item(&sim, item);
        let r2 = exec(&mut sim, call_method(w.c1, &later), vec![]);
        let log2 = probe.take_log();
        let later_tx = match &r2 {
            Ok(r) if is_success(r) => "later-transaction-write:accepted".to_string(),
            Ok(_) => format!("later-transaction-write:refused:{}", log2.iter().filter_map(|e| e.result.clone().err()).next().unwrap_or_default()),
            Err(_) => "later-transaction-write:panic".to_string(),
        };
        let changed = read_item(&sim, item) != after1;
        ctx.info(&format!("same-handle:{kind}:{same_tx}:{later_tx}:{}", if changed { "stored-value-changed-later" } else { "stored-value-kept" }), 1);
    }
}

pub fn run(ctx: Ctx) -> ! {
    let w = build_world();
    if ctx.replay.is_some() {
        replay(ctx, &w);
    }
    // (depth of the per-kind groups, depth of the mixed group, wall cap per group)
    // total wall budget shared by the groups (a group that runs out of budget reports its deepest completed layer)
    let (d_kind, d_mixed, budget) = ctx.pick((4usize, 3usize, 55.0), (12, 12, 1100.0));
    let mut total = BfsStats::default();
    let mut per_group = vec![];
    for gi in 0..w.groups.len() {
        let m = M51 { w: &w, group: gi };
        let depth = if w.groups[gi].0.starts_with("mixed") { d_mixed } else { d_kind };
        let cap = (budget - ctx.elapsed_s()).max(1.0);
        let s = bfs(&ctx, &m, &w.groups[gi].0, depth, 2_000_000, cap);
        per_group.push(json!({"group": w.groups[gi].0, "items": w.groups[gi].1.iter().map(|i| w.items[*i].name.clone()).collect::<Vec<_>>(), "actions": w.groups[gi].2.len(), "depth": depth, "depth_completed": s.depth_completed, "states": s.states, "transitions": s.transitions, "fixpoint": s.depth_completed == depth && s.per_depth_states.last() == Some(&0), "capped": s.capped}));
        total.add(&s);
    }
    same_handle_probe(&ctx, &w);
    // non-vacuity: locks were accepted and attempts on locked items were seen and rejected
    let classes = ctx.classes();
    let accepted_locks = classes.iter().filter(|(k, _)| k.contains("lock") && k.ends_with(":accepted")).count();
    let rejected_on_locked = classes.iter().filter(|(k, _)| k.contains("[target locked]") && !k.ends_with(":accepted")).map(|(_, n)| *n).sum::<u64>();
    if !ctx.has_violations() && (accepted_locks < 5 || rejected_on_locked == 0) {
        mc_core::machinery_error(&format!("C51: vacuous: accepted lock kinds={accepted_locks}, rejected attempts on locked items={rejected_on_locked}"));
    }
    let mut cov = total.coverage();
    cov.insert("groups".into(), json!(per_group));
    cov.insert("rejected_attempts_on_locked_items".into(), json!(rejected_on_locked));
    let exhaustive = !total.capped;
    ctx.finish(
        Level::ModelChecking,
        "breadth-first over all histories of set/update/remove/lock transactions (signed by the owner badge holder, by another badge holder, by nobody, or issued by the object's own code) up to the depth, per group of lockable items; every transition is a real transaction; history invariant: after a lock was accepted (or the item was created locked) the stored substate bytes never change and no mutating attempt is accepted; a state is non-trivial when the items' stored bytes + locked set are new",
        total.states,
        exhaustive,
        cov,
        &[
            "an item counts as locked from the transaction whose lock action was accepted (same-transaction lock-then-write through one handle is outside the statement's 'later transaction')",
            "a resource role counts as locked when its updater role was set to DenyAll",
            "states are merged on the stored bytes of the group's items + the model's locked set (all entities exist in the root world, no history-dependent ids)",
        ],
    )
}

fn replay(ctx: Ctx, w: &World51) -> ! {
    let case = ctx.read_replay_case().unwrap();
    let base = case.get("base").and_then(|b| b.as_str()).unwrap_or("").to_string();
    let hist: Vec<String> = case.get("history").and_then(|h| h.as_array()).map(|a| a.iter().filter_map(|x| x.as_str().map(|s| s.to_string())).collect()).unwrap_or_default();
    let Some(gi) = w.groups.iter().position(|g| g.0 == base) else { mc_core::machinery_error("replay: unknown group") };
    let m = M51 { w, group: gi };
    let mut st = m.init();
    for label in &hist {
        let Some(op) = w.groups[gi].2.iter().find(|a| &a.label == label) else { mc_core::machinery_error(&format!("replay: unknown action {label}")) };
        match m.step(&mut st, op) {
            Ok(c) => println!("  {label} -> {c}"),
            Err((k, what)) => {
                println!("  {label} -> VIOLATION {k}: {what}");
                ctx.violation(k, what, case.clone());
                break;
            }
        }
    }
    ctx.finish(Level::ModelChecking, "replay", 0, false, serde_json::Map::new(), &[])
}
