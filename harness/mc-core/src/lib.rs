//! mc-core: shared machinery of the /verif model-checking harness.
//!
//! * `Ctx`       – per-check context: tier, seed, violation/known-finding protocol, evidence writer.
//! * `Local`     – per-worker accumulator (outcome classes, samples, violations), merged into `Ctx`.
//! * `par_for`   – deterministic data-parallel sweep over an enumerated space.
//! * `bfs`       – explicit-state breadth-first explorer over histories of a real object (`Machine`).
//! * `gen`       – bounded-exhaustive generators (byte strings, sequences, mutations).
//!
//! Exit codes: 0 = property held on everything explored (known findings are printed and tolerated),
//! 1 = violation not listed in known_findings.json, 2 = machinery error (never a verdict).

use serde_json::{json, Map, Value};
use std::collections::{BTreeMap, HashSet};
use std::fmt::Debug;
use std::path::PathBuf;
use std::sync::atomic::{AtomicU64, AtomicUsize, Ordering};
use std::sync::Mutex;
use std::time::Instant;

pub mod gen;

#[derive(Clone, Copy, PartialEq, Eq, Debug)]
pub enum Tier {
    Quick,
    Thorough,
}

#[derive(Clone, Copy, PartialEq, Eq, Debug)]
pub enum Level {
    Exploration,
    FaultEnumeration,
    ModelChecking,
}

impl Level {
    fn as_str(&self) -> &'static str {
        match self {
            Level::Exploration => "exploration",
            Level::FaultEnumeration => "fault_enumeration",
            Level::ModelChecking => "model_checking",
        }
    }
}

pub const MAX_RECORDED_VIOLATIONS: usize = 12;
const MAX_SAMPLES: usize = 6;

#[derive(Clone, Debug)]
pub struct Violation {
    pub key: String,
    pub what: String,
    pub case: Value,
}

#[derive(Default)]
pub struct Local {
    pub evals: u64,
    pub classes: BTreeMap<String, u64>,
    pub infos: BTreeMap<String, u64>,
    pub violations: Vec<Violation>,
    pub samples: Vec<Value>,
    sample_tick: u64,
}

impl Local {
    pub fn new() -> Self {
        Self::default()
    }
    #[inline]
    pub fn eval(&mut self) {
        self.evals += 1;
    }
    pub fn class(&mut self, c: &str) {
        if let Some(x) = self.classes.get_mut(c) {
            *x += 1;
        } else {
            self.classes.insert(c.to_string(), 1);
        }
    }
    pub fn info(&mut self, c: &str) {
        if let Some(x) = self.infos.get_mut(c) {
            *x += 1;
        } else {
            self.infos.insert(c.to_string(), 1);
        }
    }
    /// Record a violation. `key` identifies the failing input / call site / history class and is what
    /// known_findings.json is matched against.
    pub fn violation(&mut self, key: impl Into<String>, what: impl Into<String>, case: Value) {
        if self.violations.len() < 4 * MAX_RECORDED_VIOLATIONS {
            self.violations.push(Violation { key: key.into(), what: what.into(), case });
        } else {
            // keep counting through a class so the total is visible
            self.class("violation(overflow-not-recorded)");
        }
    }
    /// Offer a sample case; only a few are kept (spread over the run).
    pub fn sample(&mut self, f: impl FnOnce() -> Value) {
        self.sample_tick += 1;
        if self.samples.len() < 3 || (self.sample_tick.is_power_of_two() && self.samples.len() < MAX_SAMPLES) {
            self.samples.push(f());
        }
    }
}

#[derive(Debug, Clone)]
struct KnownFinding {
    property: String,
    key: String,
    what: String,
    status: String,
}

struct Inner {
    evals: u64,
    classes: BTreeMap<String, u64>,
    infos: BTreeMap<String, u64>,
    violations: BTreeMap<String, Violation>,
    violation_count: u64,
    known_hits: BTreeMap<String, (String, u64)>,
    samples: Vec<Value>,
    notes: Vec<String>,
}

pub struct Ctx {
    pub id: String,
    pub tier: Tier,
    pub seed: u64,
    pub replay: Option<PathBuf>,
    pub root: PathBuf,
    start: Instant,
    known: Vec<KnownFinding>,
    inner: Mutex<Inner>,
    pub threads: usize,
}

pub fn machinery_error(msg: &str) -> ! {
    eprintln!("MACHINERY-ERROR: {msg}");
    println!("MACHINERY-ERROR: {msg}");
    std::process::exit(2)
}

impl Ctx {
    /// args: <bin> <ID> <quick|thorough>   or   <bin> <ID> --replay <file>
    pub fn from_args() -> Ctx {
        let args: Vec<String> = std::env::args().collect();
        if args.len() < 3 {
            machinery_error("usage: <bin> <ID> <quick|thorough> | <bin> <ID> --replay <file>");
        }
        let id = args[1].clone();
        let (tier, replay) = match args[2].as_str() {
            "quick" => (Tier::Quick, None),
            "thorough" => (Tier::Thorough, None),
            "--replay" => {
                if args.len() < 4 {
                    machinery_error("--replay needs a file");
                }
                (Tier::Quick, Some(PathBuf::from(&args[3])))
            }
            other => machinery_error(&format!("unknown tier {other}")),
        };
        let seed = std::env::var("VERIF_SEED").ok().and_then(|s| s.parse::<i64>().ok()).unwrap_or(0) as u64;
        let root = std::env::var("VERIF_ROOT").map(PathBuf::from).unwrap_or_else(|_| std::env::current_dir().unwrap());
        let known = load_known(&root, &id);
        let threads = std::env::var("VERIF_THREADS")
            .ok()
            .and_then(|s| s.parse().ok())
            .unwrap_or_else(|| std::thread::available_parallelism().map(|n| n.get()).unwrap_or(8));
        Ctx {
            id,
            tier,
            seed,
            replay,
            root,
            start: Instant::now(),
            known,
            inner: Mutex::new(Inner {
                evals: 0,
                classes: BTreeMap::new(),
                infos: BTreeMap::new(),
                violations: BTreeMap::new(),
                violation_count: 0,
                known_hits: BTreeMap::new(),
                samples: vec![],
                notes: vec![],
            }),
            threads,
        }
    }

    pub fn quick(&self) -> bool {
        self.tier == Tier::Quick
    }
    pub fn pick<T>(&self, quick: T, thorough: T) -> T {
        if self.quick() {
            quick
        } else {
            thorough
        }
    }
    pub fn elapsed_s(&self) -> f64 {
        self.start.elapsed().as_secs_f64()
    }
    pub fn scratch_dir(&self, name: &str) -> PathBuf {
        let p = self.root.join(".scratch").join(format!("{}-{}-{}", self.id, std::process::id(), name));
        let _ = std::fs::remove_dir_all(&p);
        std::fs::create_dir_all(&p).expect("scratch dir");
        p
    }
    pub fn cleanup_scratch(&self) {
        let base = self.root.join(".scratch");
        if let Ok(rd) = std::fs::read_dir(&base) {
            let prefix = format!("{}-{}-", self.id, std::process::id());
            for e in rd.flatten() {
                if e.file_name().to_string_lossy().starts_with(&prefix) {
                    let _ = std::fs::remove_dir_all(e.path());
                }
            }
        }
    }
    pub fn note(&self, s: impl Into<String>) {
        self.inner.lock().unwrap().notes.push(s.into());
    }

    pub fn read_replay_case(&self) -> Option<Value> {
        let p = self.replay.as_ref()?;
        let txt = std::fs::read_to_string(p).unwrap_or_else(|e| machinery_error(&format!("cannot read replay {p:?}: {e}")));
        let v: Value = serde_json::from_str(&txt).unwrap_or_else(|e| machinery_error(&format!("bad replay json: {e}")));
        Some(v.get("case").cloned().unwrap_or(v))
    }

    pub fn merge(&self, l: Local) {
        let mut g = self.inner.lock().unwrap();
        g.evals += l.evals;
        for (k, v) in l.classes {
            *g.classes.entry(k).or_insert(0) += v;
        }
        for (k, v) in l.infos {
            *g.infos.entry(k).or_insert(0) += v;
        }
        for s in l.samples {
            if g.samples.len() < 4 * MAX_SAMPLES {
                g.samples.push(s);
            }
        }
        for v in l.violations {
            g.violation_count += 1;
            let known = self.known.iter().find(|k| k.status == "known" && (v.key == k.key || v.key.starts_with(&format!("{}:", k.key))));
            if let Some(k) = known {
                let e = g.known_hits.entry(k.key.clone()).or_insert((k.what.clone(), 0));
                e.1 += 1;
                continue;
            }
            if g.violations.len() < MAX_RECORDED_VIOLATIONS || g.violations.contains_key(&v.key) {
                g.violations.entry(v.key.clone()).or_insert(v);
            }
        }
    }

    pub fn violation(&self, key: impl Into<String>, what: impl Into<String>, case: Value) {
        let mut l = Local::new();
        l.violation(key, what, case);
        self.merge(l);
    }
    pub fn class(&self, c: &str, n: u64) {
        let mut g = self.inner.lock().unwrap();
        *g.classes.entry(c.to_string()).or_insert(0) += n;
    }
    pub fn info(&self, c: &str, n: u64) {
        let mut g = self.inner.lock().unwrap();
        *g.infos.entry(c.to_string()).or_insert(0) += n;
    }
    pub fn add_evals(&self, n: u64) {
        self.inner.lock().unwrap().evals += n;
    }
    pub fn sample(&self, v: Value) {
        let mut g = self.inner.lock().unwrap();
        if g.samples.len() < 4 * MAX_SAMPLES {
            g.samples.push(v);
        }
    }
    pub fn evals(&self) -> u64 {
        self.inner.lock().unwrap().evals
    }
    pub fn classes(&self) -> BTreeMap<String, u64> {
        self.inner.lock().unwrap().classes.clone()
    }
    pub fn has_violations(&self) -> bool {
        !self.inner.lock().unwrap().violations.is_empty()
    }

    /// Write evidence, print verdict lines, exit.
    ///
    /// `coverage` carries level-specific keys (states/transitions/... for model checking). The generic keys
    /// (evaluations, distinct_nontrivial, rule, samples, outcome classes) are filled from the counters.
    /// `nontrivial` = measured number of distinct non-trivial cases (by the rule string).
    pub fn finish(self, level: Level, rule: &str, nontrivial: u64, exhaustive: bool, mut coverage: Map<String, Value>, assumptions: &[&str]) -> ! {
        self.cleanup_scratch();
        let g = self.inner.into_inner().unwrap();
        let is_replay = self.replay.is_some();
        let class_count = g.classes.len();
        if !is_replay && class_count < 2 && g.violations.is_empty() {
            machinery_error(&format!(
                "{}: vacuous exploration: only {} distinct outcome class(es) observed: {:?}",
                self.id, class_count, g.classes
            ));
        }
        // samples: rotate by seed so different seeds show different ones; never changes what is explored
        let mut samples = g.samples.clone();
        if !samples.is_empty() {
            let r = (self.seed as usize) % samples.len();
            samples.rotate_left(r);
            samples.truncate(MAX_SAMPLES);
        } else {
            samples.push(json!("(no samples recorded)"));
        }
        coverage.entry("evaluations".to_string()).or_insert(json!(g.evals));
        coverage.entry("distinct_nontrivial".to_string()).or_insert(json!(nontrivial));
        coverage.entry("rule".to_string()).or_insert(json!(rule));
        coverage.insert("samples".to_string(), Value::Array(samples));
        coverage.insert("exhaustive".to_string(), json!(exhaustive));
        coverage.insert("outcome_classes".to_string(), json!(g.classes));
        if !g.infos.is_empty() {
            coverage.insert("informational".to_string(), json!(g.infos));
        }
        if !g.notes.is_empty() {
            coverage.insert("notes".to_string(), json!(g.notes));
        }
        let known: Vec<Value> = g.known_hits.iter().map(|(k, (w, n))| json!({"key": k, "what": w, "hits": n})).collect();
        coverage.insert("known_findings_matched".to_string(), Value::Array(known));
        let wall = self.start.elapsed().as_secs_f64();

        // replay files
        let mut lines = vec![];
        let replay_dir = self.root.join("replays");
        let _ = std::fs::create_dir_all(&replay_dir);
        for (key, v) in &g.violations {
            let fname: String = format!("{}-{}", self.id, key)
                .chars()
                .map(|c| if c.is_ascii_alphanumeric() || c == '-' || c == '_' || c == '.' { c } else { '_' })
                .take(120)
                .collect();
            let path = replay_dir.join(format!("{fname}.json"));
            let body = json!({"property": self.id, "key": key, "what": v.what, "case": v.case, "part": std::env::var("VERIF_PART").ok()});
            let _ = std::fs::write(&path, serde_json::to_string_pretty(&body).unwrap());
            lines.push(format!("VIOLATION property={} replay={} key={} :: {}", self.id, path.display(), key, truncate(&v.what, 400)));
        }

        if !is_replay {
            let ev = json!({
                "property_id": self.id,
                "tier": if self.tier == Tier::Quick { "quick" } else { "thorough" },
                "seed": self.seed as i64,
                "level": level.as_str(),
                "coverage": Value::Object(coverage),
                "assumptions": assumptions,
                "wall_s": wall,
                "violations": g.violations.len() as u64,
            });
            let evdir = self.root.join("evidence");
            let _ = std::fs::create_dir_all(&evdir);
            let p = evdir.join(format!("{}.json", self.id));
            // A property served by two binaries (e.g. static half + run-time half): the second run merges its
            // coverage into the evidence written by the first (VERIF_EVIDENCE_MERGE=1, VERIF_PART=<name>).
            let ev = match (std::env::var("VERIF_EVIDENCE_MERGE").ok().as_deref(), std::fs::read_to_string(&p).ok().and_then(|t| serde_json::from_str::<Value>(&t).ok())) {
                (Some("1"), Some(mut first)) => {
                    let part = std::env::var("VERIF_PART").unwrap_or_else(|_| "part2".to_string());
                    let add = |a: &Value, b: &Value| json!(a.as_u64().unwrap_or(0) + b.as_u64().unwrap_or(0));
                    let second_cov = ev["coverage"].clone();
                    if let Some(c) = first.get_mut("coverage").and_then(|c| c.as_object_mut()) {
                        for k in ["evaluations", "distinct_nontrivial", "states", "transitions", "traces_validated_against_impl"] {
                            if c.contains_key(k) && second_cov.get(k).is_some() {
                                let v = add(&c[k], &second_cov[k]);
                                c.insert(k.to_string(), v);
                            }
                        }
                        let ex = c.get("exhaustive").and_then(|x| x.as_bool()).unwrap_or(false) && second_cov.get("exhaustive").and_then(|x| x.as_bool()).unwrap_or(false);
                        c.insert("exhaustive".to_string(), json!(ex));
                        let mut parts = c.get("parts").cloned().unwrap_or(json!({}));
                        parts[part.as_str()] = second_cov;
                        c.insert("parts".to_string(), parts);
                    }
                    first["wall_s"] = json!(first["wall_s"].as_f64().unwrap_or(0.0) + wall);
                    first["violations"] = add(&first["violations"], &ev["violations"]);
                    if let (Some(a), Some(b)) = (first.get("assumptions").and_then(|x| x.as_array()).cloned(), ev.get("assumptions").and_then(|x| x.as_array())) {
                        let mut a = a;
                        a.extend(b.iter().cloned());
                        first["assumptions"] = Value::Array(a);
                    }
                    first
                }
                _ => ev,
            };
            std::fs::write(&p, serde_json::to_string_pretty(&ev).unwrap() + "\n").unwrap_or_else(|e| machinery_error(&format!("cannot write evidence: {e}")));
        }

        for (k, (w, n)) in &g.known_hits {
            println!("KNOWN-FINDING: property={} key={} hits={} {}", self.id, k, n, w);
        }
        // a known finding that is listed but was not reproduced is worth telling (not an error)
        for k in self.known.iter().filter(|k| k.status == "known") {
            if !g.known_hits.contains_key(&k.key) && !is_replay {
                println!("NOTE: known finding {} ({}) was not reproduced by this run", k.key, self.id);
            }
        }
        println!(
            "SUMMARY property={} tier={:?} evaluations={} classes={} nontrivial={} violations={} known_hits={} wall_s={:.1}",
            self.id,
            self.tier,
            g.evals,
            class_count,
            nontrivial,
            g.violations.len(),
            g.known_hits.len(),
            wall
        );
        for (c, n) in &g.classes {
            println!("  class {c}: {n}");
        }
        for (c, n) in &g.infos {
            println!("  info {c}: {n}");
        }
        if !lines.is_empty() {
            for l in lines {
                println!("{l}");
            }
            std::process::exit(1);
        }
        std::process::exit(0)
    }
}

pub fn truncate(s: &str, n: usize) -> String {
    if s.len() <= n {
        s.to_string()
    } else {
        let mut e = n;
        while !s.is_char_boundary(e) {
            e -= 1;
        }
        format!("{}…", &s[..e])
    }
}

fn load_known(root: &PathBuf, id: &str) -> Vec<KnownFinding> {
    let p = root.join("known_findings.json");
    let Ok(txt) = std::fs::read_to_string(&p) else { return vec![] };
    let v: Value = match serde_json::from_str(&txt) {
        Ok(v) => v,
        Err(e) => machinery_error(&format!("known_findings.json unreadable: {e}")),
    };
    let mut out = vec![];
    if let Some(arr) = v.get("findings").and_then(|a| a.as_array()) {
        for f in arr {
            let g = |k: &str| f.get(k).and_then(|x| x.as_str()).unwrap_or("").to_string();
            if g("property") == id {
                out.push(KnownFinding { property: g("property"), key: g("key"), what: g("what"), status: g("status") });
            }
        }
    }
    let _ = out.iter().map(|k| &k.property).count();
    out
}

// ------------------------------------------------------------------------------------------------
// parallel sweeps
// ------------------------------------------------------------------------------------------------

/// Run `f(i, &mut local)` for every i in 0..n, on `ctx.threads` workers, in blocks (work stealing by
/// atomic counter). Every index is visited exactly once; results are merged into ctx.
pub fn par_range(ctx: &Ctx, n: u64, block: u64, f: impl Fn(u64, &mut Local) + Sync) {
    let next = AtomicU64::new(0);
    let block = block.max(1);
    std::thread::scope(|s| {
        for _ in 0..ctx.threads {
            s.spawn(|| {
                let mut local = Local::new();
                loop {
                    let b = next.fetch_add(block, Ordering::Relaxed);
                    if b >= n {
                        break;
                    }
                    let e = (b + block).min(n);
                    for i in b..e {
                        f(i, &mut local);
                    }
                }
                ctx.merge(local);
            });
        }
    });
}

pub fn par_for<T: Sync>(ctx: &Ctx, items: &[T], f: impl Fn(&T, &mut Local) + Sync) {
    let block = ((items.len() / (ctx.threads * 8)).max(1)) as u64;
    par_range(ctx, items.len() as u64, block, |i, l| f(&items[i as usize], l));
}

/// Map in parallel, keeping order.
pub fn par_map<T: Sync, R: Send>(threads: usize, items: &[T], f: impl Fn(&T) -> R + Sync) -> Vec<R> {
    let next = AtomicUsize::new(0);
    let out: Mutex<Vec<(usize, R)>> = Mutex::new(Vec::with_capacity(items.len()));
    std::thread::scope(|s| {
        for _ in 0..threads.max(1) {
            s.spawn(|| {
                let mut mine = vec![];
                loop {
                    let i = next.fetch_add(1, Ordering::Relaxed);
                    if i >= items.len() {
                        break;
                    }
                    mine.push((i, f(&items[i])));
                }
                out.lock().unwrap().extend(mine);
            });
        }
    });
    let mut v = out.into_inner().unwrap();
    v.sort_by_key(|x| x.0);
    v.into_iter().map(|x| x.1).collect()
}

/// Run a closure under catch_unwind with the panic hook silenced for this thread's panics.
pub fn catch<R>(f: impl FnOnce() -> R) -> Result<R, String> {
    install_quiet_panic_hook();
    QUIET.with(|q| q.set(q.get() + 1));
    let r = std::panic::catch_unwind(std::panic::AssertUnwindSafe(f));
    QUIET.with(|q| q.set(q.get() - 1));
    r.map_err(|e| {
        if let Some(s) = e.downcast_ref::<&str>() {
            s.to_string()
        } else if let Some(s) = e.downcast_ref::<String>() {
            s.clone()
        } else {
            "<non-string panic payload>".to_string()
        }
    })
}

thread_local! {
    static QUIET: std::cell::Cell<u32> = std::cell::Cell::new(0);
    static LAST_PANIC_LOC: std::cell::RefCell<String> = std::cell::RefCell::new(String::new());
}

pub fn last_panic_location() -> String {
    LAST_PANIC_LOC.with(|l| l.borrow().clone())
}

pub fn install_quiet_panic_hook() {
    use std::sync::Once;
    static ONCE: Once = Once::new();
    ONCE.call_once(|| {
        let prev = std::panic::take_hook();
        std::panic::set_hook(Box::new(move |info| {
            let loc = info.location().map(|l| format!("{}:{}", l.file(), l.line())).unwrap_or_default();
            LAST_PANIC_LOC.with(|l| *l.borrow_mut() = loc);
            let quiet = QUIET.with(|q| q.get()) > 0;
            if !quiet {
                prev(info);
            }
        }));
    });
}

// ------------------------------------------------------------------------------------------------
// explicit-state explorer over histories
// ------------------------------------------------------------------------------------------------

/// A real object + reference model driven by a finite alphabet of operations.
pub trait Machine: Sync {
    type Op: Clone + Debug + Send + Sync;
    /// real object and reference model together
    type St;
    fn init(&self) -> Self::St;
    /// enabled operations in this state (ordered simplest first)
    fn ops(&self, st: &Self::St, depth: usize) -> Vec<Self::Op>;
    /// Apply `op` to the real object and to the model and compare.
    /// Ok(class) = observation class label; Err((key, what)) = violation.
    fn step(&self, st: &mut Self::St, op: &Self::Op) -> Result<String, (String, String)>;
    /// canonical fingerprint of the *real* object's property-relevant state
    fn fingerprint(&self, st: &Self::St) -> Vec<u8>;
    /// cheap copy if available; otherwise states are rebuilt by replaying their history
    fn fork(&self, _st: &Self::St) -> Option<Self::St> {
        None
    }
    /// states with no successors by construction (e.g. finalised)
    fn terminal(&self, _st: &Self::St) -> bool {
        false
    }
}

#[derive(Debug, Default, Clone)]
pub struct BfsStats {
    pub states: u64,
    pub transitions: u64,
    pub max_depth: usize,
    pub depth_completed: usize,
    pub capped: bool,
    pub leaves: u64,
    pub per_depth_states: Vec<u64>,
    pub alphabet_max: usize,
}

impl BfsStats {
    pub fn coverage(&self) -> Map<String, Value> {
        let mut m = Map::new();
        m.insert("states".into(), json!(self.states));
        m.insert("transitions".into(), json!(self.transitions));
        m.insert("traces_validated_against_impl".into(), json!(self.transitions));
        m.insert("max_depth".into(), json!(self.max_depth));
        m.insert("depth_completed".into(), json!(self.depth_completed));
        m.insert("caps_hit".into(), json!(self.capped));
        m.insert("per_depth_new_states".into(), json!(self.per_depth_states));
        m.insert("alphabet_max".into(), json!(self.alphabet_max));
        m
    }
    pub fn add(&mut self, o: &BfsStats) {
        self.states += o.states;
        self.transitions += o.transitions;
        self.max_depth = self.max_depth.max(o.max_depth);
        self.depth_completed = if self.depth_completed == 0 { o.depth_completed } else { self.depth_completed.min(o.depth_completed) };
        self.capped |= o.capped;
        self.leaves += o.leaves;
        self.alphabet_max = self.alphabet_max.max(o.alphabet_max);
        for (i, n) in o.per_depth_states.iter().enumerate() {
            if self.per_depth_states.len() <= i {
                self.per_depth_states.push(0);
            }
            self.per_depth_states[i] += n;
        }
    }
}

struct Expanded<Op> {
    // for each op: (op, Ok((class, fingerprint, terminal)) | Err(violation))
    results: Vec<(Op, Result<(String, Vec<u8>, bool), (String, String)>)>,
}

/// Breadth-first search by depth layers. A state is the history that reaches it; dedup by fingerprint.
/// Deterministic: layer results are merged in frontier order.
/// `tag` prefixes sample/violation cases (e.g. base database id).
pub fn bfs<M: Machine>(ctx: &Ctx, m: &M, tag: &str, max_depth: usize, state_cap: u64, wall_cap_s: f64) -> BfsStats {
    let mut stats = BfsStats::default();
    let mut seen: HashSet<Vec<u8>> = HashSet::new();
    let st0 = m.init();
    seen.insert(m.fingerprint(&st0));
    drop(st0);
    stats.states = 1;
    stats.per_depth_states.push(1);
    let mut frontier: Vec<Vec<M::Op>> = vec![vec![]];
    let t0 = Instant::now();
    for depth in 0..max_depth {
        if frontier.is_empty() {
            stats.depth_completed = max_depth; // fixpoint reached: every deeper layer is empty
            break;
        }
        if stats.states >= state_cap || t0.elapsed().as_secs_f64() > wall_cap_s {
            stats.capped = true;
            break;
        }
        let expanded: Vec<Expanded<M::Op>> = par_map(ctx.threads, &frontier, |hist| {
            let rebuild = || {
                let mut st = m.init();
                for op in hist.iter() {
                    if let Err((k, w)) = m.step(&mut st, op) {
                        machinery_error(&format!("replay of an accepted history failed (nondeterministic harness?): {k}: {w}"));
                    }
                }
                st
            };
            let base = rebuild();
            let ops = m.ops(&base, depth);
            let mut results = Vec::with_capacity(ops.len());
            let mut base_opt = Some(base);
            let n = ops.len();
            for (i, op) in ops.into_iter().enumerate() {
                let mut st = if i + 1 == n {
                    base_opt.take().unwrap()
                } else {
                    match m.fork(base_opt.as_ref().unwrap()) {
                        Some(s) => s,
                        None => rebuild(),
                    }
                };
                let r = catch(|| m.step(&mut st, &op));
                let r = match r {
                    Ok(Ok(class)) => Ok((class, m.fingerprint(&st), m.terminal(&st))),
                    Ok(Err(v)) => Err(v),
                    Err(p) => Err((format!("panic@{}", last_panic_location()), format!("harness step panicked: {p}"))),
                };
                results.push((op, r));
            }
            Expanded { results }
        });
        let mut next: Vec<Vec<M::Op>> = vec![];
        let mut new_states = 0u64;
        let mut local = Local::new();
        for (hist, ex) in frontier.iter().zip(expanded.into_iter()) {
            stats.alphabet_max = stats.alphabet_max.max(ex.results.len());
            for (op, r) in ex.results {
                stats.transitions += 1;
                local.evals += 1;
                match r {
                    Ok((class, fp, terminal)) => {
                        local.class(&class);
                        if seen.insert(fp) {
                            new_states += 1;
                            let mut h = hist.clone();
                            h.push(op);
                            local.sample(|| json!({"base": tag, "history": h.iter().map(|o| format!("{o:?}")).collect::<Vec<_>>(), "last_observation": class}));
                            if terminal || depth + 1 == max_depth {
                                stats.leaves += 1;
                            }
                            if !terminal {
                                next.push(h);
                            }
                        }
                    }
                    Err((key, what)) => {
                        let mut h: Vec<String> = hist.iter().map(|o| format!("{o:?}")).collect();
                        h.push(format!("{op:?}"));
                        local.violation(key, what, json!({"base": tag, "history": h}));
                    }
                }
            }
        }
        ctx.merge(local);
        stats.states += new_states;
        stats.per_depth_states.push(new_states);
        stats.max_depth = depth + 1;
        stats.depth_completed = depth + 1;
        frontier = next;
    }
    stats
}

/// 128-bit FNV-1a style fingerprint for large canonical forms.
pub fn fp128(bytes: &[u8]) -> Vec<u8> {
    let mut h: u128 = 0x6c62272e07bb014262b821756295c58d;
    for b in bytes {
        h ^= *b as u128;
        h = h.wrapping_mul(0x0000000001000000000000000000013B);
    }
    h.to_le_bytes().to_vec()
}

pub fn hex(b: &[u8]) -> String {
    let mut s = String::with_capacity(b.len() * 2);
    for x in b {
        s.push_str(&format!("{x:02x}"));
    }
    s
}

pub fn unhex(s: &str) -> Vec<u8> {
    (0..s.len() / 2).map(|i| u8::from_str_radix(&s[2 * i..2 * i + 2], 16).unwrap_or(0)).collect()
}
