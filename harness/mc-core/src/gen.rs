//! Bounded-exhaustive generators.

/// Number of strings of length <= l over an alphabet of size a.
pub fn count_upto(a: u64, l: u32) -> u64 {
    let mut t = 0u64;
    let mut p = 1u64;
    for _ in 0..=l {
        t += p;
        p = p.saturating_mul(a);
    }
    t
}

/// Decode index -> string (length-lexicographic) over `alphabet`; index in 0..count_upto(a, l).
pub fn nth_string<T: Copy>(alphabet: &[T], mut idx: u64, out: &mut Vec<T>) {
    out.clear();
    let a = alphabet.len() as u64;
    let mut len = 0u32;
    let mut block = 1u64;
    while idx >= block {
        idx -= block;
        block *= a;
        len += 1;
    }
    for _ in 0..len {
        out.push(alphabet[(idx % a) as usize]);
        idx /= a;
    }
}

/// Every single-point mutation of `bytes`: substitute each position with each value of `alphabet`,
/// delete each byte, duplicate each byte, truncate at each length, append each alphabet byte.
pub fn mutations(bytes: &[u8], alphabet: &[u8], mut f: impl FnMut(&[u8])) {
    let mut buf = bytes.to_vec();
    for i in 0..bytes.len() {
        let orig = bytes[i];
        for &a in alphabet {
            if a != orig {
                buf[i] = a;
                f(&buf);
            }
        }
        buf[i] = orig;
    }
    for i in 0..bytes.len() {
        let mut v = bytes.to_vec();
        v.remove(i);
        f(&v);
        let mut v = bytes.to_vec();
        v.insert(i, bytes[i]);
        f(&v);
    }
    for l in 0..bytes.len() {
        f(&bytes[..l]);
    }
    for &a in alphabet {
        let mut v = bytes.to_vec();
        v.push(a);
        f(&v);
    }
}

pub const ALL_BYTES: [u8; 256] = {
    let mut a = [0u8; 256];
    let mut i = 0;
    while i < 256 {
        a[i] = i as u8;
        i += 1;
    }
    a
};

/// All sequences of length exactly n over 0..a (as index vectors), via callback.
pub fn seqs_exact(a: usize, n: usize, f: &mut impl FnMut(&[usize])) {
    let mut cur = vec![0usize; n];
    if a == 0 && n > 0 {
        return;
    }
    loop {
        f(&cur);
        let mut i = n;
        loop {
            if i == 0 {
                return;
            }
            i -= 1;
            cur[i] += 1;
            if cur[i] < a {
                break;
            }
            cur[i] = 0;
        }
    }
}

/// All subsets of 0..n as bitmasks.
pub fn subsets(n: usize) -> impl Iterator<Item = u32> {
    0..(1u32 << n)
}
