//! Harness-owned `WasmEngine` wrapper and cooperative scheduler for C01.
//!
//! `DetEngine` wraps ONE real `WasmiEngine` (the object shared between concurrently executing
//! transactions: its moka `modules_cache` and, through the cached `Arc<WasmiModule>`, the per-module
//! `wasmi::Engine` with lazy function translation). Every `instantiate` call of the Radix VM goes through
//! `DetEngine::instantiate`, which
//!   * consults the calling thread's *plan*: answer this call from the shared real engine (a hit when the
//!     engine is warm) or from a brand-new real `WasmiEngine` (guaranteed miss: compile path) — both are the
//!     real `WasmiEngine::instantiate`;
//!   * is a scheduling point of the cooperative scheduler (before and after the real call).
//! Nothing of the engine is re-implemented.
use mc_ledger::*;
use std::cell::RefCell;
use std::sync::atomic::{AtomicU64, Ordering};
use std::sync::{Arc, Condvar, Mutex};
use std::time::Duration;

// ------------------------------------------------------------------------------------------------
// per-thread control block
// ------------------------------------------------------------------------------------------------

#[derive(Clone, Debug, PartialEq, Eq)]
pub enum Plan {
    /// every call goes to the shared engine
    Shared,
    /// the calls with these indices (0-based, in call order of this transaction) are forced misses
    Miss(Vec<usize>),
    /// every call is a forced miss
    AllMiss,
}

impl Plan {
    fn is_miss(&self, i: usize) -> bool {
        match self {
            Plan::Shared => false,
            Plan::Miss(v) => v.contains(&i),
            Plan::AllMiss => true,
        }
    }
    pub fn label(&self) -> String {
        match self {
            Plan::Shared => "all-shared".into(),
            Plan::Miss(v) => format!("miss@{v:?}"),
            Plan::AllMiss => "all-miss".into(),
        }
    }
}

struct Ctl {
    plan: Plan,
    sched: Option<(Arc<Sched>, usize)>,
    calls: usize,
    /// code hashes in call order (first 8 bytes)
    log: Vec<[u8; 8]>,
}

thread_local! {
    static CTL: RefCell<Ctl> = RefCell::new(Ctl { plan: Plan::Shared, sched: None, calls: 0, log: vec![] });
}

#[derive(Clone, Debug, Default, PartialEq, Eq)]
pub struct CallReport {
    pub calls: usize,
    pub code_hashes: Vec<[u8; 8]>,
}

/// Run `f` on this thread with the given plan / scheduler registration; returns what `f` returned and the
/// sequence of `instantiate` calls the thread made.
pub fn with_ctl<R>(plan: Plan, sched: Option<(Arc<Sched>, usize)>, f: impl FnOnce() -> R) -> (R, CallReport) {
    CTL.with(|c| {
        let mut c = c.borrow_mut();
        c.plan = plan;
        c.sched = sched;
        c.calls = 0;
        c.log.clear();
    });
    let r = f();
    let rep = CTL.with(|c| {
        let mut c = c.borrow_mut();
        c.plan = Plan::Shared;
        c.sched = None;
        CallReport { calls: c.calls, code_hashes: std::mem::take(&mut c.log) }
    });
    (r, rep)
}

// ------------------------------------------------------------------------------------------------
// the wrapper
// ------------------------------------------------------------------------------------------------

pub struct DetEngine {
    shared: WasmiEngine,
    pub shared_calls: AtomicU64,
    pub forced_misses: AtomicU64,
}

impl DetEngine {
    pub fn new() -> Self {
        DetEngine { shared: WasmiEngine::default(), shared_calls: AtomicU64::new(0), forced_misses: AtomicU64::new(0) }
    }
}

pub struct DetInstance {
    inner: WasmiInstance,
}

impl WasmInstance for DetInstance {
    fn invoke_export<'r>(&mut self, func_name: &str, args: Vec<Buffer>, runtime: &mut Box<dyn WasmRuntime + 'r>) -> Result<Vec<u8>, InvokeError<WasmRuntimeError>> {
        self.inner.invoke_export(func_name, args, runtime)
    }
}

impl WasmEngine for DetEngine {
    type WasmInstance = DetInstance;

    fn instantiate(&self, code_hash: CodeHash, instrumented_code: &[u8]) -> DetInstance {
        let (miss, sched) = CTL.with(|c| {
            let mut c = c.borrow_mut();
            let i = c.calls;
            c.calls += 1;
            let mut h = [0u8; 8];
            h.copy_from_slice(&code_hash.0 .0[..8]);
            c.log.push(h);
            (c.plan.is_miss(i), c.sched.clone())
        });
        if let Some((s, tid)) = &sched {
            s.yield_point(*tid, Point::PreInstantiate);
        }
        let inner = if miss {
            self.forced_misses.fetch_add(1, Ordering::Relaxed);
            // brand-new real engine: empty cache, so the real instantiate takes its compile path
            WasmiEngine::default().instantiate(code_hash, instrumented_code)
        } else {
            self.shared_calls.fetch_add(1, Ordering::Relaxed);
            self.shared.instantiate(code_hash, instrumented_code)
        };
        if let Some((s, tid)) = &sched {
            s.yield_point(*tid, Point::PostInstantiate);
        }
        DetInstance { inner }
    }
}

pub type DetVm = VmModules<DetEngine, NoExtension>;

pub fn new_det_vm() -> DetVm {
    VmModules::new(ScryptoVm { wasm_engine: DetEngine::new(), wasm_validator_config: WasmValidatorConfigV1::new() }, NoExtension)
}

pub fn new_real_vm() -> DefaultVmModules {
    DefaultVmModules::default()
}

// ------------------------------------------------------------------------------------------------
// cooperative scheduler (condvar hand-off): exactly one registered thread runs at any time
// ------------------------------------------------------------------------------------------------

#[derive(Clone, Copy, Debug, PartialEq, Eq)]
pub enum Point {
    Start,
    PreInstantiate,
    PostInstantiate,
}

impl Point {
    fn code(&self) -> u8 {
        match self {
            Point::Start => b'S',
            Point::PreInstantiate => b'i',
            Point::PostInstantiate => b'I',
        }
    }
}

struct SchedState {
    n: usize,
    turn: Option<usize>,
    parked: Vec<Option<Point>>,
    done: Vec<bool>,
    prefix: Vec<usize>,
    decisions: Vec<Decision>,
    trace: Vec<(usize, u8)>,
    running: Option<usize>,
    preempt: u32,
    diverged: bool,
}

impl SchedState {
    /// If no thread holds the processor and every thread is parked at a scheduling point or finished, take the
    /// next scheduling decision (prefix first, then the default policy: continue the running thread, else the
    /// lowest id). Called under the lock by whichever thread established that condition, so a decision that
    /// keeps the same thread running costs no context switch.
    fn try_decide(&mut self) {
        if self.turn.is_some() || !(0..self.n).all(|i| self.done[i] || self.parked[i].is_some()) {
            return;
        }
        let enabled: Vec<usize> = (0..self.n).filter(|i| !self.done[*i]).collect();
        if enabled.is_empty() {
            return;
        }
        let cur = self.running.filter(|r| enabled.contains(r));
        let default = cur.unwrap_or(enabled[0]);
        let k = self.decisions.len();
        let chosen = if k < self.prefix.len() {
            if enabled.contains(&self.prefix[k]) {
                self.prefix[k]
            } else {
                self.diverged = true;
                default
            }
        } else {
            default
        };
        let cost = (cur.is_some() && Some(chosen) != cur) as u32;
        self.decisions.push(Decision { enabled, chosen, cur, preempt_before: self.preempt });
        self.preempt += cost;
        self.trace.push((chosen, self.parked[chosen].map(|p| p.code()).unwrap_or(b'?')));
        self.turn = Some(chosen);
        self.running = Some(chosen);
    }
}

pub struct Sched {
    st: Mutex<SchedState>,
    cv: Condvar,
}

#[derive(Clone, Debug)]
pub struct Decision {
    pub enabled: Vec<usize>,
    pub chosen: usize,
    /// the thread that ran the previous segment, if it is still enabled (choosing another one is a preemption)
    pub cur: Option<usize>,
    pub preempt_before: u32,
}

impl Decision {
    /// candidate order: default choice first (continue the running thread, else lowest id), then the others ascending
    fn order(&self) -> Vec<usize> {
        let def = self.cur.unwrap_or(self.enabled[0]);
        let mut v = vec![def];
        v.extend(self.enabled.iter().copied().filter(|x| *x != def));
        v
    }
    pub fn is_preemption(&self) -> bool {
        self.cur.is_some() && Some(self.chosen) != self.cur
    }
}

const SCHED_TIMEOUT: Duration = Duration::from_secs(600);

impl Sched {
    pub fn new(n: usize, prefix: &[usize]) -> Arc<Sched> {
        Arc::new(Sched {
            st: Mutex::new(SchedState {
                n,
                turn: None,
                parked: vec![None; n],
                done: vec![false; n],
                prefix: prefix.to_vec(),
                decisions: vec![],
                trace: vec![],
                running: None,
                preempt: 0,
                diverged: false,
            }),
            cv: Condvar::new(),
        })
    }

    /// Called by a registered worker: give up the processor and wait to be scheduled again.
    pub fn yield_point(&self, tid: usize, p: Point) {
        let mut g = self.st.lock().unwrap();
        g.parked[tid] = Some(p);
        if g.turn == Some(tid) {
            g.turn = None;
        }
        g.try_decide();
        if g.turn != Some(tid) {
            self.cv.notify_all();
            while g.turn != Some(tid) {
                let (ng, to) = self.cv.wait_timeout(g, SCHED_TIMEOUT).unwrap();
                g = ng;
                if to.timed_out() && g.turn != Some(tid) {
                    mc_core::machinery_error("C01 scheduler: a worker waited 600 s for its turn");
                }
            }
        }
        g.parked[tid] = None;
    }

    pub fn finished(&self, tid: usize) {
        let mut g = self.st.lock().unwrap();
        g.done[tid] = true;
        if g.turn == Some(tid) {
            g.turn = None;
        }
        g.try_decide();
        self.cv.notify_all();
    }

    /// After all workers were joined: (decisions, trace of (thread, point it was resumed from), diverged).
    pub fn result(&self) -> (Vec<Decision>, Vec<(usize, u8)>, bool) {
        let g = self.st.lock().unwrap();
        (g.decisions.clone(), g.trace.clone(), g.diverged)
    }
}

/// Next schedule prefix in depth-first order under the preemption bound, or None when exhausted.
pub fn next_prefix(decisions: &[Decision], bound: u32) -> Option<Vec<usize>> {
    let mut i = decisions.len();
    while i > 0 {
        i -= 1;
        let d = &decisions[i];
        let order = d.order();
        let pos = order.iter().position(|c| *c == d.chosen).unwrap_or(order.len() - 1);
        for c in &order[pos + 1..] {
            let cost = (d.cur.is_some() && Some(*c) != d.cur) as u32;
            if d.preempt_before + cost <= bound {
                let mut p: Vec<usize> = decisions[..i].iter().map(|x| x.chosen).collect();
                p.push(*c);
                return Some(p);
            }
        }
    }
    None
}

pub struct Job<'a> {
    pub exe: &'a ExecutableTransaction,
    pub cfg: &'a ExecutionConfig,
}

pub struct ScheduleRun {
    /// per thread: Ok(digest hex) or Err(panic text)
    pub outcomes: Vec<Result<String, String>>,
    pub reports: Vec<CallReport>,
    pub decisions: Vec<Decision>,
    pub trace: Vec<(usize, u8)>,
    pub diverged: bool,
}

/// A team of long-lived OS threads, one per job, that executes the same jobs again and again under different
/// schedules (fresh threads per schedule would spend most of their time in thread start-up and cold allocator
/// arenas). `f` receives a function `run(vm, prefix)` that executes all jobs once, each on its own thread,
/// against the same database and the same `vm`, under the cooperative scheduler following `prefix`.
pub fn with_team<R>(db: &InMemorySubstateDatabase, jobs: &[Job], f: impl FnOnce(&dyn Fn(Arc<DetVm>, &[usize]) -> ScheduleRun) -> R) -> R {
    use std::sync::mpsc;
    let n = jobs.len();
    std::thread::scope(|s| {
        let (res_tx, res_rx) = mpsc::channel::<(usize, Result<String, String>, CallReport)>();
        let mut go_txs = vec![];
        for (tid, job) in jobs.iter().enumerate() {
            let (go_tx, go_rx) = mpsc::channel::<Option<(Arc<Sched>, Arc<DetVm>)>>();
            go_txs.push(go_tx);
            let res_tx = res_tx.clone();
            s.spawn(move || {
                while let Ok(Some((sched, vm))) = go_rx.recv() {
                    let (r, rep) = with_ctl(Plan::Shared, Some((sched.clone(), tid)), || {
                        sched.yield_point(tid, Point::Start);
                        mc_core::catch(|| radix_engine::transaction::execute_transaction(db, &*vm, job.cfg, job.exe)).map(|r| crate::world::digest(&r))
                    });
                    drop(vm);
                    sched.finished(tid);
                    if res_tx.send((tid, r, rep)).is_err() {
                        break;
                    }
                }
            });
        }
        let run = |vm: Arc<DetVm>, prefix: &[usize]| -> ScheduleRun {
            let sched = Sched::new(n, prefix);
            for tx in &go_txs {
                tx.send(Some((sched.clone(), vm.clone()))).unwrap_or_else(|_| mc_core::machinery_error("C01 scheduler: a team thread died"));
            }
            let mut outcomes: Vec<Option<Result<String, String>>> = (0..n).map(|_| None).collect();
            let mut reports: Vec<CallReport> = vec![CallReport::default(); n];
            for _ in 0..n {
                match res_rx.recv_timeout(SCHED_TIMEOUT) {
                    Ok((tid, r, rep)) => {
                        outcomes[tid] = Some(r);
                        reports[tid] = rep;
                    }
                    Err(_) => mc_core::machinery_error("C01 scheduler: no result from a team thread within 600 s"),
                }
            }
            let ctl = sched.result();
            ScheduleRun { outcomes: outcomes.into_iter().map(|o| o.unwrap()).collect(), reports, decisions: ctl.0, trace: ctl.1, diverged: ctl.2 }
        };
        let r = f(&run);
        for tx in &go_txs {
            let _ = tx.send(None);
        }
        r
    })
}

pub fn trace_string(trace: &[(usize, u8)]) -> String {
    trace.iter().map(|(t, p)| format!("{t}{}", *p as char)).collect::<Vec<_>>().join(" ")
}
