//! C01 — transaction execution is deterministic.
//!
//! Subjects: every (state, transaction) pair of the breadth-first exploration of the standard transaction
//! menu (+ WASM-heavy extras) from the base world. For each pair the baseline digest D0 (= `receipt_digest`
//! of one sequential run, default config, brand-new real `VmModules`) is compared with the digest of the
//! *same executable on the same database* under every variation of
//!   (0) plain repetition (same config, new VmModules, new hash seeds),
//!   (a) the diagnostic settings (24 = kernel trace × cost breakdown × execution trace {None,1,MAX} × debug info),
//!   (b) the code-cache hit/miss pattern (all vectors with ≤ 2 forced misses + all-miss, through `DetEngine`),
//!   (c) the OS process (a re-exec'd child repeats the exploration; digest logs compared line by line; the
//!       child also hosts the kernel-trace half of (a), its stdout is discarded),
//!   (d) the history (byte-identical databases reached through different paths),
//!   (e) the thread schedule (2/3 threads on one shared engine under the cooperative scheduler, ≤ 2 preemptions).
//! Nothing is committed by a compared run: the database only advances by applying D0's own state updates.
use crate::engine::*;
use crate::world::*;
use mc_core::{bfs, par_map, BfsStats, Ctx, Machine};
use mc_ledger::menu::Tx;
use mc_ledger::*;
use serde_json::{json, Map, Value};
use std::collections::{BTreeMap, BTreeSet};
use std::io::Write as _;
use std::sync::atomic::{AtomicU64, Ordering};
use std::sync::Mutex;

macro_rules! say {
    ($($arg:tt)*) => {
        if std::env::var("MC_DET_QUIET").is_ok() { eprintln!($($arg)*); } else { println!($($arg)*); }
    };
}

#[derive(Clone, Copy, PartialEq, Eq, Debug)]
enum Role {
    Parent,
    Child,
}

struct Vms {
    real: DefaultVmModules,
    det: DetVm,
}

struct Pool(Mutex<Vec<Vms>>);

impl Pool {
    fn with<R>(&self, f: impl FnOnce(&mut Vms) -> R) -> R {
        let got = self.0.lock().unwrap().pop();
        let mut v = got.unwrap_or_else(|| Vms { real: new_real_vm(), det: new_det_vm() });
        let r = f(&mut v);
        self.0.lock().unwrap().push(v);
        r
    }
}

#[derive(Default)]
struct Collector {
    violations: Mutex<Vec<(String, String, Value)>>,
    violation_counts: Mutex<BTreeMap<String, u64>>,
    classes: Mutex<BTreeMap<String, u64>>,
    infos: Mutex<BTreeMap<String, u64>>,
    /// key "history|op" -> (executable id, D0, receipt class)
    log: Mutex<BTreeMap<String, (String, String, String)>>,
    /// child only: key "history|op|cfg" -> digest under a kernel-trace config
    klog: Mutex<BTreeMap<String, String>>,
    /// raw database id of the post-state -> histories reaching it
    dcand: Mutex<BTreeMap<String, Vec<Vec<Op>>>>,
    executions: AtomicU64,
    cfg_runs: AtomicU64,
    cache_runs: AtomicU64,
    cache_forced_misses: AtomicU64,
    cache_max_calls: AtomicU64,
    sched_runs: AtomicU64,
    sched_subjects: AtomicU64,
    sched_max_points: AtomicU64,
    hist_cmp: AtomicU64,
    replay_cmp: AtomicU64,
    smoke_runs: AtomicU64,
}

impl Collector {
    fn class(&self, c: &str, n: u64) {
        *self.classes.lock().unwrap().entry(c.to_string()).or_insert(0) += n;
    }
    fn info(&self, c: &str, n: u64) {
        *self.infos.lock().unwrap().entry(c.to_string()).or_insert(0) += n;
    }
    fn violation(&self, key: String, what: String, case: Value) {
        let n = {
            let mut seen = self.violation_counts.lock().unwrap();
            let e = seen.entry(key.clone()).or_insert(0);
            *e += 1;
            *e
        };
        // keep the first few instances of every class in full, count the rest
        if n <= 8 {
            self.violations.lock().unwrap().push((key, what, case));
        } else {
            self.class("violation(further-instances-counted-only)", 1);
        }
    }
    /// true for the first instances of a violation class: only those get the (expensive) stability re-runs
    fn detail_budget(&self, key: &str) -> bool {
        *self.violation_counts.lock().unwrap().get(key).unwrap_or(&0) < 3
    }
    fn ex(&self, n: u64) {
        self.executions.fetch_add(n, Ordering::Relaxed);
    }
}

fn names(h: &[Op]) -> Vec<String> {
    h.iter().map(|o| o.name()).collect()
}

/// Re-run both sides twice more so that the report says whether the difference is stable.
fn describe_mismatch(d0: &str, dv: &str, rerun_d0: &dyn Fn() -> String, rerun_v: &dyn Fn() -> String) -> String {
    let a: Vec<String> = (0..2).map(|_| rerun_d0()).collect();
    let b: Vec<String> = (0..2).map(|_| rerun_v()).collect();
    let short = |s: &str| mc_core::truncate(s, 24);
    format!(
        "baseline {} vs variant {}; re-runs: baseline {:?} ({}), variant {:?} ({})",
        short(d0),
        short(dv),
        a.iter().map(|s| short(s)).collect::<Vec<_>>(),
        if a.iter().all(|x| x == d0) { "stable" } else { "UNSTABLE" },
        b.iter().map(|s| short(s)).collect::<Vec<_>>(),
        if b.iter().all(|x| x == dv) { "stable" } else { "UNSTABLE" },
    )
}

// ------------------------------------------------------------------------------------------------
// per-(state, transaction) variation sweep: dimensions (a) and (b)
// ------------------------------------------------------------------------------------------------

/// All miss plans with ≤ 2 forced misses among `n` instantiate calls, plus all-miss.
fn miss_plans(n: usize) -> Vec<Plan> {
    let mut v = vec![];
    for i in 0..n {
        v.push(Plan::Miss(vec![i]));
    }
    for i in 0..n {
        for j in i + 1..n {
            v.push(Plan::Miss(vec![i, j]));
        }
    }
    if n > 2 {
        v.push(Plan::AllMiss);
    }
    v
}

/// Dimension (a): only the diagnostic settings vary — every run uses a brand-new real VmModules like D0.
fn sweep_configs(col: &Collector, db: &InMemorySubstateDatabase, exe: &Exe, d0: &str, kernel_trace: bool, hist: &[Op], op: Op, mut record: impl FnMut(&str, &str)) {
    for (label, cfg) in cfg_variants(&exe.cfg, kernel_trace) {
        let d = outcome_of(&run_once(db, &new_real_vm(), &cfg, &exe.exe));
        col.ex(1);
        col.cfg_runs.fetch_add(1, Ordering::Relaxed);
        record(&label, &d);
        if d != d0 {
            let what = if col.detail_budget(&format!("config:{label}")) {
                describe_mismatch(d0, &d, &|| outcome_of(&run_once(db, &new_real_vm(), &exe.cfg, &exe.exe)), &|| outcome_of(&run_once(db, &new_real_vm(), &cfg, &exe.exe)))
            } else {
                format!("baseline {} vs variant {}", mc_core::truncate(d0, 24), mc_core::truncate(&d, 24))
            };
            col.violation(
                format!("config:{label}"),
                format!("digest changes with diagnostic settings {label} for {} after {}: {what}", op.name(), hist_string(hist)),
                json!({"dimension": "config", "history": names(hist), "op": op.name(), "config": label, "kernel_trace": kernel_trace}),
            );
        } else {
            col.class("config:equal", 1);
        }
    }
}

fn sweep_cache(col: &Collector, db: &InMemorySubstateDatabase, det: &DetVm, exe: &Exe, d0: &str, hist: &[Op], op: Op) {
    let run = |plan: Plan| -> (String, CallReport) {
        let (r, rep) = with_ctl(plan, None, || run_once(db, det, &exe.cfg, &exe.exe));
        (outcome_of(&r), rep)
    };
    let check = |kind: &str, plan: Plan, d: &str| {
        col.ex(1);
        col.cache_runs.fetch_add(1, Ordering::Relaxed);
        if d != d0 {
            let p2 = plan.clone();
            let what = if col.detail_budget(&format!("cache:{kind}")) {
                describe_mismatch(d0, d, &|| outcome_of(&run_once(db, &new_real_vm(), &exe.cfg, &exe.exe)), &|| run(p2.clone()).0)
            } else {
                format!("baseline {} vs variant {}", mc_core::truncate(d0, 24), mc_core::truncate(d, 24))
            };
            col.violation(
                format!("cache:{kind}"),
                format!("digest changes with the code-cache pattern {} for {} after {}: {what}", plan.label(), op.name(), hist_string(hist)),
                json!({"dimension": "cache", "history": names(hist), "op": op.name(), "plan": plan.label()}),
            );
        } else {
            col.class(&format!("cache:{kind}:equal"), 1);
        }
    };
    // first touch on the long-lived engine (hit or miss depending on what this worker ran before)
    let (d, rep0) = run(Plan::Shared);
    check("first-touch", Plan::Shared, &d);
    let n = rep0.calls;
    col.cache_max_calls.fetch_max(n as u64, Ordering::Relaxed);
    if n == 0 {
        col.class("cache:no-wasm-call", 1);
        return;
    }
    // now every code hash of this transaction is in the shared cache: all hit
    let (d, rep) = run(Plan::Shared);
    check("all-hit", Plan::Shared, &d);
    if rep != rep0 {
        col.info("cache:instantiate-sequence-differs-between-runs", 1);
    }
    for plan in miss_plans(n) {
        let kind = match &plan {
            Plan::Miss(v) if v.len() == 1 => "one-miss",
            Plan::Miss(_) => "two-misses",
            _ => "all-miss",
        };
        let (d, rep) = run(plan.clone());
        col.cache_forced_misses.fetch_add(
            match &plan {
                Plan::Miss(v) => v.len() as u64,
                _ => rep.calls as u64,
            },
            Ordering::Relaxed,
        );
        check(kind, plan, &d);
        if rep != rep0 {
            col.info("cache:instantiate-sequence-differs-between-runs", 1);
        }
    }
}

// ------------------------------------------------------------------------------------------------
// the explorer machine
// ------------------------------------------------------------------------------------------------

struct DetMachine<'a> {
    root: &'a Root,
    role: Role,
    col: &'a Collector,
    pool: &'a Pool,
    menu: Vec<Op>,
}

impl<'a> Machine for DetMachine<'a> {
    type Op = Op;
    type St = St;

    fn init(&self) -> St {
        St::new(self.root)
    }

    fn ops(&self, st: &St, _depth: usize) -> Vec<Op> {
        // the explorer has finished rebuilding this state; from now on steps are the real subjects
        st.live.set(true);
        self.menu.clone()
    }

    fn fork(&self, st: &St) -> Option<St> {
        Some(st.fork())
    }

    fn step(&self, st: &mut St, op: &Op) -> Result<String, (String, String)> {
        let op = *op;
        let col = self.col;
        let nonce = st.next_nonce(op);
        let exe = match build_exe(&mut st.sim, self.root, op, nonce) {
            Ok(e) => e,
            Err(p) => mc_core::machinery_error(&format!("C01: cannot build executable for {} after {}: {p}", op.name(), st.hist_string())),
        };
        let key = format!("{}|{}", st.hist_string(), op.name());
        let hist = st.hist.clone();

        if !st.live.get() {
            // rebuilding a frontier state: one plain run on the worker's long-lived real VM; as a by-product the
            // digest must equal the D0 logged when this transition was first explored (an earlier layer)
            let r = self.pool.with(|v| run_once(st.sim.substate_db(), &v.real, &exe.cfg, &exe.exe));
            col.ex(1);
            let d = outcome_of(&r);
            let logged = col.log.lock().unwrap().get(&key).cloned();
            if let Some((_, d0, _)) = logged {
                col.replay_cmp.fetch_add(1, Ordering::Relaxed);
                if d0 != d {
                    col.violation(
                        "rerun:later-layer".into(),
                        format!("re-execution of {} after {} while rebuilding a deeper state gave {} instead of the logged {}", op.name(), hist_string(&hist), mc_core::truncate(&d, 24), mc_core::truncate(&d0, 24)),
                        json!({"dimension": "rerun", "history": names(&hist), "op": op.name()}),
                    );
                } else {
                    col.class("rerun:equal", 1);
                }
            }
            let class = r.as_ref().map(receipt_class).unwrap_or_else(|_| "engine-panic".into());
            st.apply(self.root, op, r.as_ref().ok());
            return Ok(format!("{}:{}", op.name(), class));
        }

        // ---- D0: sequential run, default config, brand-new real VmModules (cold cache)
        let r0 = run_once(st.sim.substate_db(), &new_real_vm(), &exe.cfg, &exe.exe);
        col.ex(1);
        let d0 = outcome_of(&r0);
        let class = r0.as_ref().map(receipt_class).unwrap_or_else(|_| "engine-panic".into());
        if r0.is_err() {
            col.info(&format!("engine-panic:{}", op.name()), 1);
        }
        col.log.lock().unwrap().insert(key.clone(), (exe.id.clone(), d0.clone(), class.clone()));

        {
            let db = st.sim.substate_db();
            // plain repetition first (same config, again a brand-new VmModules; only the hash seeds differ): when the
            // baseline itself is not reproducible every other comparison of this transition would be noise
            let d0b = outcome_of(&run_once(db, &new_real_vm(), &exe.cfg, &exe.exe));
            col.ex(1);
            if d0b != d0 {
                let what = if col.detail_budget("repeat") {
                    describe_mismatch(&d0, &d0b, &|| outcome_of(&run_once(db, &new_real_vm(), &exe.cfg, &exe.exe)), &|| outcome_of(&run_once(db, &new_real_vm(), &exe.cfg, &exe.exe)))
                } else {
                    format!("first run {} vs second run {}", mc_core::truncate(&d0, 24), mc_core::truncate(&d0b, 24))
                };
                col.violation(
                    "repeat".into(),
                    format!("two sequential runs of {} after {} with the same config on brand-new VmModules in one process differ: {what}", op.name(), hist_string(&hist)),
                    json!({"dimension": "repeat", "history": names(&hist), "op": op.name()}),
                );
            } else {
                col.class("repeat:equal", 1);
                match self.role {
                    Role::Parent => {
                        sweep_configs(col, db, &exe, &d0, false, &hist, op, |_, _| {});
                        self.pool.with(|v| sweep_cache(col, db, &v.det, &exe, &d0, &hist, op));
                    }
                    Role::Child => sweep_configs(col, db, &exe, &d0, true, &hist, op, |label, d| {
                        col.klog.lock().unwrap().insert(format!("{key}|{label}"), d.to_string());
                    }),
                }
            }
        }

        st.apply(self.root, op, r0.as_ref().ok());
        if self.role == Role::Parent {
            col.dcand.lock().unwrap().entry(st.raw_id()).or_default().push(st.hist.clone());
        }
        Ok(format!("{}:{}", op.name(), class))
    }

    fn fingerprint(&self, st: &St) -> Vec<u8> {
        st.fp.clone()
    }
}

fn tier_depth(ctx: &Ctx) -> usize {
    ctx.pick(2, 3)
}

fn bfs_wall_cap(ctx: &Ctx) -> f64 {
    ctx.pick(150.0, 2400.0)
}

// ------------------------------------------------------------------------------------------------
// child process: same exploration, kernel trace on, results in a log file
// ------------------------------------------------------------------------------------------------

fn child(ctx: Ctx, path: String) -> ! {
    let _keepalive = WasmiEngine::default();
    let root = build_root();
    let col = Collector::default();
    let pool = Pool(Mutex::new(vec![]));
    let m = DetMachine { root: &root, role: Role::Child, col: &col, pool: &pool, menu: full_menu() };
    let stats = bfs(&ctx, &m, "child", tier_depth(&ctx), 2_000_000, bfs_wall_cap(&ctx));
    let mut out = String::new();
    out.push_str(&format!("S|{}|{}|{}|{}\n", stats.states, stats.transitions, stats.depth_completed, stats.capped as u8));
    out.push_str(&format!("N|{}|{}\n", col.executions.load(Ordering::Relaxed), col.cfg_runs.load(Ordering::Relaxed)));
    for (k, (id, d0, _)) in col.log.lock().unwrap().iter() {
        out.push_str(&format!("P|{k}|{id}|{d0}\n"));
    }
    for (k, d) in col.klog.lock().unwrap().iter() {
        out.push_str(&format!("K|{k}|{d}\n"));
    }
    for (k, w, c) in col.violations.lock().unwrap().iter() {
        out.push_str(&format!("V|{}\n", json!({"key": k, "what": w, "case": c})));
    }
    for (k, n) in col.infos.lock().unwrap().iter() {
        out.push_str(&format!("I|{k}|{n}\n"));
    }
    if ctx.has_violations() {
        out.push_str("E|explorer reported step failures in the child\n");
    }
    let tmp = format!("{path}.tmp");
    let ok = std::fs::File::create(&tmp).and_then(|mut f| f.write_all(out.as_bytes())).and_then(|_| std::fs::rename(&tmp, &path));
    if let Err(e) = ok {
        eprintln!("C01 child: cannot write log {path}: {e}");
        std::process::exit(2);
    }
    std::process::exit(0)
}

// ------------------------------------------------------------------------------------------------
// (d) history independence
// ------------------------------------------------------------------------------------------------

fn history_pass(ctx: &Ctx, root: &Root, col: &Collector, pool: &Pool, menu: &[Op]) -> (usize, usize) {
    let mut groups: Vec<Vec<Vec<Op>>> = vec![];
    for (_, hs) in col.dcand.lock().unwrap().iter() {
        let mut d: Vec<Vec<Op>> = hs.clone();
        d.sort_by_key(|h| (h.len(), hist_string(h)));
        d.dedup();
        if d.len() >= 2 {
            groups.push(d);
        }
    }
    groups.sort_by_key(|g| (g[0].len(), hist_string(&g[0])));
    let total = groups.len();
    let cap = ctx.pick(400, 3000);
    let members = 2;
    groups.truncate(cap);
    let checked = groups.len();
    const D_NONCE: u32 = 9_000_000;
    par_map(ctx.threads, &groups, |g| {
        pool.with(|v| {
            let mut sts: Vec<St> = vec![];
            for h in g.iter().take(members) {
                match rebuild(root, h, &v.real) {
                    Ok(st) => {
                        col.ex(h.len() as u64);
                        sts.push(st)
                    }
                    Err(e) => mc_core::machinery_error(&format!("C01 history pass: cannot rebuild {}: {e}", hist_string(h))),
                }
            }
            let (first, rest) = sts.split_at_mut(1);
            let s0 = &mut first[0];
            for si in rest.iter_mut() {
                if s0.sim.substate_db() != si.sim.substate_db() {
                    col.info("history:raw-id-equal-but-databases-differ(skipped)", 1);
                    continue;
                }
                for (i, op) in menu.iter().enumerate() {
                    let e0 = build_exe(&mut s0.sim, root, *op, D_NONCE + i as u32);
                    let ei = build_exe(&mut si.sim, root, *op, D_NONCE + i as u32);
                    let (Ok(e0), Ok(ei)) = (e0, ei) else {
                        col.info("history:executable-not-buildable(skipped)", 1);
                        continue;
                    };
                    if e0.exe != ei.exe {
                        col.info("history:executables-differ-on-equal-databases(skipped)", 1);
                        continue;
                    }
                    let d0 = outcome_of(&run_once(s0.sim.substate_db(), &v.real, &e0.cfg, &e0.exe));
                    let di = outcome_of(&run_once(si.sim.substate_db(), &v.real, &ei.cfg, &ei.exe));
                    col.ex(2);
                    col.hist_cmp.fetch_add(1, Ordering::Relaxed);
                    if d0 != di {
                        col.violation(
                            "history".into(),
                            format!(
                                "{} gives {} after {} but {} after {} although the two databases are byte-identical",
                                op.name(),
                                mc_core::truncate(&d0, 24),
                                hist_string(&s0.hist),
                                mc_core::truncate(&di, 24),
                                hist_string(&si.hist)
                            ),
                            json!({"dimension": "history", "history": names(&s0.hist), "other_history": names(&si.hist), "op": op.name()}),
                        );
                    } else {
                        col.class("history:equal", 1);
                    }
                }
            }
        })
    });
    (total, checked)
}

// ------------------------------------------------------------------------------------------------
// (e) schedules
// ------------------------------------------------------------------------------------------------

#[derive(Clone, Debug)]
struct SchedSubject {
    hist: Vec<Op>,
    ops: Vec<Op>,
    warm: bool,
}

struct SchedResult {
    schedules: u64,
    by_preemptions: [u64; 3],
    capped: bool,
    max_points: usize,
}

const PREEMPTION_BOUND: u32 = 2;

fn multisets(items: &[Op], k: usize) -> Vec<Vec<Op>> {
    fn rec(items: &[Op], k: usize, start: usize, cur: &mut Vec<Op>, out: &mut Vec<Vec<Op>>) {
        if cur.len() == k {
            out.push(cur.clone());
            return;
        }
        for i in start..items.len() {
            cur.push(items[i]);
            rec(items, k, i, cur, out);
            cur.pop();
        }
    }
    let mut out = vec![];
    rec(items, k, 0, &mut vec![], &mut out);
    out
}

fn prepare_subject(root: &Root, col: &Collector, real: &DefaultVmModules, sj: &SchedSubject) -> (St, Vec<Exe>, Vec<String>) {
    let mut st = rebuild(root, &sj.hist, real).unwrap_or_else(|e| mc_core::machinery_error(&format!("C01 schedules: cannot rebuild {}: {e}", hist_string(&sj.hist))));
    col.ex(sj.hist.len() as u64);
    let mut exes = vec![];
    let mut d0s = vec![];
    for op in &sj.ops {
        let nonce = st.next_nonce(*op);
        let exe = build_exe(&mut st.sim, root, *op, nonce).unwrap_or_else(|e| mc_core::machinery_error(&format!("C01 schedules: cannot build {}: {e}", op.name())));
        let d0 = outcome_of(&run_once(st.sim.substate_db(), &new_real_vm(), &exe.cfg, &exe.exe));
        col.ex(1);
        exes.push(exe);
        d0s.push(d0);
    }
    (st, exes, d0s)
}

fn fresh_sched_vm(db: &InMemorySubstateDatabase, exes: &[Exe], warm: bool) -> std::sync::Arc<DetVm> {
    let vm = std::sync::Arc::new(new_det_vm());
    if warm {
        for e in exes {
            let _ = with_ctl(Plan::Shared, None, || run_once(db, &*vm, &e.cfg, &e.exe));
        }
    }
    vm
}

fn explore_subject(root: &Root, col: &Collector, pool: &Pool, sj: &SchedSubject, cap: u64) -> SchedResult {
    let (st, exes, d0s) = pool.with(|v| prepare_subject(root, col, &v.real, sj));
    let db = st.sim.substate_db();
    let jobs: Vec<Job> = exes.iter().map(|e| Job { exe: &e.exe, cfg: &e.cfg }).collect();
    // sequential instantiate sequences (informational comparison only)
    let seq_reports: Vec<CallReport> = {
        let vm = new_det_vm();
        exes.iter().map(|e| with_ctl(Plan::Shared, None, || run_once(db, &vm, &e.cfg, &e.exe)).1).collect()
    };
    col.ex(exes.len() as u64);
    let mut res = SchedResult { schedules: 0, by_preemptions: [0; 3], capped: false, max_points: 0 };
    let mut prefix: Vec<usize> = vec![];
    with_team(db, &jobs, |run_schedule| loop {
        let vm = fresh_sched_vm(db, &exes, sj.warm);
        let run = run_schedule(vm, &prefix);
        col.ex(jobs.len() as u64 * if sj.warm { 2 } else { 1 });
        res.schedules += 1;
        res.max_points = res.max_points.max(run.decisions.len());
        let pre = run.decisions.iter().filter(|d| d.is_preemption()).count();
        res.by_preemptions[pre.min(2)] += 1;
        if run.diverged {
            col.info("schedule:prefix-not-replayable(thread finished earlier than in the previous run)", 1);
        }
        let choices: Vec<usize> = run.decisions.iter().map(|d| d.chosen).collect();
        for t in 0..jobs.len() {
            let got = match &run.outcomes[t] {
                Ok(d) => d.clone(),
                Err(p) => format!("PANIC:{p}"),
            };
            if run.reports[t] != seq_reports[t] {
                col.info("schedule:instantiate-sequence-differs-from-sequential-run", 1);
            }
            if got != d0s[t] {
                // run the very same schedule again before believing it (first instances of the class only)
                let (got2, same_trace) = if col.detail_budget(&format!("schedule:{}", if sj.warm { "warm" } else { "cold" })) {
                    let vm2 = fresh_sched_vm(db, &exes, sj.warm);
                    let again = run_schedule(vm2, &choices);
                    let got2 = match &again.outcomes[t] {
                        Ok(d) => d.clone(),
                        Err(p) => format!("PANIC:{p}"),
                    };
                    (got2, again.trace == run.trace)
                } else {
                    ("(not re-run)".to_string(), true)
                };
                col.violation(
                    format!("schedule:{}", if sj.warm { "warm" } else { "cold" }),
                    format!(
                        "thread {t} ({}) got {} under schedule [{}] but {} sequentially (state after {}, threads {:?}); same schedule again: {} (trace {})",
                        sj.ops[t].name(),
                        mc_core::truncate(&got, 24),
                        trace_string(&run.trace),
                        mc_core::truncate(&d0s[t], 24),
                        hist_string(&sj.hist),
                        names(&sj.ops),
                        mc_core::truncate(&got2, 24),
                        if same_trace { "identical" } else { "DIFFERENT" }
                    ),
                    json!({"dimension": "schedule", "history": names(&sj.hist), "ops": names(&sj.ops), "warm": sj.warm, "choices": choices, "thread": t}),
                );
            } else {
                col.class("schedule:thread-equals-sequential", 1);
            }
        }
        if res.schedules >= cap {
            res.capped = next_prefix(&run.decisions, PREEMPTION_BOUND).is_some();
            break;
        }
        match next_prefix(&run.decisions, PREEMPTION_BOUND) {
            Some(p) => prefix = p,
            None => break,
        }
    });
    col.sched_runs.fetch_add(res.schedules, Ordering::Relaxed);
    col.sched_subjects.fetch_add(1, Ordering::Relaxed);
    col.sched_max_points.fetch_max(res.max_points as u64, Ordering::Relaxed);
    res
}

fn schedule_subjects(ctx: &Ctx, menu: &[Op]) -> Vec<SchedSubject> {
    let mut v = vec![];
    let wasm_heavy = [Op::Std(Tx::Faucet), Op::Std(Tx::PublishWat), Op::CalcLoop, Op::CalcPingPong, Op::WasmMix];
    // one representative per distinct pattern of WASM use / outcome kind (triples)
    let representative = [
        Op::Std(Tx::TransferF),
        Op::Std(Tx::MintNf7),
        Op::Std(Tx::FailAssert),
        Op::Std(Tx::ContingentOk),
        Op::Std(Tx::Faucet),
        Op::Std(Tx::NextRound),
        Op::Std(Tx::PublishWat),
        Op::CalcPingPong,
        Op::WasmMix,
    ];
    let mut push_pairs = |hist: &Vec<Op>, ops: &[Op], self_pairs_of: &[Op], all_warm: bool| {
        let mut pairs = multisets(ops, 2);
        for o in self_pairs_of {
            if !ops.contains(o) {
                pairs.push(vec![*o, *o]);
            }
        }
        for pair in pairs {
            v.push(SchedSubject { hist: hist.clone(), ops: pair.clone(), warm: false });
            let heavy = pair.iter().all(|o| wasm_heavy.contains(o));
            if all_warm || pair[0] == pair[1] || heavy {
                v.push(SchedSubject { hist: hist.clone(), ops: pair, warm: true });
            }
        }
    };
    if ctx.quick() {
        // root state: all pairs (with repetition) of the whole menu on a cold engine; warm for self/WASM-heavy pairs
        push_pairs(&vec![], menu, &[], false);
    } else {
        // root and four deeper states: all pairs of the whole menu, cold and warm
        push_pairs(&vec![], menu, &[], true);
        for o in [Op::Std(Tx::TransferNf), Op::Std(Tx::FreezeB), Op::Std(Tx::Stake), Op::Std(Tx::NextRound)] {
            push_pairs(&vec![o], menu, &[], true);
        }
        // root: all triples (with repetition) of nine representatives, cold
        for t in multisets(&representative[..9], 3) {
            v.push(SchedSubject { hist: vec![], ops: t, warm: false });
        }
        v.push(SchedSubject { hist: vec![], ops: vec![Op::CalcLoop, Op::CalcPingPong, Op::WasmMix], warm: false });
    }
    v
}

/// Free-running smoke pass (decides nothing): threads released by a barrier execute transactions on one cold
/// shared engine without the scheduler.
fn smoke_pass(ctx: &Ctx, root: &Root, col: &Collector, menu: &[Op]) {
    let threads = 8usize;
    let rounds = ctx.pick(12, 60);
    let real = new_real_vm();
    let mut st = rebuild(root, &[], &real).unwrap();
    let mut exes = vec![];
    let mut d0s = vec![];
    for op in menu {
        let nonce = st.next_nonce(*op);
        let e = build_exe(&mut st.sim, root, *op, nonce).unwrap_or_else(|e| mc_core::machinery_error(&format!("C01 smoke: {e}")));
        d0s.push(outcome_of(&run_once(st.sim.substate_db(), &new_real_vm(), &e.cfg, &e.exe)));
        exes.push(e);
    }
    col.ex(menu.len() as u64);
    let db = st.sim.substate_db();
    for round in 0..rounds {
        let vm = new_det_vm();
        let barrier = std::sync::Barrier::new(threads);
        let outs: Vec<(usize, String)> = std::thread::scope(|s| {
            let hs: Vec<_> = (0..threads)
                .map(|i| {
                    // even rounds: all threads the same transaction; odd rounds: a sliding window of the menu
                    let k = if round % 2 == 0 { (round / 2) % exes.len() } else { (round * threads + i) % exes.len() };
                    let e = &exes[k];
                    let vm = &vm;
                    let barrier = &barrier;
                    s.spawn(move || {
                        barrier.wait();
                        let (r, _) = with_ctl(Plan::Shared, None, || run_once(db, vm, &e.cfg, &e.exe));
                        (k, outcome_of(&r))
                    })
                })
                .collect();
            hs.into_iter().map(|h| h.join().unwrap_or((0, "PANIC:join".into()))).collect()
        });
        for (k, d) in outs {
            col.ex(1);
            col.smoke_runs.fetch_add(1, Ordering::Relaxed);
            if d != d0s[k] {
                col.violation(
                    "smoke:free-running".into(),
                    format!("free-running thread executing {} on a shared cold engine got {} instead of {} (round {round}; not reproducible by construction)", menu[k].name(), mc_core::truncate(&d, 24), mc_core::truncate(&d0s[k], 24)),
                    json!({"dimension": "smoke", "history": [], "op": menu[k].name(), "round": round}),
                );
            } else {
                col.class("smoke:equal", 1);
            }
        }
    }
}

// ------------------------------------------------------------------------------------------------
// parent
// ------------------------------------------------------------------------------------------------

struct ChildLog {
    stats: Vec<u64>,
    execs: u64,
    cfg_runs: u64,
    p: BTreeMap<String, (String, String)>,
    k: BTreeMap<String, String>,
    v: Vec<Value>,
    infos: BTreeMap<String, u64>,
    errors: Vec<String>,
}

fn parse_child_log(txt: &str) -> ChildLog {
    let mut c = ChildLog { stats: vec![], execs: 0, cfg_runs: 0, p: BTreeMap::new(), k: BTreeMap::new(), v: vec![], infos: BTreeMap::new(), errors: vec![] };
    for line in txt.lines() {
        let Some((tag, rest)) = line.split_once('|') else { continue };
        match tag {
            "S" => c.stats = rest.split('|').filter_map(|x| x.parse().ok()).collect(),
            "N" => {
                let v: Vec<u64> = rest.split('|').filter_map(|x| x.parse().ok()).collect();
                c.execs = *v.first().unwrap_or(&0);
                c.cfg_runs = *v.get(1).unwrap_or(&0);
            }
            "P" => {
                // history|op|id|d0
                let f: Vec<&str> = rest.rsplitn(3, '|').collect();
                if f.len() == 3 {
                    c.p.insert(f[2].to_string(), (f[1].to_string(), f[0].to_string()));
                }
            }
            "K" => {
                let f: Vec<&str> = rest.rsplitn(2, '|').collect();
                if f.len() == 2 {
                    c.k.insert(f[1].to_string(), f[0].to_string());
                }
            }
            "V" => {
                if let Ok(v) = serde_json::from_str::<Value>(rest) {
                    c.v.push(v)
                }
            }
            "I" => {
                let f: Vec<&str> = rest.rsplitn(2, '|').collect();
                if f.len() == 2 {
                    c.infos.insert(f[1].to_string(), f[0].parse().unwrap_or(0));
                }
            }
            "E" => c.errors.push(rest.to_string()),
            _ => {}
        }
    }
    c
}

fn bench() -> ! {
    use std::time::Instant;
    let _keepalive = WasmiEngine::default();
    let root = build_root();
    let real = new_real_vm();
    let mut st = rebuild(&root, &[], &real).unwrap();
    let cpu = || -> (f64, f64) {
        let s = std::fs::read_to_string("/proc/self/stat").unwrap_or_default();
        let f: Vec<&str> = s.rsplit(')').next().unwrap_or("").split_whitespace().collect();
        let g = |i: usize| f.get(i).and_then(|x| x.parse::<f64>().ok()).unwrap_or(0.0) * 10.0;
        (g(11), g(12))
    };
    let t = |name: &str, n: usize, f: &mut dyn FnMut()| {
        let t0 = Instant::now();
        let c0 = cpu();
        for _ in 0..n {
            f();
        }
        let c1 = cpu();
        eprintln!("BENCH {name}: wall {:.3} ms, user {:.3} ms, sys {:.3} ms", t0.elapsed().as_secs_f64() * 1000.0 / n as f64, (c1.0 - c0.0) / n as f64, (c1.1 - c0.1) / n as f64);
    };
    t("new_real_vm", 200, &mut || drop(new_real_vm()));
    t("new_det_vm", 200, &mut || drop(new_det_vm()));
    t("fork", 50, &mut || drop(st.fork()));
    t("compute_fp", 50, &mut || drop(compute_fp(&mut st.sim, &root)));
    for op in [Op::Std(Tx::TransferF), Op::WasmMix] {
        let n = op.name();
        t(&format!("build_exe {n}"), 50, &mut || drop(build_exe(&mut st.sim, &root, op, 5)));
        let e = build_exe(&mut st.sim, &root, op, 5).unwrap();
        let db = st.sim.substate_db();
        t(&format!("run cold real {n}"), 50, &mut || drop(run_once(db, &new_real_vm(), &e.cfg, &e.exe)));
        t(&format!("run warm real {n}"), 50, &mut || drop(run_once(db, &real, &e.cfg, &e.exe)));
        let det = new_det_vm();
        t(&format!("run warm det {n}"), 50, &mut || drop(with_ctl(Plan::Shared, None, || run_once(db, &det, &e.cfg, &e.exe))));
        t(&format!("run allmiss det {n}"), 50, &mut || drop(with_ctl(Plan::AllMiss, None, || run_once(db, &det, &e.cfg, &e.exe))));
        let mut ktc = e.cfg.clone();
        ktc.enable_kernel_trace = true;
        t(&format!("run warm real kernel-trace {n}"), 20, &mut || drop(run_once(db, &real, &ktc, &e.exe)));
        let jobs = vec![Job { exe: &e.exe, cfg: &e.cfg }, Job { exe: &e.exe, cfg: &e.cfg }];
        t(&format!("spawn 2 threads {n}"), 100, &mut || std::thread::scope(|s| { s.spawn(|| 1); s.spawn(|| 2); }));
        t(&format!("2 threads run warm det unscheduled {n}"), 50, &mut || std::thread::scope(|s| { for _ in 0..2 { s.spawn(|| drop(with_ctl(Plan::Shared, None, || run_once(db, &det, &e.cfg, &e.exe)))); } }));
        with_team(db, &jobs, |run| {
            t(&format!("team schedule pair cold {n}"), 100, &mut || drop(run(std::sync::Arc::new(new_det_vm()), &[])));
            t(&format!("team schedule pair cold 2 preemptions {n}"), 100, &mut || drop(run(std::sync::Arc::new(new_det_vm()), &[0, 1, 0])));
        });
    }
    std::process::exit(0)
}

pub fn run(ctx: Ctx) -> ! {
    if std::env::var("MC_DET_BENCH").is_ok() {
        bench();
    }
    if ctx.replay.is_some() {
        replay(ctx);
    }
    if let Ok(path) = std::env::var("MC_DET_CHILD_LOG") {
        child(ctx, path);
    }
    parent(ctx)
}

fn parent(mut ctx: Ctx) -> ! {
    // process B (kernel trace on: slower per run) gets 60 % of the workers while both explore; the later passes of
    // process A use all workers after B has exited
    let total_threads = ctx.threads.max(2);
    let child_threads = ((total_threads * 6 + 9) / 10).clamp(1, total_threads - 1);
    let parent_threads = (total_threads - child_threads).max(1);

    // ---- (c) start the second OS process first: it explores concurrently
    let dir = ctx.scratch_dir("child");
    let log_path = dir.join("digests.log");
    let err_path = dir.join("stderr.log");
    let exe_path = std::env::current_exe().unwrap_or_else(|e| mc_core::machinery_error(&format!("C01: current_exe: {e}")));
    let err_file = std::fs::File::create(&err_path).unwrap_or_else(|e| mc_core::machinery_error(&format!("C01: {e}")));
    let mut child_proc = std::process::Command::new(exe_path)
        .arg("C01")
        .arg(if ctx.quick() { "quick" } else { "thorough" })
        .env("MC_DET_CHILD_LOG", &log_path)
        .env("VERIF_THREADS", child_threads.to_string())
        .stdin(std::process::Stdio::null())
        .stdout(std::process::Stdio::null())
        .stderr(err_file)
        .spawn()
        .unwrap_or_else(|e| mc_core::machinery_error(&format!("C01: cannot start child process: {e}")));

    ctx.threads = parent_threads;
    let _keepalive = WasmiEngine::default();
    let root = build_root();
    let col = Collector::default();
    let pool = Pool(Mutex::new(vec![]));
    let menu = full_menu();
    let depth = tier_depth(&ctx);

    // ---- exploration with (a, kernel trace off) and (b) on every transition
    let t0 = ctx.elapsed_s();
    let m = DetMachine { root: &root, role: Role::Parent, col: &col, pool: &pool, menu: menu.clone() };
    let stats: BfsStats = bfs(&ctx, &m, "world+pool+validator+wat-packages", depth, 2_000_000, bfs_wall_cap(&ctx));
    let t_bfs = ctx.elapsed_s() - t0;

    // ---- join the child (its workers become free for the remaining passes)
    let t0 = ctx.elapsed_s();
    let status = child_proc.wait().unwrap_or_else(|e| mc_core::machinery_error(&format!("C01: waiting for child: {e}")));
    let t_wait = ctx.elapsed_s() - t0;
    if !status.success() {
        let tail = std::fs::read_to_string(&err_path).unwrap_or_default();
        let tail: String = tail.lines().rev().take(15).collect::<Vec<_>>().into_iter().rev().collect::<Vec<_>>().join("\n");
        mc_core::machinery_error(&format!("C01: child process failed ({status}); stderr tail:\n{tail}"));
    }
    ctx.threads = total_threads;

    // ---- (d)
    let t0 = ctx.elapsed_s();
    let (d_groups, d_checked) = history_pass(&ctx, &root, &col, &pool, &menu);
    let t_hist = ctx.elapsed_s() - t0;

    // ---- (e)
    let t0 = ctx.elapsed_s();
    let subjects = schedule_subjects(&ctx, &menu);
    let sched_cap: u64 = ctx.pick(3_000, 20_000);
    let results = par_map(ctx.threads, &subjects, |sj| explore_subject(&root, &col, &pool, sj, sched_cap));
    let sched_capped = results.iter().filter(|r| r.capped).count();
    let mut by_pre = [0u64; 3];
    for r in &results {
        for i in 0..3 {
            by_pre[i] += r.by_preemptions[i];
        }
    }
    let pairs = subjects.iter().filter(|s| s.ops.len() == 2).count();
    let triples = subjects.iter().filter(|s| s.ops.len() == 3).count();
    let t_sched = ctx.elapsed_s() - t0;

    // ---- smoke
    let t0 = ctx.elapsed_s();
    smoke_pass(&ctx, &root, &col, &menu);
    let t_smoke = ctx.elapsed_s() - t0;

    // ---- compare the logs of the two processes line by line
    let txt = std::fs::read_to_string(&log_path).unwrap_or_else(|e| mc_core::machinery_error(&format!("C01: child log unreadable: {e}")));
    let cl = parse_child_log(&txt);
    if !cl.errors.is_empty() {
        mc_core::machinery_error(&format!("C01: child reported: {:?}", cl.errors));
    }
    let child_capped = cl.stats.get(3).copied().unwrap_or(1) != 0;
    let mine = col.log.lock().unwrap().clone();
    let mut compared_p = 0u64;
    let mut compared_k = 0u64;
    for (k, (id, d0, _)) in &mine {
        match cl.p.get(k) {
            Some((cid, cd0)) => {
                compared_p += 1;
                if cid != id {
                    mc_core::machinery_error(&format!("C01: the two processes built different executables for {k} ({id} vs {cid}) although every earlier digest agreed: harness nondeterminism"));
                }
                if cd0 != d0 {
                    let (h, o) = k.rsplit_once('|').unwrap_or(("-", k));
                    col.violation(
                        "process:baseline".into(),
                        format!("{o} after {h}: process A computed {} and process B {} for the same executable on the same history", mc_core::truncate(d0, 24), mc_core::truncate(cd0, 24)),
                        json!({"dimension": "process", "history": parse_hist(h).map(|x| names(&x)).unwrap_or_default(), "op": o}),
                    );
                } else {
                    col.class("process:equal", 1);
                }
            }
            None => {
                if !(stats.capped || child_capped) {
                    mc_core::machinery_error(&format!("C01: child did not explore {k} although no cap was hit and all digests agree: harness nondeterminism"));
                }
            }
        }
    }
    if !(stats.capped || child_capped) && cl.p.len() != mine.len() {
        mc_core::machinery_error(&format!("C01: the two processes explored different transition sets ({} vs {})", mine.len(), cl.p.len()));
    }
    for (k, d) in &cl.k {
        // key = history|op|cfg
        let Some((ho, cfg)) = k.rsplit_once('|') else { continue };
        if let Some((_, d0, _)) = mine.get(ho) {
            compared_k += 1;
            if d != d0 {
                let (h, o) = ho.rsplit_once('|').unwrap_or(("-", ho));
                col.violation(
                    format!("config:{cfg}"),
                    format!("{o} after {h}: digest {} under {cfg} (process B) differs from baseline {} (process A)", mc_core::truncate(d, 24), mc_core::truncate(d0, 24)),
                    json!({"dimension": "config", "history": parse_hist(h).map(|x| names(&x)).unwrap_or_default(), "op": o, "config": cfg, "kernel_trace": true}),
                );
            } else {
                col.class("config:equal", 1);
            }
        }
    }
    for v in &cl.v {
        let g = |k: &str| v.get(k).and_then(|x| x.as_str()).unwrap_or("").to_string();
        col.violation(g("key"), format!("(process B) {}", g("what")), v.get("case").cloned().unwrap_or(Value::Null));
    }
    for (k, n) in &cl.infos {
        col.info(&format!("child:{k}"), *n);
    }

    // ---- hand everything to the evidence writer
    for (k, n) in col.classes.lock().unwrap().iter() {
        ctx.class(k, *n);
    }
    for (k, n) in col.infos.lock().unwrap().iter() {
        ctx.info(k, *n);
    }
    // the evidence writer keeps the first 12 distinct keys: hand over one instance per key first, the most
    // telling dimensions first (the 24 config keys last)
    let mut vs = std::mem::take(&mut *col.violations.lock().unwrap());
    let prio = |k: &str| ["repeat", "rerun", "process", "cache", "history", "schedule", "smoke", "config"].iter().position(|p| k.starts_with(p)).unwrap_or(99);
    vs.sort_by(|a, b| (prio(&a.0), &a.0).cmp(&(prio(&b.0), &b.0)));
    let mut seen_keys = BTreeSet::new();
    let (firsts, rest): (Vec<_>, Vec<_>) = vs.into_iter().partition(|v| seen_keys.insert(v.0.clone()));
    for (k, w, c) in firsts.into_iter().chain(rest.into_iter()) {
        ctx.violation(k, w, c);
    }
    let execs = col.executions.load(Ordering::Relaxed) + cl.execs;
    ctx.add_evals(execs.saturating_sub(stats.transitions));
    let nontrivial = mine.values().filter(|(_, _, class)| class.starts_with("commit-")).count() as u64;
    let classes_seen: BTreeSet<String> = mine.values().map(|x| x.2.clone()).collect();

    let mut cov: Map<String, Value> = stats.coverage();
    cov.insert("menu".into(), json!(names(&menu)));
    cov.insert("bfs_depth".into(), json!(depth));
    cov.insert("programs".into(), json!(subjects.len()));
    cov.insert("state_tx_pairs".into(), json!(mine.len()));
    cov.insert("state_tx_pairs_committing".into(), json!(nontrivial));
    cov.insert("receipt_classes_seen".into(), json!(classes_seen.len()));
    cov.insert("engine_executions_total".into(), json!(execs));
    cov.insert(
        "dimension_a_configs".into(),
        json!({
            "configs_per_pair": 24,
            "runs_kernel_trace_off_process_A": col.cfg_runs.load(Ordering::Relaxed),
            "runs_kernel_trace_on_process_B": cl.cfg_runs,
            "kernel_trace_lines_compared": compared_k,
            "values": "enable_kernel_trace {0,1} x enable_cost_breakdown {0,1} x execution_trace {None,Some(1),Some(16)} x enable_debug_information {0,1}",
        }),
    );
    cov.insert(
        "dimension_b_cache".into(),
        json!({
            "runs": col.cache_runs.load(Ordering::Relaxed),
            "forced_misses": col.cache_forced_misses.load(Ordering::Relaxed),
            "max_instantiate_calls_per_tx": col.cache_max_calls.load(Ordering::Relaxed),
            "vectors": "first touch, all-hit, every single forced miss, every pair of forced misses, all-miss (if > 2 calls); a forced miss is answered by a brand-new real WasmiEngine, a hit by the long-lived one",
        }),
    );
    cov.insert(
        "dimension_c_process".into(),
        json!({"processes": 2, "baseline_lines_compared": compared_p, "child_states": cl.stats.first(), "child_transitions": cl.stats.get(1), "child_capped": child_capped}),
    );
    cov.insert(
        "dimension_d_history".into(),
        json!({
            "groups_of_byte_identical_databases_reached_by_different_paths": d_groups,
            "groups_checked": d_checked,
            "comparisons": col.hist_cmp.load(Ordering::Relaxed),
            "reruns_in_later_layers_compared": col.replay_cmp.load(Ordering::Relaxed),
        }),
    );
    cov.insert(
        "dimension_e_schedules".into(),
        json!({
            "subjects": subjects.len(),
            "pairs": pairs,
            "triples": triples,
            "schedules_executed": col.sched_runs.load(Ordering::Relaxed),
            "schedules_by_preemptions_0_1_2": by_pre,
            "preemption_bound": PREEMPTION_BOUND,
            "max_scheduling_points_in_one_schedule": col.sched_max_points.load(Ordering::Relaxed),
            "subjects_cut_by_schedule_cap": sched_capped,
            "controlled_scheduling_points": "thread start, entry of every WasmEngine::instantiate (before the shared module cache is touched) and its return (before the instance is invoked); between two points exactly one thread runs (condvar hand-off), so every interleaving of these segments with <= 2 preemptions is enumerated exhaustively, on a cold and (where listed) a warm shared engine",
            "not_controlled": "the interleaving of moka's internal get/insert steps inside one instantiate call, moka's housekeeping threads, and wasmi's lazy function translation inside one invoke: only exercised by the free-running smoke pass",
            "smoke_free_running_executions": col.smoke_runs.load(Ordering::Relaxed),
            "smoke_note": "8 barrier-released threads on one cold shared engine, no scheduler: a smoke test, it decides nothing",
        }),
    );
    cov.insert("wall_s_parts".into(), json!({"bfs": t_bfs, "history": t_hist, "schedules": t_sched, "smoke": t_smoke, "waiting_for_child": t_wait}));
    cov.insert("threads".into(), json!({"process_A_during_exploration": parent_threads, "process_B": child_threads, "process_A_later_passes": total_threads}));
    let exhaustive = !stats.capped && !child_capped && sched_capped == 0 && d_checked == d_groups;
    if !exhaustive {
        ctx.note(format!(
            "not exhaustive: bfs capped={} child capped={} schedule subjects capped={} history groups checked {}/{} (fully covered: every transition of the completed depth {} in dimensions a, b, c)",
            stats.capped, child_capped, sched_capped, d_checked, d_groups, stats.depth_completed
        ));
    }
    ctx.finish(
        mc_core::Level::ModelChecking,
        "breadth-first over all histories of menu transactions up to the depth; for every transition the executable is re-executed (never committed) under all 24 diagnostic configurations, all cache hit/miss vectors with <= 2 forced misses (+ all-miss), in a second OS process, on byte-identical databases reached by other paths, and on 2/3 threads under every schedule with <= 2 preemptions; oracle = equality of the consensus digest (outcome, state updates, events, logs, fee summary, fee source/destination, costing parameters) with the sequential baseline; non-trivial = (state, transaction) pairs whose baseline commits",
        nontrivial,
        exhaustive,
        cov,
        &[
            "states with equal balances/supplies/epoch/freeze flag are merged by the explorer (they differ in fee dust, node ids of new entities and round number)",
            "the digest excludes diagnostic-only receipt parts (fee_details, execution trace, debug information, resources usage) and the derived state_update_summary/system_structure",
            "effects inside moka (its own atomics and housekeeping threads) and inside wasmi's lazy translation are not interleaved by the scheduler",
            "std's RandomState differs for every hash map instance and process, so every compared run also varies all hash seeds",
        ],
    )
}

// ------------------------------------------------------------------------------------------------
// replay of one recorded case
// ------------------------------------------------------------------------------------------------

fn replay(ctx: Ctx) -> ! {
    if std::env::var("MC_DET_QUIET").is_err() {
        // kernel-trace configurations print to stdout: re-exec with stdout discarded, report on stderr
        let exe_path = std::env::current_exe().unwrap_or_else(|e| mc_core::machinery_error(&format!("C01: current_exe: {e}")));
        let st = std::process::Command::new(exe_path)
            .args(std::env::args().skip(1))
            .env("MC_DET_QUIET", "1")
            .stdout(std::process::Stdio::null())
            .status()
            .unwrap_or_else(|e| mc_core::machinery_error(&format!("C01 replay: {e}")));
        let code = st.code().unwrap_or(2);
        println!("C01 replay finished with status {code} (report above on stderr)");
        std::process::exit(code);
    }
    let case = ctx.read_replay_case().unwrap_or_else(|| mc_core::machinery_error("no replay case"));
    let strs = |k: &str| -> Vec<String> { case.get(k).and_then(|v| v.as_array()).map(|a| a.iter().filter_map(|x| x.as_str().map(String::from)).collect()).unwrap_or_default() };
    let to_ops = |v: Vec<String>| -> Vec<Op> { v.iter().map(|n| op_by_name(n).unwrap_or_else(|| mc_core::machinery_error(&format!("unknown op {n}")))).collect() };
    let hist = to_ops(strs("history"));
    let dim = case.get("dimension").and_then(|v| v.as_str()).unwrap_or("").to_string();
    let root = build_root();
    let real = new_real_vm();
    let mut bad = 0;
    say!("C01 replay: dimension={dim} history={}", hist_string(&hist));
    if dim == "schedule" {
        let ops = to_ops(strs("ops"));
        let warm = case.get("warm").and_then(|v| v.as_bool()).unwrap_or(false);
        let choices: Vec<usize> = case.get("choices").and_then(|v| v.as_array()).map(|a| a.iter().filter_map(|x| x.as_u64().map(|y| y as usize)).collect()).unwrap_or_default();
        let col = Collector::default();
        let sj = SchedSubject { hist: hist.clone(), ops: ops.clone(), warm };
        let (st, exes, d0s) = prepare_subject(&root, &col, &real, &sj);
        let jobs: Vec<Job> = exes.iter().map(|e| Job { exe: &e.exe, cfg: &e.cfg }).collect();
        let db = st.sim.substate_db();
        with_team(db, &jobs, |run_schedule| for rep in 0..3 {
            let vm = fresh_sched_vm(db, &exes, warm);
            let run = run_schedule(vm, &choices);
            say!("  run {rep}: trace [{}]", trace_string(&run.trace));
            for t in 0..jobs.len() {
                let got = match &run.outcomes[t] {
                    Ok(d) => d.clone(),
                    Err(p) => format!("PANIC:{p}"),
                };
                let ok = got == d0s[t];
                if !ok {
                    bad += 1;
                }
                say!("    thread {t} {}: {} sequential {} {}", ops[t].name(), got, d0s[t], if ok { "equal" } else { "DIFFERENT" });
            }
        });
    } else {
        let op = case.get("op").and_then(|v| v.as_str()).and_then(op_by_name).unwrap_or_else(|| mc_core::machinery_error("replay case has no op"));
        let mut st = rebuild(&root, &hist, &real).unwrap_or_else(|e| mc_core::machinery_error(&format!("cannot rebuild: {e}")));
        let nonce = st.next_nonce(op);
        let exe = build_exe(&mut st.sim, &root, op, nonce).unwrap_or_else(|e| mc_core::machinery_error(&format!("cannot build: {e}")));
        let db = st.sim.substate_db();
        let d0 = outcome_of(&run_once(db, &new_real_vm(), &exe.cfg, &exe.exe));
        say!("  baseline D0 = {d0}");
        for i in 0..3 {
            let d = outcome_of(&run_once(db, &new_real_vm(), &exe.cfg, &exe.exe));
            if d != d0 {
                bad += 1;
            }
            say!("  baseline again #{i}: {d} {}", if d == d0 { "equal" } else { "DIFFERENT" });
        }
        for kt in [false, true] {
            for (label, cfg) in cfg_variants(&exe.cfg, kt) {
                let d = outcome_of(&run_once(db, &new_real_vm(), &cfg, &exe.exe));
                if d != d0 {
                    bad += 1;
                    say!("  config {label}: {d} DIFFERENT");
                }
            }
        }
        say!("  24 diagnostic configurations executed");
        let det = new_det_vm();
        let (r, rep) = with_ctl(Plan::Shared, None, || run_once(db, &det, &exe.cfg, &exe.exe));
        let d = outcome_of(&r);
        if d != d0 {
            bad += 1;
            say!("  cache first-touch: {d} DIFFERENT");
        }
        let mut plans = vec![Plan::Shared];
        plans.extend(miss_plans(rep.calls));
        for p in plans {
            let (r, _) = with_ctl(p.clone(), None, || run_once(db, &det, &exe.cfg, &exe.exe));
            let d = outcome_of(&r);
            if d != d0 {
                bad += 1;
                say!("  cache {}: {d} DIFFERENT", p.label());
            }
        }
        say!("  cache vectors executed ({} instantiate calls)", rep.calls);
        let other = to_ops(strs("other_history"));
        if dim == "history" && !other.is_empty() {
            let mut st2 = rebuild(&root, &other, &real).unwrap_or_else(|e| mc_core::machinery_error(&format!("cannot rebuild: {e}")));
            let same_db = st.sim.substate_db() == st2.sim.substate_db();
            let e1 = build_exe(&mut st.sim, &root, op, 9_000_000).unwrap();
            let e2 = build_exe(&mut st2.sim, &root, op, 9_000_000).unwrap();
            let a = outcome_of(&run_once(st.sim.substate_db(), &real, &e1.cfg, &e1.exe));
            let b = outcome_of(&run_once(st2.sim.substate_db(), &real, &e2.cfg, &e2.exe));
            if a != b && same_db && e1.exe == e2.exe {
                bad += 1;
            }
            say!("  history: databases identical={same_db} executables identical={} digests {a} vs {b}", e1.exe == e2.exe);
        }
    }
    say!("C01 replay: {} difference(s) reproduced", bad);
    std::process::exit(if bad > 0 { 1 } else { 0 })
}
