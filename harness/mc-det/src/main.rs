//! mc-det: serves C01 (one module per property).
use mc_core::Ctx;

mod c01;
mod engine;
mod world;

fn main() {
    let ctx = Ctx::from_args();
    match ctx.id.as_str() {
        "C01" => c01::run(ctx),
        other => mc_core::machinery_error(&format!("mc-det does not serve {other}")),
    }
}
