//! World, transaction alphabet and execution helpers of C01.
//!
//! Everything is executed through `radix_engine::transaction::execute_transaction(db, vm_modules, config,
//! executable)` so that the harness controls the `ExecutionConfig` and the `VmModules` (the simulator pins
//! both). Executables are built with *explicit* nonces (never the simulator's counter) so that the same
//! (state, transaction) gives a byte-identical executable in every process / path / thread.
use mc_ledger::menu::*;
use mc_ledger::*;
use radix_transactions::manifest::BuildableManifest;
use std::collections::BTreeMap;

#[derive(Clone, Copy, Debug, PartialEq, Eq, PartialOrd, Ord, Hash)]
pub enum Op {
    Std(Tx),
    /// call `Calc::f` of the WAT package (300-iteration loop calling a helper function)
    CalcLoop,
    /// call `Calc::g` (two mutually recursive functions, depth 24)
    CalcPingPong,
    /// faucet lock_fee + faucet free + Calc::f + Calc::g + Mini::f in one transaction (5 WASM instantiations, 3 code hashes)
    WasmMix,
}

impl Op {
    pub fn name(&self) -> String {
        match self {
            Op::Std(t) => format!("{t:?}"),
            o => format!("{o:?}"),
        }
    }
}

pub fn full_menu() -> Vec<Op> {
    let mut v: Vec<Op> = STD_MENU.iter().map(|t| Op::Std(*t)).collect();
    v.push(Op::Std(Tx::PublishWat));
    v.push(Op::CalcLoop);
    v.push(Op::CalcPingPong);
    v.push(Op::WasmMix);
    v
}

pub fn op_by_name(name: &str) -> Option<Op> {
    full_menu().into_iter().find(|o| o.name() == name)
}

pub fn op_index(op: Op) -> u32 {
    full_menu().iter().position(|o| *o == op).unwrap_or(99) as u32
}

/// WAT package with two exported functions: `Calc_f` (loop + helper call) and `Calc_g` (mutual recursion).
pub const CALC_WAT: &str = r#"
(module
  (func $helper (param $x i32) (result i32)
    (i32.add (local.get $x) (i32.const 3)))
  (func $ping (param $n i32) (result i32)
    (if (result i32) (i32.eqz (local.get $n))
      (then (i32.const 0))
      (else (i32.add (call $pong (i32.sub (local.get $n) (i32.const 1))) (i32.const 1)))))
  (func $pong (param $n i32) (result i32)
    (if (result i32) (i32.eqz (local.get $n))
      (then (i32.const 0))
      (else (i32.add (call $ping (i32.sub (local.get $n) (i32.const 1))) (i32.const 2)))))
  (func $ret_unit (result i64)
    (i32.store8 (i32.const 0) (i32.const 92))
    (i32.store8 (i32.const 1) (i32.const 33))
    (i32.store8 (i32.const 2) (i32.const 0))
    (i64.const 3))
  (func $Calc_f (param $0 i64) (result i64)
    (local $i i32) (local $acc i32)
    (loop $l
      (local.set $acc (call $helper (local.get $acc)))
      (local.set $i (i32.add (local.get $i) (i32.const 1)))
      (br_if $l (i32.lt_u (local.get $i) (i32.const 300))))
    (call $ret_unit))
  (func $Calc_g (param $0 i64) (result i64)
    (drop (call $ping (i32.const 24)))
    (call $ret_unit))
  (memory $0 1)
  (export "memory" (memory $0))
  (export "Calc_f" (func $Calc_f))
  (export "Calc_g" (func $Calc_g))
)
"#;

#[derive(Clone)]
pub struct Root {
    pub snap: Snap,
    pub w: World,
    pub x: Extras,
    pub calc_pkg: PackageAddress,
    pub mini_pkg: PackageAddress,
}

pub fn build_root() -> Root {
    let mut sim = new_sim();
    let w = build_world(&mut sim);
    let x = build_extras(&mut sim, &w, w.f18);
    let calc_def = PackageDefinition::new_functions_only_test_definition("Calc", vec![("f", "Calc_f", false), ("g", "Calc_g", false)]);
    let calc_pkg = sim.publish_package((wat2wasm(CALC_WAT), calc_def), BTreeMap::new(), OwnerRole::None);
    let mini_pkg = sim.publish_package((wat2wasm(MINI_WAT), single_function_package_definition("Test", "f")), BTreeMap::new(), OwnerRole::None);
    Root { snap: sim.create_snapshot(), w, x, calc_pkg, mini_pkg }
}

pub fn sim_from(snap: &Snap) -> Sim {
    LedgerSimulatorBuilder::new().without_kernel_trace().build_from_snapshot(snap.clone())
}

/// An executable transaction + its default execution configuration.
#[derive(Clone)]
pub struct Exe {
    pub exe: ExecutableTransaction,
    pub cfg: ExecutionConfig,
    /// hash of the Debug rendering of the executable (identity of the input across processes / paths)
    pub id: String,
}

const NONCE_BASE: u32 = 1_000_000;

/// Nonce of the k-th occurrence of `op` in a history (kind/occurrence based, so that commuting histories
/// contain byte-identical transactions).
pub fn nonce_for(op: Op, occurrence: u32) -> u32 {
    NONCE_BASE + op_index(op) * 1000 + occurrence
}

pub fn build_exe(sim: &mut Sim, root: &Root, op: Op, nonce: u32) -> Result<Exe, String> {
    mc_core::catch(|| {
        let a = root.w.a.addr;
        let mb = || ManifestBuilder::new().lock_fee_from_faucet();
        let built = match op {
            Op::Std(tx) => build_tx(sim, &root.w, &root.x, tx),
            Op::CalcLoop => Built::Manifest(mb().call_function(root.calc_pkg, "Calc", "f", manifest_args!()).build(), vec![]),
            Op::CalcPingPong => Built::Manifest(mb().call_function(root.calc_pkg, "Calc", "g", manifest_args!()).build(), vec![]),
            Op::WasmMix => Built::Manifest(
                mb().get_free_xrd_from_faucet()
                    .call_function(root.calc_pkg, "Calc", "f", manifest_args!())
                    .call_function(root.calc_pkg, "Calc", "g", manifest_args!())
                    .call_function(root.mini_pkg, "Test", "f", manifest_args!())
                    .try_deposit_entire_worktop_or_abort(a, None)
                    .build(),
                vec![],
            ),
        };
        let (exe, cfg) = match built {
            Built::Manifest(m, proofs) => {
                let exe = TestTransaction::new_v1_from_nonce(m, nonce, proofs.into_iter().collect())
                    .into_executable(sim.transaction_validator())
                    .unwrap_or_else(|e| panic!("cannot prepare test transaction: {e:?}"));
                (exe, ExecutionConfig::for_test_transaction().with_kernel_trace(false))
            }
            Built::Round => {
                let cur = sim.get_consensus_manager_state().round;
                let ts = sim.get_current_proposer_timestamp_ms();
                let m = ManifestBuilder::new_system_v1()
                    .call_method(
                        CONSENSUS_MANAGER,
                        CONSENSUS_MANAGER_NEXT_ROUND_IDENT,
                        ConsensusManagerNextRoundInput {
                            round: Round::of(cur.number() + 1),
                            proposer_timestamp_ms: ts,
                            leader_proposal_history: LeaderProposalHistory { gap_round_leaders: vec![], current_leader: 0, is_fallback: false },
                        },
                    )
                    .build();
                let exe = m
                    .into_executable_with_proofs(nonce, btreeset![system_execution(SystemExecution::Validator)], sim.transaction_validator())
                    .unwrap_or_else(|e| panic!("cannot prepare system transaction: {e}"));
                (exe, ExecutionConfig::for_system_transaction(NetworkDefinition::simulator()).with_kernel_trace(false))
            }
        };
        let id = mc_core::hex(&hash(format!("{exe:?}")).0[..16]);
        Exe { exe, cfg, id }
    })
}

pub fn digest(r: &TransactionReceipt) -> String {
    mc_core::hex(&receipt_digest(r).0)
}

/// One execution; Err = a panic escaped the engine.
pub fn run_once<V: VmInitialize>(db: &InMemorySubstateDatabase, vm: &V, cfg: &ExecutionConfig, exe: &ExecutableTransaction) -> Result<TransactionReceipt, String> {
    mc_core::catch(|| radix_engine::transaction::execute_transaction(db, vm, cfg, exe))
}

/// Outcome string compared between runs: the receipt digest, or the panic text.
pub fn outcome_of(r: &Result<TransactionReceipt, String>) -> String {
    match r {
        Ok(rc) => digest(rc),
        Err(p) => format!("PANIC:{p}"),
    }
}

/// The 12 combinations of the three non-printing diagnostic settings, with kernel trace fixed.
pub fn cfg_variants(base: &ExecutionConfig, kernel_trace: bool) -> Vec<(String, ExecutionConfig)> {
    let mut v = vec![];
    for cb in [false, true] {
        for et in [None, Some(1usize), Some(MAX_EXECUTION_TRACE_DEPTH)] {
            for dbg in [false, true] {
                let mut c = base.clone();
                c.enable_kernel_trace = kernel_trace;
                c.enable_cost_breakdown = cb;
                c.execution_trace = et;
                c.enable_debug_information = dbg;
                v.push((format!("kt={}/cb={}/et={:?}/dbg={}", kernel_trace as u8, cb as u8, et, dbg as u8), c));
            }
        }
    }
    v
}

// ------------------------------------------------------------------------------------------------
// BFS state
// ------------------------------------------------------------------------------------------------

pub type DiffKey = (Vec<u8>, u8, Vec<u8>);

pub struct St {
    pub sim: Sim,
    pub hist: Vec<Op>,
    pub counts: BTreeMap<Op, u32>,
    /// false while the explorer rebuilds the state by replaying its history (cheap steps), true afterwards
    pub live: std::cell::Cell<bool>,
    pub fp: Vec<u8>,
    /// raw database difference against the root database (last writer wins; None = deleted)
    pub diff: BTreeMap<DiffKey, Option<Vec<u8>>>,
}

impl St {
    pub fn new(root: &Root) -> St {
        let mut st = St { sim: sim_from(&root.snap), hist: vec![], counts: BTreeMap::new(), live: std::cell::Cell::new(false), fp: vec![], diff: BTreeMap::new() };
        st.fp = compute_fp(&mut st.sim, root);
        st
    }
    pub fn fork(&self) -> St {
        St {
            sim: LedgerSimulatorBuilder::new().without_kernel_trace().build_from_snapshot(self.sim.create_snapshot()),
            hist: self.hist.clone(),
            counts: self.counts.clone(),
            live: std::cell::Cell::new(self.live.get()),
            fp: self.fp.clone(),
            diff: self.diff.clone(),
        }
    }
    pub fn next_nonce(&self, op: Op) -> u32 {
        nonce_for(op, *self.counts.get(&op).unwrap_or(&0))
    }
    pub fn hist_string(&self) -> String {
        hist_string(&self.hist)
    }
    /// Apply the receipt of `op` (commit its state updates, if any) and advance the bookkeeping.
    pub fn apply(&mut self, root: &Root, op: Op, receipt: Option<&TransactionReceipt>) {
        if let Some(TransactionResult::Commit(c)) = receipt.map(|r| &r.result) {
            let updates = c.state_updates.create_database_updates();
            for (node_key, nu) in &updates.node_updates {
                for (pnum, pu) in &nu.partition_updates {
                    match pu {
                        PartitionDatabaseUpdates::Delta { substate_updates } => {
                            for (sk, u) in substate_updates {
                                let v = match u {
                                    DatabaseUpdate::Set(v) => Some(v.clone()),
                                    DatabaseUpdate::Delete => None,
                                };
                                self.diff.insert((node_key.clone(), *pnum, sk.0.clone()), v);
                            }
                        }
                        PartitionDatabaseUpdates::Reset { new_substate_values } => {
                            let pk = DbPartitionKey { node_key: node_key.clone(), partition_num: *pnum };
                            let old: Vec<DbSortKey> = self.sim.substate_db().list_raw_values_from_db_key(&pk, None).map(|(k, _)| k).collect();
                            for k in old {
                                self.diff.insert((node_key.clone(), *pnum, k.0), None);
                            }
                            for (sk, v) in new_substate_values {
                                self.diff.insert((node_key.clone(), *pnum, sk.0.clone()), Some(v.clone()));
                            }
                        }
                    }
                }
            }
            self.sim.substate_db_mut().commit(&updates);
        }
        self.hist.push(op);
        *self.counts.entry(op).or_insert(0) += 1;
        self.fp = compute_fp(&mut self.sim, root);
    }
    /// Hash of the raw difference against the root database: equal hashes <=> (almost surely) byte-identical databases.
    pub fn raw_id(&self) -> String {
        let mut bytes = vec![];
        for ((n, p, s), v) in &self.diff {
            bytes.extend((n.len() as u32).to_le_bytes());
            bytes.extend(n);
            bytes.push(*p);
            bytes.extend((s.len() as u32).to_le_bytes());
            bytes.extend(s);
            match v {
                Some(v) => {
                    bytes.push(1);
                    bytes.extend((v.len() as u32).to_le_bytes());
                    bytes.extend(v);
                }
                None => bytes.push(0),
            }
        }
        mc_core::hex(&hash(bytes).0[..16])
    }
}

pub fn hist_string(h: &[Op]) -> String {
    if h.is_empty() {
        "-".to_string()
    } else {
        h.iter().map(|o| o.name()).collect::<Vec<_>>().join(">")
    }
}

pub fn parse_hist(s: &str) -> Option<Vec<Op>> {
    if s == "-" || s.is_empty() {
        return Some(vec![]);
    }
    s.split('>').map(op_by_name).collect()
}

/// Node-id independent semantic fingerprint (same idea as mc-engine's ledger BFS): balances of the known
/// components, recorded supplies, whole-XRD balances, epoch, number of resources, freeze flag of B's rc vault.
/// Merged states differ only in fee dust, node ids of new vaults/resources and the round number.
pub fn compute_fp(sim: &mut Sim, root: &Root) -> Vec<u8> {
    let w = &root.w;
    let x = &root.x;
    let comps = [w.a.addr, w.b.addr, x.pool, x.validator];
    let res = [w.f18, w.f2, w.nf, w.rc, x.pool_unit, x.stake_unit, x.claim_nft];
    let mut fp = balances_fp(sim, &comps, &res);
    for c in [w.a.addr, w.b.addr, x.validator] {
        let b = sim.get_component_balance(c, XRD);
        fp.extend(format!("x{};", b.checked_floor().unwrap()).into_bytes());
    }
    let epoch = sim.get_current_epoch().number();
    fp.extend(format!("e{epoch};").into_bytes());
    let nres = all_nodes(sim.substate_db())
        .iter()
        .filter(|n| matches!(n.entity_type(), Some(EntityType::GlobalFungibleResourceManager) | Some(EntityType::GlobalNonFungibleResourceManager)))
        .count();
    fp.extend(format!("r{nres};").into_bytes());
    if let Some(v) = sim.get_component_vaults(w.b.addr, w.rc).first() {
        let frozen: Option<FungibleVaultFreezeStatusFieldPayload> = radix_engine::system::system_db_reader::SystemDatabaseReader::new(sim.substate_db())
            .read_typed_object_field(v, ModuleId::Main, FungibleVaultField::FreezeStatus.field_index())
            .ok();
        fp.extend(format!("f{frozen:?};").into_bytes());
    }
    fp
}

/// Rebuild a state by replaying a history with plain executions on a real (unwrapped) VM.
pub fn rebuild(root: &Root, hist: &[Op], vm: &DefaultVmModules) -> Result<St, String> {
    let mut st = St::new(root);
    for op in hist {
        let nonce = st.next_nonce(*op);
        let exe = build_exe(&mut st.sim, root, *op, nonce)?;
        let r = run_once(st.sim.substate_db(), vm, &exe.cfg, &exe.exe);
        st.apply(root, *op, r.as_ref().ok());
    }
    Ok(st)
}
