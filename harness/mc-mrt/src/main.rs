//! mc-mrt: serves C38 (one module per property).
use mc_core::Ctx;

mod c38;

fn main() {
    let ctx = Ctx::from_args();
    match ctx.id.as_str() {
        "C38" => c38::run(ctx),
        other => mc_core::machinery_error(&format!("mc-mrt does not serve {other}")),
    }
}
