//! mc-mrt: serves C38 (one module per property) and the run-time parts of C36 / C37 (secondary parts of checks whose
//! primary binaries are mc-tx / mc-num; see the "also" lists in their checks.d files).
use mc_core::Ctx;

mod c36rt;
mod c37rt;
mod c38;
mod rt;

fn main() {
    let ctx = Ctx::from_args();
    match ctx.id.as_str() {
        "C36" => c36rt::run(ctx),
        "C37" => c37rt::run(ctx),
        "C38" => c38::run(ctx),
        other => mc_core::machinery_error(&format!("mc-mrt does not serve {other}")),
    }
}
