//! Helpers shared by the run-time halves C36rt / C37rt: raw instruction construction (no builder-side checks),
//! V1 / V2 manifest assembly, static validation with `ValidationRuleset::all()`, per-thread simulators restored
//! from one snapshot, receipt judgement helpers.
use mc_ledger::*;
use radix_transactions::manifest::*;
use std::cell::RefCell;

pub type MV = ManifestValue;

#[derive(Clone, Copy, Debug, PartialEq, Eq, Hash, PartialOrd, Ord)]
pub enum Kind {
    V1,
    V2,
}

impl Kind {
    pub fn name(&self) -> &'static str {
        match self {
            Kind::V1 => "V1",
            Kind::V2 => "V2",
        }
    }
    pub fn parse(s: &str) -> Option<Kind> {
        match s {
            "V1" => Some(Kind::V1),
            "V2" => Some(Kind::V2),
            _ => None,
        }
    }
}

pub fn custom(v: ManifestCustomValue) -> MV {
    MV::Custom { value: v }
}
pub fn tuple(fields: Vec<MV>) -> MV {
    MV::Tuple { fields }
}
pub fn none() -> MV {
    MV::Enum { discriminator: 0, fields: vec![] }
}
pub fn bucket(b: u32) -> MV {
    custom(ManifestCustomValue::Bucket(ManifestBucket(b)))
}
pub fn proof(p: u32) -> MV {
    custom(ManifestCustomValue::Proof(ManifestProof(p)))
}
pub fn entire_worktop() -> MV {
    custom(ManifestCustomValue::Expression(ManifestExpression::EntireWorktop))
}
pub fn mval<T: ManifestEncode + ?Sized>(t: &T) -> MV {
    manifest_decode(&manifest_encode(t).expect("encodable")).expect("decodable")
}

pub fn call_method(addr: impl Into<GlobalAddress>, method: &str, args: MV) -> InstructionV2 {
    CallMethod { address: ManifestGlobalAddress::Static(addr.into()), method_name: method.to_string(), args }.into()
}
pub fn call_function(pkg: PackageAddress, blueprint: &str, function: &str, args: MV) -> InstructionV2 {
    CallFunction { package_address: ManifestPackageAddress::Static(pkg), blueprint_name: blueprint.to_string(), function_name: function.to_string(), args }.into()
}
pub fn lock_fee_from_faucet() -> InstructionV2 {
    call_method(FAUCET, "lock_fee", mval(&(dec!(5000),)))
}
pub fn withdraw(acct: ComponentAddress, res: ResourceAddress, amount: Decimal) -> InstructionV2 {
    call_method(acct, ACCOUNT_WITHDRAW_IDENT, mval(&(res, amount)))
}
pub fn withdraw_non_fungibles(acct: ComponentAddress, res: ResourceAddress, ids: &[NonFungibleLocalId]) -> InstructionV2 {
    call_method(acct, ACCOUNT_WITHDRAW_NON_FUNGIBLES_IDENT, mval(&(res, ids.to_vec())))
}
/// public deposit of the whole worktop (needs no owner proof, works after DROP_ALL_PROOFS)
pub fn try_deposit_entire_worktop(acct: ComponentAddress) -> InstructionV2 {
    call_method(acct, ACCOUNT_TRY_DEPOSIT_BATCH_OR_ABORT_IDENT, tuple(vec![entire_worktop(), none()]))
}

pub enum Built {
    V1(TransactionManifestV1),
    V2(TransactionManifestV2),
}

/// None: the kind cannot express an instruction (V2-only instruction in a V1 manifest).
pub fn assemble(kind: Kind, instructions: &[InstructionV2]) -> Option<Built> {
    match kind {
        Kind::V1 => {
            let v1: Option<Vec<InstructionV1>> = instructions.iter().map(|i| InstructionV1::try_from(i.clone()).ok()).collect();
            Some(Built::V1(TransactionManifestV1 { instructions: v1?, blobs: Default::default(), object_names: ManifestObjectNames::Unknown }))
        }
        Kind::V2 => Some(Built::V2(TransactionManifestV2 {
            instructions: instructions.to_vec(),
            blobs: Default::default(),
            children: Default::default(),
            object_names: ManifestObjectNames::Unknown,
        })),
    }
}

impl Built {
    /// The real static validator, configured as the static half of C36 uses it.
    pub fn validate(&self) -> Result<(), ManifestValidationError> {
        match self {
            Built::V1(m) => StaticManifestInterpreter::new(ValidationRuleset::all(), m).validate(),
            Built::V2(m) => StaticManifestInterpreter::new(ValidationRuleset::all(), m).validate(),
        }
    }
    pub fn validate_with<V: ManifestInterpretationVisitor>(&self, v: &mut V) -> Result<(), V::Output> {
        match self {
            Built::V1(m) => StaticManifestInterpreter::new(ValidationRuleset::all(), m).validate_and_apply_visitor(v),
            Built::V2(m) => StaticManifestInterpreter::new(ValidationRuleset::all(), m).validate_and_apply_visitor(v),
        }
    }
    pub fn text(&self) -> String {
        let net = NetworkDefinition::simulator();
        let r = match self {
            Built::V1(m) => mc_core::catch(|| decompile(m, &net).map_err(|e| format!("{e:?}"))),
            Built::V2(m) => mc_core::catch(|| decompile(m, &net).map_err(|e| format!("{e:?}"))),
        };
        match r {
            Ok(Ok(t)) => t,
            Ok(Err(e)) => format!("(not decompilable: {e})"),
            Err(p) => format!("(decompiler panicked: {p})"),
        }
    }
}

pub fn err_name(e: &ManifestValidationError) -> String {
    let s = format!("{e:?}");
    s.split(|c: char| !c.is_ascii_alphanumeric()).next().unwrap_or("?").to_string()
}

thread_local! {
    static SIM: RefCell<Option<Sim>> = RefCell::new(None);
}

/// Execute on this thread's simulator, restored from `snap` first. Err = a panic escaped (simulator rebuilt next time).
pub fn execute(snap: &Snap, m: Built, proofs: Vec<NonFungibleGlobalId>) -> Result<TransactionReceipt, String> {
    SIM.with(|s| {
        let mut s = s.borrow_mut();
        match s.as_mut() {
            None => *s = Some(LedgerSimulatorBuilder::new().without_kernel_trace().build_from_snapshot(snap.clone())),
            Some(sim) => sim.restore_snapshot(snap.clone()),
        }
        let sim = s.as_mut().unwrap();
        let r = mc_core::catch(|| match m {
            Built::V1(m) => sim.execute_manifest(m, proofs),
            Built::V2(m) => sim.execute_manifest(m, proofs),
        });
        if r.is_err() {
            *s = None;
        }
        r
    })
}

pub fn must_commit(sim: &mut Sim, m: TransactionManifestV1, proofs: Vec<NonFungibleGlobalId>, what: &str) {
    let r = sim.execute_manifest(m, proofs);
    if !is_success(&r) {
        mc_core::machinery_error(&format!("setup step '{what}' failed: {}", failure_text(&r)));
    }
}
