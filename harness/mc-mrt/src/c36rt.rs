//! C36 — run-time half (Oracle B): "an accepted manifest never fails at run time because of an unknown or
//! already-consumed bucket or proof".
//!
//! Programs: every body of length <= L (quick 4, thorough 5; C36RT_LEN overrides; level by level, so that a wall cap
//! would leave a uniform completed bound) over the bucket / proof lifecycle alphabet `Op`, for V1
//! and V2 transaction manifests. The alphabet at a position is computed from the number of buckets / proofs the body
//! has created so far (a purely syntactic count): every id created so far - consumed or not - plus the first id
//! that does not exist. A body is embedded in
//!     header : lock_fee(faucet); A.withdraw(F, 8)  [worktop pre-funded: every TAKE_FROM_WORKTOP F 1 succeeds];
//!              A.create_proof_of_amount(F, 1) x 3  [auth zone pre-filled: POP / proof-from-auth-zone succeed until the
//!              body itself has emptied the zone]
//!     closing: DROP_ALL_PROOFS; RETURN_TO_WORKTOP for every bucket the REAL interpreter reports live after the body
//!              (from its visitor events); A.try_deposit_batch_or_abort(ENTIRE_WORKTOP)
//! so that bodies that leave buckets behind are still complete, acceptable manifests. The whole manifest (header +
//! body + closing) is validated by the real `StaticManifestInterpreter` with `ValidationRuleset::all()`; only ACCEPTED
//! manifests are executed, each from the same ledger snapshot. A prefix the interpreter rejects at an instruction is
//! not extended (the interpreter is sequential, every extension is rejected at the same instruction).
//!
//! Oracle: the receipt of an accepted manifest must not carry a bucket / proof identity error of the transaction
//! processor (`TransactionProcessorError::BucketNotFound` / `ProofNotFound` - the processor removes consumed ids from
//! its maps, so "already consumed" surfaces as the same two errors; any "...AlreadyTaken/AlreadyConsumed" text is
//! matched as well). Every other failure (locked bucket, empty auth zone, dangling resources, auth, amounts) is
//! outside the clause and only an outcome class. The oracle needs no model: it is a predicate on the receipt.
use crate::rt::*;
use mc_core::{par_map, Ctx, Level, Local};
use mc_ledger::*;
use radix_transactions::manifest::*;
use serde_json::{json, Map, Value};
use std::ops::ControlFlow;
use std::sync::atomic::{AtomicBool, AtomicU64, Ordering};

#[derive(Clone, Copy, Debug, PartialEq, Eq, Hash, PartialOrd, Ord)]
pub enum Op {
    /// TAKE_FROM_WORKTOP F 1 -> new bucket
    Take,
    /// RETURN_TO_WORKTOP b
    Return(u32),
    /// BURN_RESOURCE b
    Burn(u32),
    /// CREATE_PROOF_FROM_BUCKET_OF_ALL b -> new proof
    ProofOfBucket(u32),
    /// CREATE_PROOF_FROM_BUCKET_OF_AMOUNT b 1 -> new proof
    ProofOfBucketAmount(u32),
    /// CREATE_PROOF_FROM_AUTH_ZONE_OF_ALL F -> new proof
    ProofOfAuthZone,
    /// CLONE_PROOF p -> new proof
    CloneProof(u32),
    /// DROP_PROOF p
    DropProof(u32),
    /// PUSH_TO_AUTH_ZONE p
    Push(u32),
    /// POP_FROM_AUTH_ZONE -> new proof
    Pop,
    DropAllProofs,
    DropNamedProofs,
    DropAuthZoneProofs,
    /// A.try_deposit_or_abort(Bucket b, None)
    Deposit(u32),
    /// A.try_deposit_batch_or_abort([Bucket b, Bucket b], None) - the same bucket twice in one call
    DepositTwice(u32),
    /// CALL_FUNCTION resource_package FungibleProof::Proof_drop(Proof p) - a native call taking a proof
    PassProof(u32),
    /// V2: ASSERT_BUCKET_CONTENTS b AtLeastAmount(0)  (looks the bucket up, consumes nothing, never fails on contents)
    AssertBucket(u32),
    /// V2: ASSERT_NEXT_CALL_RETURNS_INCLUDE {}  (the next instruction must be an invocation)
    AssertNextCall,
}

impl Op {
    fn creates_bucket(&self) -> bool {
        matches!(self, Op::Take)
    }
    fn creates_proof(&self) -> bool {
        matches!(self, Op::ProofOfBucket(_) | Op::ProofOfBucketAmount(_) | Op::ProofOfAuthZone | Op::CloneProof(_) | Op::Pop)
    }
    fn refers_to_id(&self) -> bool {
        !matches!(self, Op::Take | Op::ProofOfAuthZone | Op::Pop | Op::DropAllProofs | Op::DropNamedProofs | Op::DropAuthZoneProofs | Op::AssertNextCall)
    }
}

/// Alphabet after a body that created `nb` buckets and `np` proofs (ids 0..n exist or existed; id n is unknown).
fn alphabet(kind: Kind, nb: u32, np: u32) -> Vec<Op> {
    let mut v = vec![Op::Take];
    for b in 0..=nb {
        v.push(Op::Return(b));
    }
    for b in 0..=nb {
        v.push(Op::Burn(b));
    }
    for b in 0..=nb {
        v.push(Op::ProofOfBucket(b));
    }
    for b in 0..nb {
        v.push(Op::ProofOfBucketAmount(b));
    }
    v.push(Op::ProofOfAuthZone);
    for p in 0..=np {
        v.push(Op::CloneProof(p));
    }
    for p in 0..=np {
        v.push(Op::DropProof(p));
    }
    for p in 0..=np {
        v.push(Op::Push(p));
    }
    v.push(Op::Pop);
    v.extend([Op::DropAllProofs, Op::DropNamedProofs, Op::DropAuthZoneProofs]);
    for b in 0..=nb {
        v.push(Op::Deposit(b));
    }
    for b in 0..nb {
        v.push(Op::DepositTwice(b));
    }
    for p in 0..=np {
        v.push(Op::PassProof(p));
    }
    if kind == Kind::V2 {
        for b in 0..=nb {
            v.push(Op::AssertBucket(b));
        }
        v.push(Op::AssertNextCall);
    }
    v
}

fn counts(ops: &[Op]) -> (u32, u32) {
    (ops.iter().filter(|o| o.creates_bucket()).count() as u32, ops.iter().filter(|o| o.creates_proof()).count() as u32)
}

pub struct Env {
    snap: Snap,
    a: ComponentAddress,
    sig_a: NonFungibleGlobalId,
    f: ResourceAddress,
    header_proofs: usize,
}

fn build_env(header_proofs: usize) -> Env {
    let mut sim = new_sim();
    let w = build_world(&mut sim);
    Env { snap: sim.create_snapshot(), a: w.a.addr, sig_a: w.a.sig.clone(), f: w.f18, header_proofs }
}

fn instruction(env: &Env, op: Op) -> InstructionV2 {
    match op {
        Op::Take => TakeFromWorktop { resource_address: env.f, amount: dec!(1) }.into(),
        Op::Return(b) => ReturnToWorktop { bucket_id: ManifestBucket(b) }.into(),
        Op::Burn(b) => BurnResource { bucket_id: ManifestBucket(b) }.into(),
        Op::ProofOfBucket(b) => CreateProofFromBucketOfAll { bucket_id: ManifestBucket(b) }.into(),
        Op::ProofOfBucketAmount(b) => CreateProofFromBucketOfAmount { bucket_id: ManifestBucket(b), amount: dec!(1) }.into(),
        Op::ProofOfAuthZone => CreateProofFromAuthZoneOfAll { resource_address: env.f }.into(),
        Op::CloneProof(p) => CloneProof { proof_id: ManifestProof(p) }.into(),
        Op::DropProof(p) => DropProof { proof_id: ManifestProof(p) }.into(),
        Op::Push(p) => PushToAuthZone { proof_id: ManifestProof(p) }.into(),
        Op::Pop => PopFromAuthZone.into(),
        Op::DropAllProofs => DropAllProofs.into(),
        Op::DropNamedProofs => DropNamedProofs.into(),
        Op::DropAuthZoneProofs => DropAuthZoneProofs.into(),
        Op::Deposit(b) => call_method(env.a, ACCOUNT_TRY_DEPOSIT_OR_ABORT_IDENT, tuple(vec![bucket(b), none()])),
        Op::DepositTwice(b) => call_method(
            env.a,
            ACCOUNT_TRY_DEPOSIT_BATCH_OR_ABORT_IDENT,
            tuple(vec![MV::Array { element_value_kind: ManifestValueKind::Custom(ManifestCustomValueKind::Bucket), elements: vec![bucket(b), bucket(b)] }, none()]),
        ),
        Op::PassProof(p) => call_function(RESOURCE_PACKAGE, FUNGIBLE_PROOF_BLUEPRINT, PROOF_DROP_IDENT, tuple(vec![proof(p)])),
        Op::AssertBucket(b) => AssertBucketContents { bucket_id: ManifestBucket(b), constraint: ManifestResourceConstraint::AtLeastAmount(Decimal::ZERO) }.into(),
        Op::AssertNextCall => AssertNextCallReturnsInclude { constraints: ManifestResourceConstraints::new() }.into(),
    }
}

fn header(env: &Env) -> Vec<InstructionV2> {
    let mut v = vec![lock_fee_from_faucet(), withdraw(env.a, env.f, dec!(8))];
    for _ in 0..env.header_proofs {
        v.push(call_method(env.a, ACCOUNT_CREATE_PROOF_OF_AMOUNT_IDENT, mval(&(env.f, dec!(1)))));
    }
    v
}

/// The real interpreter's view of which buckets are live, folded from its visitor events.
#[derive(Default)]
struct LiveBuckets {
    live: Vec<bool>,
    pending_next_call: bool,
}

impl ManifestInterpretationVisitor for LiveBuckets {
    type Output = ManifestValidationError;
    fn on_new_bucket(&mut self, _d: OnNewBucket) -> ControlFlow<Self::Output> {
        self.live.push(true);
        ControlFlow::Continue(())
    }
    fn on_consume_bucket(&mut self, d: OnConsumeBucket) -> ControlFlow<Self::Output> {
        if let Some(b) = self.live.get_mut(d.bucket.0 as usize) {
            *b = false;
        }
        ControlFlow::Continue(())
    }
    fn on_resource_assertion(&mut self, d: OnResourceAssertion) -> ControlFlow<Self::Output> {
        if matches!(d.assertion, ResourceAssertion::NextCall(_)) {
            self.pending_next_call = true;
        }
        ControlFlow::Continue(())
    }
    fn on_end_instruction(&mut self, d: OnEndInstruction) -> ControlFlow<Self::Output> {
        if matches!(d.effect, ManifestInstructionEffect::Invocation { .. }) {
            self.pending_next_call = false;
        }
        ControlFlow::Continue(())
    }
}

fn is_end_only_error(e: &ManifestValidationError) -> bool {
    matches!(
        e,
        ManifestValidationError::DanglingBucket(..) | ManifestValidationError::DanglingAddressReservation(..) | ManifestValidationError::ManifestEndedWhilstExpectingNextCallAssertion
    )
}

enum Static {
    /// the interpreter rejects the body at one of its instructions
    PrefixRejected(String),
    /// the body is fine as a prefix but header + body + closing is not accepted
    ClosedRejected(String),
    /// accepted; the complete instruction list and the closing that was added
    Accepted { instructions: Vec<InstructionV2>, closing: Vec<String>, body_alone_accepted: bool },
}

fn static_check(env: &Env, kind: Kind, ops: &[Op]) -> Result<Static, String> {
    let mut ins = header(env);
    ins.extend(ops.iter().map(|o| instruction(env, *o)));
    let Some(open) = assemble(kind, &ins) else { return Ok(Static::PrefixRejected("not-expressible-in-kind".into())) };
    let mut v = LiveBuckets::default();
    let r = mc_core::catch(|| open.validate_with(&mut v)).map_err(|p| format!("StaticManifestInterpreter panicked: {p}"))?;
    let body_alone_accepted = r.is_ok();
    if let Err(e) = &r {
        if !is_end_only_error(e) {
            return Ok(Static::PrefixRejected(err_name(e)));
        }
    }
    if v.pending_next_call {
        return Ok(Static::ClosedRejected("body-ends-with-pending-next-call-assertion".into()));
    }
    let mut closing = vec!["DROP_ALL_PROOFS".to_string()];
    ins.push(DropAllProofs.into());
    for (b, live) in v.live.iter().enumerate() {
        if *live {
            closing.push(format!("RETURN_TO_WORKTOP {b}"));
            ins.push(ReturnToWorktop { bucket_id: ManifestBucket(b as u32) }.into());
        }
    }
    closing.push("A.try_deposit_batch_or_abort(ENTIRE_WORKTOP)".to_string());
    ins.push(try_deposit_entire_worktop(env.a));
    let closed = assemble(kind, &ins).expect("same kind");
    match mc_core::catch(|| closed.validate()).map_err(|p| format!("StaticManifestInterpreter panicked: {p}"))? {
        Ok(()) => Ok(Static::Accepted { instructions: ins, closing, body_alone_accepted }),
        Err(e) => Ok(Static::ClosedRejected(err_name(&e))),
    }
}

/// proofs of F placed in the auth zone before the body (each costs one account call per transaction)
const HEADER_PROOFS: usize = 3;

const IDENTITY_MARKERS: [&str; 6] = ["BucketNotFound", "ProofNotFound", "AlreadyTaken", "AlreadyConsumed", "BucketAlreadyUsed", "ProofAlreadyUsed"];

/// The clause: Some(marker) when the receipt carries a bucket / proof identity error.
fn identity_error(text: &str) -> Option<&'static str> {
    IDENTITY_MARKERS.iter().copied().find(|m| text.contains(m))
}

#[derive(Default)]
struct Counters {
    static_steps: AtomicU64,
    prefix_ok: AtomicU64,
    executed: AtomicU64,
    success: AtomicU64,
    success_with_id_use: AtomicU64,
    body_alone_accepted: AtomicU64,
}

struct Outcome {
    extend: bool,
}

/// Static check, and - if accepted - execution and judgement of one body.
fn evaluate(env: &Env, kind: Kind, ops: &[Op], l: &mut Local, c: &Counters, verbose: bool) -> Outcome {
    l.eval();
    c.static_steps.fetch_add(1, Ordering::Relaxed);
    let case = |extra: Value| json!({"kind": kind.name(), "ops": ops.iter().map(|o| format!("{o:?}")).collect::<Vec<_>>(), "detail": extra});
    let st = match static_check(env, kind, ops) {
        Ok(s) => s,
        Err(p) => {
            // a panic of the validator is not this clause's business; remember it
            l.info(&format!("static-validator-panic@{}", mc_core::last_panic_location()));
            l.class("static:validator-panic");
            let _ = p;
            return Outcome { extend: false };
        }
    };
    let (instructions, closing, body_alone) = match st {
        Static::PrefixRejected(e) => {
            l.class(&format!("static:prefix-rejected:{e}"));
            if verbose {
                println!("  static: prefix rejected: {e}");
            }
            return Outcome { extend: false };
        }
        Static::ClosedRejected(e) => {
            c.prefix_ok.fetch_add(1, Ordering::Relaxed);
            l.class(&format!("static:prefix-ok:closed-manifest-rejected:{e}"));
            if verbose {
                println!("  static: prefix ok, closed manifest rejected: {e}");
            }
            return Outcome { extend: true };
        }
        Static::Accepted { instructions, closing, body_alone_accepted } => (instructions, closing, body_alone_accepted),
    };
    c.prefix_ok.fetch_add(1, Ordering::Relaxed);
    if body_alone {
        c.body_alone_accepted.fetch_add(1, Ordering::Relaxed);
    }
    let built = assemble(kind, &instructions).expect("same kind");
    if verbose {
        println!("  accepted manifest:\n{}", built.text());
    }
    let receipt = match execute(&env.snap, built, vec![env.sig_a.clone()]) {
        Ok(r) => r,
        Err(p) => {
            l.class("exec:panic");
            l.info(&format!("engine-panic: {} @ {}", mc_core::truncate(&p, 100), mc_core::last_panic_location()));
            if let Some(m) = identity_error(&p) {
                l.violation(format!("panic:{m}"), format!("accepted {} manifest panicked at run time with a bucket/proof identity message: {p}", kind.name()), case(json!({"closing": closing, "panic": p})));
            }
            return Outcome { extend: true };
        }
    };
    c.executed.fetch_add(1, Ordering::Relaxed);
    let text = failure_text(&receipt);
    if verbose {
        println!("  receipt: {} {}", receipt_class(&receipt), text);
    }
    if let Some(m) = identity_error(&text) {
        let manifest = assemble(kind, &instructions).map(|b| b.text()).unwrap_or_default();
        l.class(&format!("exec:IDENTITY-ERROR:{m}"));
        l.violation(
            format!("{}:{m}", kind.name()),
            format!(
                "a {} manifest accepted by StaticManifestInterpreter(ValidationRuleset::all()) failed at run time with a bucket/proof identity error: {} (body {:?}, closing {:?})",
                kind.name(),
                mc_core::truncate(&text, 200),
                ops,
                closing
            ),
            case(json!({"closing": closing, "receipt": receipt_class(&receipt), "error": text, "manifest": manifest})),
        );
        return Outcome { extend: true };
    }
    if is_success(&receipt) {
        c.success.fetch_add(1, Ordering::Relaxed);
        if ops.iter().any(|o| o.refers_to_id()) {
            c.success_with_id_use.fetch_add(1, Ordering::Relaxed);
        }
        l.class("exec:commit-success");
    } else {
        l.class(&format!("exec:{}", mc_core::truncate(&receipt_class(&receipt), 110)));
    }
    l.sample(|| json!({"kind": kind.name(), "body": ops.iter().map(|o| format!("{o:?}")).collect::<Vec<_>>(), "closing": closing, "outcome": receipt_class(&receipt)}));
    Outcome { extend: true }
}

fn parse_op(s: &str) -> Option<Op> {
    for nb in 0..12u32 {
        for o in alphabet(Kind::V2, nb, nb) {
            if format!("{o:?}") == s {
                return Some(o);
            }
        }
    }
    None
}

fn replay(ctx: Ctx) -> ! {
    let case = ctx.read_replay_case().unwrap();
    let kind = case["kind"].as_str().and_then(Kind::parse).unwrap_or(Kind::V1);
    let ops: Vec<Op> = case["ops"].as_array().map(|a| a.iter().filter_map(|x| x.as_str().and_then(parse_op)).collect()).unwrap_or_default();
    println!("C36 run-time replay: {} body {:?}", kind.name(), ops);
    let env = build_env(HEADER_PROOFS);
    let c = Counters::default();
    let mut l = Local::new();
    evaluate(&env, kind, &ops, &mut l, &c, true);
    ctx.merge(l);
    ctx.finish(Level::ModelChecking, "replay of one accepted manifest", 0, false, Map::new(), &[])
}

pub fn run(ctx: Ctx) -> ! {
    if ctx.replay.is_some() {
        replay(ctx);
    }
    let max_len: usize = std::env::var("C36RT_LEN").ok().and_then(|s| s.parse().ok()).unwrap_or(ctx.pick(4, 5));
    let wall_cap_s: f64 = std::env::var("C36RT_WALL_CAP_S").ok().and_then(|s| s.parse().ok()).unwrap_or(ctx.pick(55.0, 1100.0));
    let env = build_env(HEADER_PROOFS);
    let c = Counters::default();
    let capped = AtomicBool::new(false);

    // sanity: the empty body (header + closing) must be accepted and commit, otherwise the world is wrong
    {
        let mut l = Local::new();
        for kind in [Kind::V1, Kind::V2] {
            evaluate(&env, kind, &[], &mut l, &c, false);
        }
        if l.classes.get("exec:commit-success").copied().unwrap_or(0) != 2 {
            mc_core::machinery_error(&format!("C36 run-time: header + closing alone does not commit: {:?}", l.classes));
        }
        ctx.merge(l);
    }

    // level-major: every body of length n for both kinds before any body of length n+1, so that a wall cap leaves a
    // uniform completed bound
    let kinds = [Kind::V1, Kind::V2];
    let mut frontiers: Vec<Vec<Vec<Op>>> = vec![vec![vec![]], vec![vec![]]];
    let mut per_len = vec![];
    let mut completed_len = max_len;
    'levels: for len in 1..=max_len {
        for (ki, kind) in kinds.iter().copied().enumerate() {
            let frontier = std::mem::take(&mut frontiers[ki]);
            let s0 = (c.static_steps.load(Ordering::Relaxed), c.executed.load(Ordering::Relaxed));
            // expand every prefix-ok body of length len-1 by every op; results merged in frontier order (deterministic)
            let results: Vec<(Local, Vec<Vec<Op>>, bool)> = par_map(ctx.threads, &frontier, |parent| {
                let mut l = Local::new();
                let mut children = vec![];
                if ctx.elapsed_s() > wall_cap_s {
                    capped.store(true, Ordering::Relaxed);
                    return (l, children, false);
                }
                let (nb, np) = counts(parent);
                for op in alphabet(kind, nb, np) {
                    let mut body = parent.clone();
                    body.push(op);
                    let o = evaluate(&env, kind, &body, &mut l, &c, false);
                    if o.extend && len < max_len {
                        children.push(body);
                    }
                }
                (l, children, true)
            });
            let mut next = vec![];
            let mut done = 0u64;
            for (l, ch, finished) in results {
                ctx.merge(l);
                next.extend(ch);
                done += finished as u64;
            }
            let s1 = (c.static_steps.load(Ordering::Relaxed), c.executed.load(Ordering::Relaxed));
            per_len.push(json!({"kind": kind.name(), "length": len, "parents": frontier.len(), "parents_completed": done, "bodies_validated": s1.0 - s0.0, "manifests_executed": s1.1 - s0.1}));
            eprintln!("[C36rt] {} length {len}: {} parents, {} bodies validated, {} executed, {:.1}s", kind.name(), frontier.len(), s1.0 - s0.0, s1.1 - s0.1, ctx.elapsed_s());
            if capped.load(Ordering::Relaxed) {
                completed_len = len - 1;
                break 'levels;
            }
            frontiers[ki] = next;
        }
    }
    let per_kind = per_len;

    let capped = capped.load(Ordering::Relaxed);
    let ld = |a: &AtomicU64| a.load(Ordering::Relaxed);
    let mut cov = Map::new();
    cov.insert("states".into(), json!(ld(&c.prefix_ok)));
    cov.insert("transitions".into(), json!(ld(&c.static_steps)));
    cov.insert("traces_validated_against_impl".into(), json!(ld(&c.executed)));
    cov.insert("max_body_length".into(), json!(max_len));
    cov.insert("body_length_completed".into(), json!(completed_len));
    cov.insert("caps_hit".into(), json!(capped));
    cov.insert("per_kind_and_length".into(), json!(per_kind));
    cov.insert("accepted_manifests_executed".into(), json!(ld(&c.executed)));
    cov.insert("executions_committed_successfully".into(), json!(ld(&c.success)));
    cov.insert("bodies_accepted_without_closing".into(), json!(ld(&c.body_alone_accepted)));
    cov.insert("header".into(), json!(format!("lock_fee(faucet); A.withdraw(F, 8); A.create_proof_of_amount(F, 1) x {}", env.header_proofs)));
    cov.insert("closing".into(), json!("DROP_ALL_PROOFS; RETURN_TO_WORKTOP of every bucket the real interpreter reports live; A.try_deposit_batch_or_abort(ENTIRE_WORKTOP)"));
    cov.insert("identity_error_markers".into(), json!(IDENTITY_MARKERS));
    if capped {
        ctx.note(format!("wall cap hit: all bodies of length <= {completed_len} were covered for both kinds; length {} is partial", completed_len + 1));
    }
    let rule = "a case = one body (instruction sequence over the lifecycle alphabet) for one manifest kind, validated by the real StaticManifestInterpreter inside header + closing; \
every accepted manifest is executed by the real engine from one snapshot and its receipt inspected. Non-trivial = accepted manifests that committed successfully and whose body refers to at least \
one bucket / proof id (every run-time id lookup of the body was exercised)";
    ctx.finish(
        Level::ModelChecking,
        rule,
        ld(&c.success_with_id_use),
        !capped,
        cov,
        &[
            "run-time half of C36: V1 and V2 transaction manifests without children (YIELD_TO_CHILD / subintents are not executed)",
            "one fungible resource; the worktop holds 8 F and the auth zone 3 proofs of F before the body, so TAKE / POP / proof creation do not fail for lack of resources unless the body removed them",
            "bucket/proof identity errors = TransactionProcessorError::BucketNotFound / ProofNotFound (consumed ids are removed from the processor's maps, so 'already consumed' raises the same errors)",
        ],
    )
}
