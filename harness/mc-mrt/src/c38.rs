//! C38 — static resource movement bounds are sound.
//!
//! Statement: whenever the static analysis of a manifest reports bounds on what each account will receive or
//! send, every successful execution of that manifest deposits and withdraws amounts within those bounds.
//!
//! Shape: programs x ledger states. Every instruction sequence of bounded length over a collision-forcing
//! alphabet (see `Op`), closed by "return live buckets; deposit entire worktop to A", is built with the V2
//! `ManifestBuilder`, analysed by the real `StaticManifestInterpreter` + `StaticResourceMovementsVisitor`
//! (`resolve_account_changes`), and - when the analyser returns bounds - executed by the real engine on each
//! ledger state. For every SUCCESSFUL execution the harness derives what each account really withdrew and
//! deposited (module `actual`) and judges the reported claims against it (module `judge`).
//!
//! What "net" means in the analyser's output (types.rs, `AggregatedBalanceChange`): per account and resource
//! it keeps the TOTAL withdrawn and the TOTAL deposited separately (numeric bounds are never cancelled against
//! each other); only *known non-fungible ids* that are both withdrawn and deposited are cancelled, and each
//! cancellation lowers both totals by one. The oracle therefore demands, per account X and resource R:
//!   fungible:  reported withdrawn total == gross withdrawn;  gross deposited within the reported deposit bounds;
//!   non-fungible: there is a number c of cancelled ids, 0 <= c <= |withdrawn ids ∩ deposited ids| (multisets), with
//!       reported withdrawn total == gross withdrawn - c and (gross deposited - c) within the deposit bounds;
//!       reported known withdrawn ids were withdrawn and are not held after the transaction;
//!       reported certain deposited ids were deposited and are held after the transaction;
//!       ids that are deposited and never withdrawn, and ids newly held afterwards, lie in a reported allow-list;
//!   a resource with no reported bound must not be deposited unless `unspecified_resources` is MayBePresent,
//!   and must not be withdrawn at all.
//! `NetWithdraws` has no public accessor, so the withdraw side is judged by membership: the set of claims that
//! are consistent with the execution is enumerated (it is tiny) and the reported value must equal one of them.
//!
//! Out of the statement (counted as classes only): sequences the static validator rejects, analyser errors,
//! failed / rejected executions.
use mc_core::{par_range, Ctx, Level, Local};
use mc_ledger::*;
use radix_engine::blueprints::account::{
    AccountCollection, AccountResourceVaultEntryPayload, DepositEvent as AccountDepositEvent, RejectedDepositEvent as AccountRejectedDepositEvent,
    WithdrawEvent as AccountWithdrawEvent,
};
use radix_engine::system::system_db_reader::SystemDatabaseReader;
use radix_engine::system::system_substates::KeyValueEntrySubstate;
use radix_transactions::manifest::static_resource_movements::*;
use radix_transactions::manifest::*;
use serde_json::{json, Map, Value};
use std::collections::{BTreeMap, BTreeSet, HashSet};
use std::sync::atomic::{AtomicU64, Ordering};
use std::sync::Mutex;

// ------------------------------------------------------------------------------------------------
// alphabet
// ------------------------------------------------------------------------------------------------

#[derive(Clone, Copy, Debug, PartialEq, Eq, PartialOrd, Ord, Hash)]
pub enum Op {
    /// withdraw(A, F, 1)
    W1,
    /// withdraw(A, F, 2)
    W2,
    /// withdraw_non_fungibles(A, NF, {#1})
    WN1,
    /// withdraw_non_fungibles(A, NF, {#1,#2})
    WN12,
    /// take_from_worktop(F, 1) -> new bucket
    TakeF1,
    /// take_all_from_worktop(F) -> new bucket
    TakeAllF,
    /// take_all_from_worktop(NF) -> new bucket
    TakeAllNF,
    /// take_non_fungibles_from_worktop(NF, {#1}) -> new bucket
    TakeNF1,
    /// B.deposit(newest live bucket)
    DepB,
    /// B.deposit_batch(entire worktop)
    DepBatchB,
    /// B.try_deposit_or_abort(newest live bucket)
    TryAbortB,
    /// B.try_deposit_or_refund(newest live bucket)
    TryRefundB,
    /// B.try_deposit_batch_or_refund(entire worktop)
    TryRefundAllB,
    /// assert_worktop_contains(F, 1)
    AssertF1,
    /// assert_worktop_contains_any(F)
    AssertAnyF,
    /// assert_worktop_contains_non_fungibles(NF, {#1})
    AssertNF1,
    /// burn(newest live bucket)
    Burn,
    /// faucet.free() - opaque call returning XRD
    Faucet,
    /// pool.contribute(newest live bucket) - opaque return (pool units)
    Contribute,
    /// withdraw(A, PU, 1); take_all(PU); pool.redeem(bucket) - opaque return (F)
    Redeem,
    /// as Redeem, with ASSERT_NEXT_CALL_RETURNS_ONLY {F: exactly 1} in front of the redeem call
    RedeemA,
    /// ASSERT_NEXT_CALL_RETURNS_ONLY {F: between 1 and 2}
    NextOnlyF,
    /// ASSERT_NEXT_CALL_RETURNS_ONLY {XRD: at least 1}
    NextOnlyX,
    /// ASSERT_NEXT_CALL_RETURNS_INCLUDE {F: at least 1}
    NextInclF,
    /// ASSERT_WORKTOP_RESOURCES_ONLY {F: exactly 1}
    WtOnlyF,
    /// ASSERT_WORKTOP_RESOURCES_INCLUDE {F: between 1 and 2}
    WtInclF,
    /// ASSERT_WORKTOP_RESOURCES_INCLUDE {NF: non-zero, at most 2, ids within {#1,#2}}
    WtInclNF,
    /// ASSERT_BUCKET_CONTENTS(newest live bucket, General{1..=2, any ids})
    BucketC,
    /// ASSERT_WORKTOP_RESOURCES_INCLUDE {F: General{lower 0, unbounded, allow-list {}}} - the constraint of the
    /// known C37 finding (declared valid for fungible use; `normalize` clamps its upper bound to 0)
    WtInclEmptyAllow,
}

pub const FULL: &[Op] = &[
    Op::W1,
    Op::W2,
    Op::WN1,
    Op::WN12,
    Op::TakeF1,
    Op::TakeAllF,
    Op::TakeAllNF,
    Op::TakeNF1,
    Op::DepB,
    Op::DepBatchB,
    Op::TryAbortB,
    Op::TryRefundB,
    Op::TryRefundAllB,
    Op::AssertF1,
    Op::AssertAnyF,
    Op::AssertNF1,
    Op::Burn,
    Op::Faucet,
    Op::Contribute,
    Op::Redeem,
    Op::RedeemA,
    Op::NextOnlyF,
    Op::NextOnlyX,
    Op::NextInclF,
    Op::WtOnlyF,
    Op::WtInclF,
    Op::WtInclNF,
    Op::BucketC,
    Op::WtInclEmptyAllow,
];

/// Reduced alphabet for the deepest layer of each tier.
pub const CORE: &[Op] = &[
    Op::W2,
    Op::WN12,
    Op::TakeF1,
    Op::TakeAllF,
    Op::TakeNF1,
    Op::DepB,
    Op::DepBatchB,
    Op::TryRefundB,
    Op::TryRefundAllB,
    Op::Burn,
    Op::Redeem,
    Op::NextOnlyF,
    Op::WtInclF,
];

impl Op {
    fn parse(s: &str) -> Option<Op> {
        FULL.iter().copied().find(|o| format!("{o:?}") == s)
    }
    /// number of live buckets needed / whether the newest one is consumed / whether one is created
    fn needs_bucket(&self) -> bool {
        matches!(self, Op::DepB | Op::TryAbortB | Op::TryRefundB | Op::Burn | Op::Contribute | Op::BucketC)
    }
    fn consumes_bucket(&self) -> bool {
        self.needs_bucket() && !matches!(self, Op::BucketC)
    }
    fn creates_bucket(&self) -> bool {
        matches!(self, Op::TakeF1 | Op::TakeAllF | Op::TakeAllNF | Op::TakeNF1)
    }
    fn is_refundable_deposit_to_b(&self) -> bool {
        matches!(self, Op::TryRefundB | Op::TryRefundAllB)
    }
}

/// All sequences of length exactly `n` over `alphabet` in which every bucket operation has a live bucket
/// (anything else is not a manifest the builder can express). Length-lexicographic order of `alphabet`.
fn gen_exact(alphabet: &[Op], n: usize, out: &mut Vec<Vec<Op>>, skipped: &mut u64) {
    fn rec(alphabet: &[Op], n: usize, cur: &mut Vec<Op>, live: usize, out: &mut Vec<Vec<Op>>, skipped: &mut u64) {
        if cur.len() == n {
            out.push(cur.clone());
            return;
        }
        for &op in alphabet {
            if op.needs_bucket() && live == 0 {
                // every completion of this prefix is unbuildable
                *skipped += (alphabet.len() as u64).pow((n - cur.len() - 1) as u32);
                continue;
            }
            let mut l = live;
            if op.consumes_bucket() {
                l -= 1;
            }
            if op.creates_bucket() {
                l += 1;
            }
            cur.push(op);
            rec(alphabet, n, cur, l, out, skipped);
            cur.pop();
        }
    }
    rec(alphabet, n, &mut Vec::new(), 0, out, skipped);
}

// ------------------------------------------------------------------------------------------------
// world: resources and the ledger states
// ------------------------------------------------------------------------------------------------

#[derive(Clone, Debug)]
pub struct Res {
    pub f: ResourceAddress,
    pub nf: ResourceAddress,
    pub pool: ComponentAddress,
    pub pu: ResourceAddress,
}

pub type Holdings = BTreeMap<ResourceAddress, (Decimal, BTreeSet<NonFungibleLocalId>)>;

pub struct LedgerState {
    pub name: &'static str,
    pub what: &'static str,
    pub snap: Snap,
    pub a: ComponentAddress,
    pub b: ComponentAddress,
    /// fee payer; never compared
    pub c: ComponentAddress,
    pub proofs: Vec<NonFungibleGlobalId>,
    pub before_a: Holdings,
    pub before_b: Holdings,
}

pub struct Env {
    pub res: Res,
    pub states: Vec<LedgerState>,
}

fn sim_from(snap: &Snap) -> Sim {
    LedgerSimulatorBuilder::new().without_kernel_trace().build_from_snapshot(snap.clone())
}

fn id(n: u64) -> NonFungibleLocalId {
    NonFungibleLocalId::integer(n)
}

/// What an account holds, read from the database: resource -> (amount, non-fungible ids).
pub fn holdings(sim: &mut Sim, acct: ComponentAddress) -> Result<Holdings, String> {
    let mut vaults: Vec<(ResourceAddress, NodeId)> = vec![];
    {
        let reader = SystemDatabaseReader::new(sim.substate_db());
        // an account that was never instantiated has no object info: it holds nothing
        let Ok(part) = reader.get_partition_of_collection(acct.as_node_id(), ModuleId::Main, AccountCollection::ResourceVaultKeyValue.collection_index())
        else {
            return Ok(Holdings::new());
        };
        for (k, v) in sim.substate_db().list_map_raw_values(acct.as_node_id(), part, None::<SubstateKey>) {
            let ra: ResourceAddress = scrypto_decode(&k).map_err(|e| format!("vault key undecodable: {e:?}"))?;
            let e: KeyValueEntrySubstate<AccountResourceVaultEntryPayload> = scrypto_decode(&v).map_err(|e| format!("vault entry undecodable: {e:?}"))?;
            if let Some(p) = e.into_value() {
                let vault = p.fully_update_and_into_latest_version();
                vaults.push((ra, *vault.0.as_node_id()));
            }
        }
    }
    let mut out = Holdings::new();
    for (ra, node) in vaults {
        if node.is_internal_fungible_vault() {
            let amt = sim.inspect_fungible_vault(node).ok_or_else(|| format!("fungible vault {node:?} unreadable"))?;
            out.insert(ra, (amt, BTreeSet::new()));
        } else {
            let (amt, it) = sim.inspect_non_fungible_vault(node).ok_or_else(|| format!("non-fungible vault {node:?} unreadable"))?;
            let ids: BTreeSet<NonFungibleLocalId> = it.collect();
            out.insert(ra, (amt, ids));
        }
    }
    Ok(out)
}

fn must_commit(sim: &mut Sim, m: TransactionManifestV1, proofs: Vec<NonFungibleGlobalId>, what: &str) {
    let r = sim.execute_manifest(m, proofs);
    if !is_success(&r) {
        mc_core::machinery_error(&format!("C38 setup step '{what}' failed: {}", failure_text(&r)));
    }
}

pub fn build_env() -> Env {
    let mut sim = new_sim();
    let w = build_world(&mut sim);
    let (pk_c, _, c) = sim.new_account(true);
    let sig_c = NonFungibleGlobalId::from_public_key(&pk_c);
    let (pool, pu) = sim.create_one_resource_pool(w.f18, rule!(allow_all));
    // A: 30 F, NF #1 #2 #3, 4 pool units
    must_commit(
        &mut sim,
        ManifestBuilder::new().lock_fee_from_faucet().mint_fungible(w.f18, dec!(24)).try_deposit_entire_worktop_or_abort(w.a.addr, None).build(),
        vec![],
        "mint F to A",
    );
    must_commit(
        &mut sim,
        ManifestBuilder::new()
            .lock_fee_from_faucet()
            .withdraw_from_account(w.a.addr, w.f18, dec!(4))
            .take_all_from_worktop(w.f18, "c")
            .call_method_with_name_lookup(pool, "contribute", |l| (l.bucket("c"),))
            .try_deposit_entire_worktop_or_abort(w.a.addr, None)
            .build(),
        vec![w.a.sig.clone()],
        "A contributes 4 F to the pool",
    );
    let res = Res { f: w.f18, nf: w.nf, pool, pu };
    let base = sim.create_snapshot();
    let mut states = vec![];
    let mut mk = |name: &'static str, what: &'static str, sim: &mut Sim, b: ComponentAddress, sig_b: NonFungibleGlobalId| {
        let before_a = holdings(sim, w.a.addr).unwrap_or_else(|e| mc_core::machinery_error(&e));
        let before_b = holdings(sim, b).unwrap_or_else(|e| mc_core::machinery_error(&e));
        states.push(LedgerState {
            name,
            what,
            snap: sim.create_snapshot(),
            a: w.a.addr,
            b,
            c,
            proofs: vec![w.a.sig.clone(), sig_b, sig_c.clone()],
            before_a,
            before_b,
        });
    };
    // S0: B accepts everything (default rule Accept, no preferences); B already holds XRD and rc
    mk("B-accepts-all", "B = existing account, default deposit rule Accept", &mut sim, w.b.addr, w.b.sig.clone());
    // S1: B disallows F through a resource preference
    {
        let mut s = sim_from(&base);
        must_commit(
            &mut s,
            ManifestBuilder::new()
                .lock_fee_from_faucet()
                .call_method(w.b.addr, ACCOUNT_SET_RESOURCE_PREFERENCE_IDENT, AccountSetResourcePreferenceInput { resource_address: w.f18, resource_preference: ResourcePreference::Disallowed })
                .build(),
            vec![w.b.sig.clone()],
            "B disallows F",
        );
        mk("B-disallows-F", "B = existing account with resource preference Disallowed for F", &mut s, w.b.addr, w.b.sig.clone());
    }
    // S2: B is a preallocated account address that was never touched (holds nothing, not instantiated)
    {
        let mut s = sim_from(&base);
        let pk = Secp256k1PrivateKey::from_u64(424_242).unwrap().public_key();
        let b = ComponentAddress::preallocated_account_from_public_key(&pk);
        mk("B-fresh", "B = never-instantiated preallocated account (holds nothing)", &mut s, b, NonFungibleGlobalId::from_public_key(&pk));
    }
    // S3: B accepts only resources it already holds (default rule AllowExisting; it holds XRD only)
    {
        let mut s = sim_from(&base);
        let (pk_d, _, d) = s.new_account(true);
        let sig_d = NonFungibleGlobalId::from_public_key(&pk_d);
        must_commit(
            &mut s,
            ManifestBuilder::new()
                .lock_fee_from_faucet()
                .call_method(d, ACCOUNT_SET_DEFAULT_DEPOSIT_RULE_IDENT, AccountSetDefaultDepositRuleInput { default: DefaultDepositRule::AllowExisting })
                .build(),
            vec![sig_d.clone()],
            "D allows existing only",
        );
        mk("B-allows-existing-only", "B = account holding XRD only, default deposit rule AllowExisting (rejects F and NF)", &mut s, d, sig_d);
    }
    Env { res, states }
}

// ------------------------------------------------------------------------------------------------
// manifests
// ------------------------------------------------------------------------------------------------

fn empty_allowlist_constraint() -> ManifestResourceConstraint {
    ManifestResourceConstraint::General(GeneralResourceConstraint {
        required_ids: Default::default(),
        lower_bound: LowerBound::Inclusive(Decimal::ZERO),
        upper_bound: UpperBound::Unbounded,
        allowed_ids: AllowedIds::Allowlist(Default::default()),
    })
}

/// Build the manifest of a sequence for a ledger state. `skip` drops one kind of op (used to test whether a
/// violation is reached through a particular assertion). None = a bucket op without a live bucket.
pub fn build_manifest(ops: &[Op], st: &LedgerState, r: &Res, skip: Option<Op>) -> Option<TransactionManifestV2> {
    let (a, bb) = (st.a, st.b);
    let mut b = ManifestBuilder::new_v2().lock_fee(st.c, dec!(100));
    let mut live: Vec<String> = vec![];
    let counter = std::cell::Cell::new(0usize);
    let next_n = || {
        let n = counter.get();
        counter.set(n + 1);
        n
    };
    let fresh = |live: &mut Vec<String>| {
        let name = format!("b{}", next_n());
        live.push(name.clone());
        name
    };
    for &op in ops {
        if Some(op) == skip {
            continue;
        }
        b = match op {
            Op::W1 => b.withdraw_from_account(a, r.f, dec!(1)),
            Op::W2 => b.withdraw_from_account(a, r.f, dec!(2)),
            Op::WN1 => b.withdraw_non_fungibles_from_account(a, r.nf, [id(1)]),
            Op::WN12 => b.withdraw_non_fungibles_from_account(a, r.nf, [id(1), id(2)]),
            Op::TakeF1 => {
                let name = fresh(&mut live);
                b.take_from_worktop(r.f, dec!(1), name.as_str())
            }
            Op::TakeAllF => {
                let name = fresh(&mut live);
                b.take_all_from_worktop(r.f, name.as_str())
            }
            Op::TakeAllNF => {
                let name = fresh(&mut live);
                b.take_all_from_worktop(r.nf, name.as_str())
            }
            Op::TakeNF1 => {
                let name = fresh(&mut live);
                b.take_non_fungibles_from_worktop(r.nf, [id(1)], name.as_str())
            }
            Op::DepB => {
                let name = live.pop()?;
                b.deposit(bb, name.as_str())
            }
            Op::DepBatchB => b.deposit_entire_worktop(bb),
            Op::TryAbortB => {
                let name = live.pop()?;
                b.try_deposit_or_abort(bb, None, name.as_str())
            }
            Op::TryRefundB => {
                let name = live.pop()?;
                b.try_deposit_or_refund(bb, None, name.as_str())
            }
            Op::TryRefundAllB => b.try_deposit_entire_worktop_or_refund(bb, None),
            Op::AssertF1 => b.assert_worktop_contains(r.f, dec!(1)),
            Op::AssertAnyF => b.assert_worktop_contains_any(r.f),
            Op::AssertNF1 => b.assert_worktop_contains_non_fungibles(r.nf, [id(1)]),
            Op::Burn => {
                let name = live.pop()?;
                b.burn_resource(name.as_str())
            }
            Op::Faucet => b.get_free_xrd_from_faucet(),
            Op::Contribute => {
                let name = live.pop()?;
                b.call_method_with_name_lookup(r.pool, ONE_RESOURCE_POOL_CONTRIBUTE_IDENT, |l| (l.bucket(name.as_str()),))
            }
            Op::Redeem | Op::RedeemA => {
                let name = format!("pu{}", next_n());
                let mut x = b.withdraw_from_account(a, r.pu, dec!(1)).take_all_from_worktop(r.pu, name.as_str());
                if op == Op::RedeemA {
                    x = x.assert_next_call_returns_only(ManifestResourceConstraints::new().with_exact_amount(r.f, dec!(1)));
                }
                x.call_method_with_name_lookup(r.pool, ONE_RESOURCE_POOL_REDEEM_IDENT, |l| (l.bucket(name.as_str()),))
            }
            Op::NextOnlyF => b.assert_next_call_returns_only(ManifestResourceConstraints::new().with_amount_range(r.f, dec!(1), dec!(2))),
            Op::NextOnlyX => b.assert_next_call_returns_only(ManifestResourceConstraints::new().with_at_least_amount(XRD, dec!(1))),
            Op::NextInclF => b.assert_next_call_returns_include(ManifestResourceConstraints::new().with_at_least_amount(r.f, dec!(1))),
            Op::WtOnlyF => b.assert_worktop_resources_only(ManifestResourceConstraints::new().with_exact_amount(r.f, dec!(1))),
            Op::WtInclF => b.assert_worktop_resources_include(ManifestResourceConstraints::new().with_amount_range(r.f, dec!(1), dec!(2))),
            Op::WtInclNF => b.assert_worktop_resources_include(ManifestResourceConstraints::new().with_general_constraint(
                r.nf,
                GeneralResourceConstraint { required_ids: Default::default(), lower_bound: LowerBound::NonZero, upper_bound: UpperBound::Inclusive(dec!(2)), allowed_ids: AllowedIds::allowlist([id(1), id(2)]) },
            )),
            Op::BucketC => {
                let name = live.last()?.clone();
                b.assert_bucket_contents(
                    name.as_str(),
                    ManifestResourceConstraint::General(GeneralResourceConstraint {
                        required_ids: Default::default(),
                        lower_bound: LowerBound::Inclusive(dec!(1)),
                        upper_bound: UpperBound::Inclusive(dec!(2)),
                        allowed_ids: AllowedIds::Any,
                    }),
                )
            }
            Op::WtInclEmptyAllow => b.assert_worktop_resources_include(ManifestResourceConstraints::new().with_unchecked(r.f, empty_allowlist_constraint())),
        };
    }
    // closing: return live buckets, deposit the entire worktop to A
    while let Some(name) = live.pop() {
        b = b.return_to_worktop(name.as_str());
    }
    b = b.deposit_entire_worktop(a);
    Some(b.build_no_validate())
}

pub struct Claims {
    pub withdraws: IndexMap<ComponentAddress, NetWithdraws>,
    pub deposits: IndexMap<ComponentAddress, NetDeposits>,
    /// the per-invocation lists (`resolve_account_deposits` / `resolve_account_withdraws`)
    pub all_deposits: IndexMap<ComponentAddress, Vec<AccountDeposit>>,
    pub all_withdraws: IndexMap<ComponentAddress, Vec<AccountWithdraw>>,
}

impl Claims {
    fn judge_account(&self, actual: &Actual, acct: &ComponentAddress) -> Vec<Finding> {
        let mut f = judge(actual, self.withdraws.get(acct), self.deposits.get(acct));
        f.extend(judge_lists(actual, self.all_withdraws.get(acct), self.all_deposits.get(acct)));
        f
    }
}

/// The analyser, invoked the way the repository's own tests invoke it.
pub fn analyse(m: &TransactionManifestV2) -> Result<Claims, StaticResourceMovementsError> {
    let interpreter = StaticManifestInterpreter::new(ValidationRuleset::all(), m);
    let mut visitor = StaticResourceMovementsVisitor::new(m.is_subintent());
    interpreter.validate_and_apply_visitor(&mut visitor)?;
    let output = visitor.output();
    let all_deposits = output.resolve_account_deposits();
    let all_withdraws = output.resolve_account_withdraws();
    let (withdraws, deposits) = output.resolve_account_changes()?;
    Ok(Claims { withdraws, deposits, all_deposits, all_withdraws })
}

// ------------------------------------------------------------------------------------------------
// actual movements of one account in one committed transaction
// ------------------------------------------------------------------------------------------------

#[derive(Clone, Debug, Default)]
pub struct Flow {
    pub w_amt: Decimal,
    pub d_amt: Decimal,
    /// multisets, in event order
    pub w_ids: Vec<NonFungibleLocalId>,
    pub d_ids: Vec<NonFungibleLocalId>,
    pub w_events: u32,
    pub d_events: u32,
}

#[derive(Clone, Debug, Default)]
pub struct Actual {
    pub flows: BTreeMap<ResourceAddress, Flow>,
    pub before: Holdings,
    pub after: Holdings,
    pub rejected_deposit_events: u32,
}

/// Gross flows from the account's own Withdraw/Deposit events.
fn flows_of(c: &CommitResult, acct: ComponentAddress) -> Result<(BTreeMap<ResourceAddress, Flow>, u32), String> {
    let mut flows: BTreeMap<ResourceAddress, Flow> = BTreeMap::new();
    let mut rejected = 0u32;
    for (EventTypeIdentifier(emitter, name), data) in &c.application_events {
        let Emitter::Method(node, ModuleId::Main) = emitter else { continue };
        if node != acct.as_node_id() {
            continue;
        }
        match name.as_str() {
            "WithdrawEvent" => match scrypto_decode::<AccountWithdrawEvent>(data).map_err(|e| format!("WithdrawEvent undecodable: {e:?}"))? {
                AccountWithdrawEvent::Fungible(ra, amt) => {
                    let f = flows.entry(ra).or_default();
                    f.w_amt = f.w_amt.checked_add(amt).ok_or("overflow")?;
                    f.w_events += 1;
                }
                AccountWithdrawEvent::NonFungible(ra, ids) => {
                    let f = flows.entry(ra).or_default();
                    f.w_amt = f.w_amt.checked_add(Decimal::from(ids.len())).ok_or("overflow")?;
                    f.w_ids.extend(ids);
                    f.w_events += 1;
                }
            },
            "DepositEvent" => match scrypto_decode::<AccountDepositEvent>(data).map_err(|e| format!("DepositEvent undecodable: {e:?}"))? {
                AccountDepositEvent::Fungible(ra, amt) => {
                    let f = flows.entry(ra).or_default();
                    f.d_amt = f.d_amt.checked_add(amt).ok_or("overflow")?;
                    f.d_events += 1;
                }
                AccountDepositEvent::NonFungible(ra, ids) => {
                    let f = flows.entry(ra).or_default();
                    f.d_amt = f.d_amt.checked_add(Decimal::from(ids.len())).ok_or("overflow")?;
                    f.d_ids.extend(ids);
                    f.d_events += 1;
                }
            },
            "RejectedDepositEvent" => {
                let _: AccountRejectedDepositEvent = scrypto_decode(data).map_err(|e| format!("RejectedDepositEvent undecodable: {e:?}"))?;
                rejected += 1;
            }
            _ => {}
        }
    }
    Ok((flows, rejected))
}

/// Events must explain the committed change of the account's vaults exactly: after - before == deposited - withdrawn,
/// and for non-fungibles after == before - withdrawn + deposited as sets. Err = they do not (not a C38 matter).
fn events_explain_state(a: &Actual) -> Result<(), String> {
    let mut all: BTreeSet<ResourceAddress> = a.flows.keys().copied().collect();
    all.extend(a.before.keys().copied());
    all.extend(a.after.keys().copied());
    for ra in all {
        let zero = (Decimal::ZERO, BTreeSet::new());
        let (b_amt, b_ids) = a.before.get(&ra).unwrap_or(&zero);
        let (a_amt, a_ids) = a.after.get(&ra).unwrap_or(&zero);
        let f = a.flows.get(&ra).cloned().unwrap_or_default();
        if *b_amt + f.d_amt - f.w_amt != *a_amt {
            return Err(format!("{ra:?}: before {b_amt} + deposited {} - withdrawn {} != after {a_amt}", f.d_amt, f.w_amt));
        }
        if !ra.is_fungible() {
            // replay the id movements as a multiset count per id
            let mut cnt: BTreeMap<NonFungibleLocalId, i64> = b_ids.iter().map(|i| (i.clone(), 1)).collect();
            for i in &f.d_ids {
                *cnt.entry(i.clone()).or_insert(0) += 1;
            }
            for i in &f.w_ids {
                *cnt.entry(i.clone()).or_insert(0) -= 1;
            }
            let end: BTreeSet<NonFungibleLocalId> = cnt.iter().filter(|(_, n)| **n == 1).map(|(i, _)| i.clone()).collect();
            if cnt.values().any(|n| *n != 0 && *n != 1) || &end != a_ids {
                return Err(format!("{ra:?}: id movements {:?} / {:?} do not lead from {b_ids:?} to {a_ids:?}", f.w_ids, f.d_ids));
            }
        }
    }
    Ok(())
}

// ------------------------------------------------------------------------------------------------
// the oracle
// ------------------------------------------------------------------------------------------------

#[derive(Clone, Debug)]
pub struct Finding {
    pub kind: String,
    pub what: String,
    /// true for "reported lower bound / certain id not met" (the only kinds a refund can explain)
    pub lower_side: bool,
}

fn multiset_intersection_size(a: &[NonFungibleLocalId], b: &[NonFungibleLocalId]) -> usize {
    let mut cb: BTreeMap<&NonFungibleLocalId, usize> = BTreeMap::new();
    for i in b {
        *cb.entry(i).or_insert(0) += 1;
    }
    let mut n = 0;
    for i in a {
        if let Some(c) = cb.get_mut(i) {
            if *c > 0 {
                *c -= 1;
                n += 1;
            }
        }
    }
    n
}

/// One acceptable withdraw claim for one resource: None = "no entry".
#[derive(Clone, Debug)]
enum WClaim {
    Absent,
    Fungible(Decimal),
    NonFungible { known: Vec<NonFungibleLocalId>, unknown: usize },
}

fn subsets<T: Clone>(v: &[T]) -> Vec<Vec<T>> {
    (0..(1u32 << v.len())).map(|m| v.iter().enumerate().filter(|(i, _)| m & (1 << i) != 0).map(|(_, x)| x.clone()).collect()).collect()
}

/// Judge the claims reported for one account against what the account really did.
pub fn judge(actual: &Actual, reported_w: Option<&NetWithdraws>, reported_d: Option<&NetDeposits>) -> Vec<Finding> {
    let mut out = vec![];
    let empty_ids = BTreeSet::new();
    // ---- withdraw side: enumerate the claims consistent with the execution, per resource
    let mut per_res: Vec<(ResourceAddress, Vec<(WClaim, usize)>)> = vec![]; // (claim, cancelled count c)
    for (ra, f) in &actual.flows {
        if f.w_events == 0 || f.w_amt.is_zero() {
            continue;
        }
        if ra.is_fungible() {
            per_res.push((*ra, vec![(WClaim::Fungible(f.w_amt), 0)]));
        } else {
            let after_ids = actual.after.get(ra).map(|x| &x.1).unwrap_or(&empty_ids);
            let gw = f.w_ids.len();
            let max_c = multiset_intersection_size(&f.w_ids, &f.d_ids);
            let eligible: Vec<NonFungibleLocalId> = f.w_ids.iter().cloned().collect::<BTreeSet<_>>().into_iter().filter(|i| !after_ids.contains(i)).collect();
            let mut v = vec![];
            for c in 0..=max_c {
                let total = gw - c;
                if total == 0 {
                    v.push((WClaim::Absent, c));
                    continue;
                }
                for k in subsets(&eligible) {
                    if k.len() <= total {
                        let unknown = total - k.len();
                        v.push((WClaim::NonFungible { known: k, unknown }, c));
                    }
                }
            }
            per_res.push((*ra, v));
        }
    }
    // product over resources
    let mut combos: Vec<Vec<(ResourceAddress, WClaim, usize)>> = vec![vec![]];
    for (ra, options) in &per_res {
        let mut next = vec![];
        for base in &combos {
            for (cl, c) in options {
                let mut x = base.clone();
                x.push((*ra, cl.clone(), *c));
                next.push(x);
            }
        }
        combos = next;
    }
    let mut cancelled: BTreeMap<ResourceAddress, usize> = BTreeMap::new();
    let mut matched = false;
    for combo in &combos {
        let mut nw = NetWithdraws::empty();
        let mut any = false;
        for (ra, cl, _) in combo {
            match cl {
                WClaim::Absent => {}
                WClaim::Fungible(t) => {
                    nw = nw.set_fungible(*ra, *t);
                    any = true;
                }
                WClaim::NonFungible { known, unknown } => {
                    nw = nw.set_non_fungible(*ra, known.iter().cloned(), *unknown);
                    any = true;
                }
            }
        }
        let candidate = if any { Some(&nw) } else { None };
        if candidate == reported_w {
            matched = true;
            for (ra, _, c) in combo {
                cancelled.insert(*ra, *c);
            }
            break;
        }
    }
    if !matched {
        let gross: Vec<String> = actual.flows.iter().filter(|(_, f)| f.w_events > 0).map(|(ra, f)| format!("{ra:?}: amount {} ids {:?}", f.w_amt, f.w_ids)).collect();
        out.push(Finding {
            kind: "withdraw-claim-inconsistent-with-execution".into(),
            what: format!("reported net withdraws {reported_w:?} is none of the {} claims consistent with the executed withdrawals [{}]", combos.len(), gross.join("; ")),
            lower_side: false,
        });
    }
    // ---- deposit side
    let mut resources: BTreeSet<ResourceAddress> = actual.flows.iter().filter(|(_, f)| f.d_events > 0).map(|(ra, _)| *ra).collect();
    if let Some(nd) = reported_d {
        resources.extend(nd.specified_resources.keys().copied());
    }
    for ra in resources {
        let f = actual.flows.get(&ra).cloned().unwrap_or_default();
        let c = if matched { cancelled.get(&ra).copied().unwrap_or(0) } else { 0 };
        let kind_s = if ra.is_fungible() { "fungible" } else { "non-fungible" };
        let net: Decimal = if ra.is_fungible() { f.d_amt } else { Decimal::from(f.d_ids.len() - c.min(f.d_ids.len())) };
        let specified = reported_d.and_then(|nd| nd.specified_resources.get(&ra));
        let Some(b) = specified else {
            let flagged = matches!(reported_d.map(|nd| &nd.unspecified_resources), Some(UnspecifiedResources::MayBePresent(_)));
            if net.is_positive() && !flagged {
                out.push(Finding {
                    kind: format!("deposit-of-unlisted-resource:{kind_s}"),
                    what: format!("{net} of {ra:?} deposited, but the analyser lists no bound for it and does not flag unspecified resources (reported {reported_d:?})"),
                    lower_side: false,
                });
            }
            continue;
        };
        if !matched && !ra.is_fungible() {
            // the number of cancelled ids is unknown when the withdraw claim is already wrong
            continue;
        }
        let lower_ok = match b.lower_bound() {
            LowerBound::NonZero => net.is_positive(),
            LowerBound::Inclusive(x) => net >= x,
        };
        if !lower_ok {
            out.push(Finding {
                kind: format!("deposit-below-lower-bound:{kind_s}"),
                what: format!("{net} of {ra:?} deposited (gross {} , cancelled ids {c}), reported lower bound {:?}", f.d_amt, b.lower_bound()),
                lower_side: true,
            });
        }
        let upper_ok = match b.upper_bound() {
            UpperBound::Inclusive(x) => net <= x,
            UpperBound::Unbounded => true,
        };
        if !upper_ok {
            out.push(Finding {
                kind: format!("deposit-above-upper-bound:{kind_s}"),
                what: format!("{net} of {ra:?} deposited (gross {}, cancelled ids {c}), reported upper bound {:?}", f.d_amt, b.upper_bound()),
                lower_side: false,
            });
        }
        if !ra.is_fungible() {
            let after_ids = actual.after.get(&ra).map(|x| &x.1).unwrap_or(&empty_ids);
            let before_ids = actual.before.get(&ra).map(|x| &x.1).unwrap_or(&empty_ids);
            for i in b.required_ids() {
                if !f.d_ids.contains(i) || !after_ids.contains(i) {
                    out.push(Finding {
                        kind: "deposit-certain-id-not-received:non-fungible".into(),
                        what: format!("id {i} of {ra:?} is reported as certainly deposited, but deposited ids are {:?} and the account holds {after_ids:?} afterwards", f.d_ids),
                        lower_side: true,
                    });
                }
            }
            if let AllowedIds::Allowlist(allow) = b.allowed_ids() {
                let mut must_be_allowed: BTreeSet<NonFungibleLocalId> = f.d_ids.iter().filter(|i| !f.w_ids.contains(i)).cloned().collect();
                must_be_allowed.extend(after_ids.difference(before_ids).cloned());
                for i in must_be_allowed {
                    if !allow.contains(&i) {
                        out.push(Finding {
                            kind: "deposit-id-outside-allow-list:non-fungible".into(),
                            what: format!("id {i} of {ra:?} was deposited (and not cancelled by a withdrawal) but the reported allow-list is {allow:?}"),
                            lower_side: false,
                        });
                    }
                }
            }
        }
    }
    out
}

/// Judge the per-invocation lists reported for one account (`Vec<AccountWithdraw>`, `Vec<AccountDeposit>`): these are
/// gross, one entry per withdraw / deposit call, so per resource the withdrawals must add up exactly to what was
/// withdrawn, and the sum of the per-call deposit bounds must contain what was deposited.
pub fn judge_lists(actual: &Actual, withdraws: Option<&Vec<AccountWithdraw>>, deposits: Option<&Vec<AccountDeposit>>) -> Vec<Finding> {
    let mut out = vec![];
    // ---- withdrawals
    let mut w_amt: BTreeMap<ResourceAddress, Decimal> = BTreeMap::new();
    let mut w_ids: BTreeMap<ResourceAddress, Vec<NonFungibleLocalId>> = BTreeMap::new();
    for w in withdraws.map(|v| v.as_slice()).unwrap_or(&[]) {
        match w {
            AccountWithdraw::Amount(ra, a) => {
                let e = w_amt.entry(*ra).or_insert(Decimal::ZERO);
                *e = *e + *a;
            }
            AccountWithdraw::Ids(ra, ids) => {
                let e = w_amt.entry(*ra).or_insert(Decimal::ZERO);
                *e = *e + Decimal::from(ids.len());
                w_ids.entry(*ra).or_default().extend(ids.iter().cloned());
            }
        }
    }
    let mut resources: BTreeSet<ResourceAddress> = actual.flows.iter().filter(|(_, f)| f.w_events > 0).map(|(ra, _)| *ra).collect();
    resources.extend(w_amt.keys().copied());
    for ra in resources {
        let f = actual.flows.get(&ra).cloned().unwrap_or_default();
        let rep_amt = w_amt.get(&ra).copied().unwrap_or(Decimal::ZERO);
        let mut rep_ids = w_ids.get(&ra).cloned().unwrap_or_default();
        let mut act_ids = f.w_ids.clone();
        rep_ids.sort();
        act_ids.sort();
        // a withdrawal reported by amount of a non-fungible resource carries no ids: compare ids only when every
        // reported withdrawal of the resource carries them
        let ids_comparable = !ra.is_fungible() && Decimal::from(rep_ids.len()) == rep_amt;
        if rep_amt != f.w_amt || (ids_comparable && rep_ids != act_ids) {
            out.push(Finding {
                kind: format!("all-withdraws-mismatch:{}", if ra.is_fungible() { "fungible" } else { "non-fungible" }),
                what: format!("{ra:?}: the reported withdrawals add up to {rep_amt} (ids {rep_ids:?}) but {} (ids {act_ids:?}) was withdrawn", f.w_amt),
                lower_side: false,
            });
        }
    }
    // ---- deposits
    let deposits = deposits.map(|v| v.as_slice()).unwrap_or(&[]);
    let mut resources: BTreeSet<ResourceAddress> = actual.flows.iter().filter(|(_, f)| f.d_events > 0).map(|(ra, _)| *ra).collect();
    for d in deposits {
        resources.extend(d.specified_resources().keys().copied());
    }
    for ra in resources {
        let f = actual.flows.get(&ra).cloned().unwrap_or_default();
        let kind_s = if ra.is_fungible() { "fungible" } else { "non-fungible" };
        let mut lower_sum = Decimal::ZERO;
        let mut upper_sum: Option<Decimal> = Some(Decimal::ZERO);
        let mut certain: Vec<NonFungibleLocalId> = vec![];
        let mut allowed: Option<BTreeSet<NonFungibleLocalId>> = Some(BTreeSet::new());
        let add_upper = |u: &mut Option<Decimal>, x: Option<Decimal>| {
            *u = match (*u, x) {
                (Some(a), Some(b)) => Some(a + b),
                _ => None,
            }
        };
        for d in deposits {
            match d.specified_resources().get(&ra) {
                None => {
                    if matches!(d.unspecified_resources(), UnspecifiedResources::MayBePresent(_)) {
                        add_upper(&mut upper_sum, None);
                        allowed = None;
                    }
                }
                Some(SimpleResourceBounds::Fungible(b)) => {
                    let (lo, hi) = match b {
                        SimpleFungibleResourceBounds::Exact(a) => (*a, Some(*a)),
                        SimpleFungibleResourceBounds::AtMost(a) => (Decimal::ZERO, Some(*a)),
                        SimpleFungibleResourceBounds::AtLeast(a) => (*a, None),
                        SimpleFungibleResourceBounds::Between(a, b) => (*a, Some(*b)),
                        SimpleFungibleResourceBounds::UnknownAmount => (Decimal::ZERO, None),
                    };
                    lower_sum = lower_sum + lo;
                    add_upper(&mut upper_sum, hi);
                    allowed = None;
                }
                Some(SimpleResourceBounds::NonFungible(b)) => match b {
                    SimpleNonFungibleResourceBounds::Exact { amount, certain_ids } => {
                        lower_sum = lower_sum + *amount;
                        add_upper(&mut upper_sum, Some(*amount));
                        certain.extend(certain_ids.iter().cloned());
                        if let Some(al) = allowed.as_mut() {
                            al.extend(certain_ids.iter().cloned());
                        }
                    }
                    SimpleNonFungibleResourceBounds::NotExact { certain_ids, lower_bound, upper_bound, allowed_ids } => {
                        lower_sum = lower_sum
                            + match lower_bound {
                                LowerBound::NonZero => Decimal::ONE,
                                LowerBound::Inclusive(x) => *x,
                            };
                        add_upper(
                            &mut upper_sum,
                            match upper_bound {
                                UpperBound::Inclusive(x) => Some(*x),
                                UpperBound::Unbounded => None,
                            },
                        );
                        certain.extend(certain_ids.iter().cloned());
                        match (allowed.as_mut(), allowed_ids) {
                            (Some(al), AllowedIds::Allowlist(l)) => al.extend(l.iter().cloned()),
                            _ => allowed = None,
                        }
                    }
                },
            }
        }
        let gd = f.d_amt;
        if gd < lower_sum {
            out.push(Finding {
                kind: format!("all-deposits-below-sum-of-lower-bounds:{kind_s}"),
                what: format!("{ra:?}: {gd} deposited in total, but the per-call deposit bounds have lower bounds adding up to {lower_sum}"),
                lower_side: true,
            });
        }
        if let Some(u) = upper_sum {
            if gd > u {
                out.push(Finding {
                    kind: format!("all-deposits-above-sum-of-upper-bounds:{kind_s}"),
                    what: format!("{ra:?}: {gd} deposited in total, but the per-call deposit bounds (no call flags unspecified resources) have upper bounds adding up to {u}"),
                    lower_side: false,
                });
            }
        }
        if !ra.is_fungible() {
            // certain ids: as a multiset they must be contained in the deposited ids
            if multiset_intersection_size(&certain, &f.d_ids) != certain.len() {
                out.push(Finding {
                    kind: "all-deposits-certain-id-not-received:non-fungible".into(),
                    what: format!("{ra:?}: ids {certain:?} are reported as certainly deposited by the individual calls, deposited ids are {:?}", f.d_ids),
                    lower_side: true,
                });
            }
            if let Some(al) = &allowed {
                if let Some(i) = f.d_ids.iter().find(|i| !al.contains(i)) {
                    out.push(Finding {
                        kind: "all-deposits-id-outside-allow-lists:non-fungible".into(),
                        what: format!("{ra:?}: id {i} was deposited, but every deposit call of the resource is reported with an allow-list and their union is {al:?}"),
                        lower_side: false,
                    });
                }
            }
        }
    }
    out
}

// ------------------------------------------------------------------------------------------------
// one (manifest, state) evaluation
// ------------------------------------------------------------------------------------------------

pub static PROF: [AtomicU64; 6] = [AtomicU64::new(0), AtomicU64::new(0), AtomicU64::new(0), AtomicU64::new(0), AtomicU64::new(0), AtomicU64::new(0)];
fn prof(i: usize, t: std::time::Instant) {
    PROF[i].fetch_add(t.elapsed().as_micros() as u64, Ordering::Relaxed);
}

struct ProfGuard(usize, std::time::Instant);
impl Drop for ProfGuard {
    fn drop(&mut self) {
        prof(self.0, self.1);
    }
}

thread_local! {
    static SIMS: std::cell::RefCell<Vec<Option<Sim>>> = std::cell::RefCell::new(vec![]);
}

fn execute(env: &Env, si: usize, m: TransactionManifestV2) -> Result<(TransactionReceipt, Holdings, Holdings), String> {
    let st = &env.states[si];
    SIMS.with(|s| {
        let mut s = s.borrow_mut();
        while s.len() <= si {
            s.push(None);
        }
        let t = std::time::Instant::now();
        if s[si].is_none() {
            s[si] = Some(sim_from(&st.snap));
        } else {
            s[si].as_mut().unwrap().restore_snapshot(st.snap.clone());
        }
        prof(0, t);
        let sim = s[si].as_mut().unwrap();
        let proofs = st.proofs.clone();
        let t = std::time::Instant::now();
        let r = mc_core::catch(|| sim.execute_manifest(m, proofs));
        prof(1, t);
        let t = std::time::Instant::now();
        let _g = ProfGuard(2, t);
        match r {
            Err(p) => {
                // the simulator may be in any state: rebuild it next time
                s[si] = None;
                Err(p)
            }
            Ok(receipt) => {
                let ha = holdings(sim, st.a)?;
                let hb = holdings(sim, st.b)?;
                Ok((receipt, ha, hb))
            }
        }
    })
}

fn claims_json(cl: &Claims, st: &LedgerState) -> Value {
    let name = |c: &ComponentAddress| if *c == st.a { "A".to_string() } else if *c == st.b { "B".to_string() } else { format!("{c:?}") };
    json!({
        "net_withdraws": cl.withdraws.iter().map(|(k, v)| (name(k), format!("{v:?}"))).collect::<BTreeMap<_, _>>(),
        "net_deposits": cl.deposits.iter().map(|(k, v)| (name(k), format!("{v:?}"))).collect::<BTreeMap<_, _>>(),
        "all_withdraws": cl.all_withdraws.iter().map(|(k, v)| (name(k), format!("{v:?}"))).collect::<BTreeMap<_, _>>(),
        "all_deposits": cl.all_deposits.iter().map(|(k, v)| (name(k), format!("{v:?}"))).collect::<BTreeMap<_, _>>(),
    })
}

fn actual_json(a: &Actual) -> Value {
    json!({
        "gross_flows": a.flows.iter().map(|(ra, f)| (format!("{ra:?}"), json!({"withdrawn": f.w_amt.to_string(), "deposited": f.d_amt.to_string(), "withdrawn_ids": f.w_ids.iter().map(|i| i.to_string()).collect::<Vec<_>>(), "deposited_ids": f.d_ids.iter().map(|i| i.to_string()).collect::<Vec<_>>()}))).collect::<BTreeMap<_, _>>(),
        "before": a.before.iter().map(|(ra, (amt, ids))| (format!("{ra:?}"), json!({"amount": amt.to_string(), "ids": ids.iter().map(|i| i.to_string()).collect::<Vec<_>>()}))).collect::<BTreeMap<_, _>>(),
        "after": a.after.iter().map(|(ra, (amt, ids))| (format!("{ra:?}"), json!({"amount": amt.to_string(), "ids": ids.iter().map(|i| i.to_string()).collect::<Vec<_>>()}))).collect::<BTreeMap<_, _>>(),
        "rejected_deposit_events": a.rejected_deposit_events,
    })
}

fn resource_legend(r: &Res) -> Value {
    json!({"F": format!("{:?}", r.f), "NF": format!("{:?}", r.nf), "PU (pool unit)": format!("{:?}", r.pu), "XRD": format!("{XRD:?}")})
}

pub struct Violation {
    pub key: String,
    pub what: String,
    pub case: Value,
}

pub struct Evaluated {
    pub classes: Vec<String>,
    pub infos: Vec<String>,
    pub violations: Vec<Violation>,
    pub analysed: u32,
    pub executed: u32,
    pub judged_ok: u32,
    pub post_fps: Vec<Vec<u8>>,
    pub sample: Option<Value>,
}

fn holdings_fp(a: &Holdings, b: &Holdings, st: &str) -> Vec<u8> {
    let mut s = String::from(st);
    for h in [a, b] {
        for (ra, (amt, ids)) in h {
            s.push_str(&format!("{ra:?}={amt}:{ids:?};"));
        }
        s.push('|');
    }
    mc_core::fp128(s.as_bytes())
}

/// Analyse and (if the analyser reports bounds) execute one sequence on one ledger state.
pub fn evaluate(env: &Env, ops: &[Op], si: usize, ev: &mut Evaluated) {
    let st = &env.states[si];
    let r = &env.res;
    let t = std::time::Instant::now();
    let built = build_manifest(ops, st, r, None);
    prof(3, t);
    let Some(m) = built else {
        ev.classes.push("unbuildable:no-live-bucket".into());
        return;
    };
    let t = std::time::Instant::now();
    let analysed = mc_core::catch(|| analyse(&m));
    prof(4, t);
    let claims = match analysed {
        Err(p) => {
            // a panic of the analyser is outside the statement; reported as information
            ev.infos.push(format!("analyser-panic@{}", mc_core::last_panic_location()));
            ev.classes.push("analyser:panic".into());
            let _ = p;
            return;
        }
        Ok(Err(StaticResourceMovementsError::ManifestValidationError(e))) => {
            ev.classes.push(format!("static-validator-rejects:{}", variant_path(&format!("{e:?}"), 1)));
            return;
        }
        Ok(Err(e)) => {
            ev.classes.push(format!("analyser-error:{}", variant_path(&format!("{e:?}"), 1)));
            return;
        }
        Ok(Ok(c)) => c,
    };
    ev.analysed += 1;
    if std::env::var("C38_DRY").is_ok() {
        ev.classes.push("dry:would-execute".into());
        return;
    }
    let (receipt, after_a, after_b) = match execute(env, si, m) {
        Err(p) => {
            ev.infos.push(format!("execution-panic-or-harness-read-failure: {}", mc_core::truncate(&p, 120)));
            ev.classes.push("exec:panic".into());
            return;
        }
        Ok(x) => x,
    };
    ev.executed += 1;
    if !is_success(&receipt) {
        let c = receipt_class(&receipt);
        ev.classes.push(format!("exec:{}", c));
        return;
    }
    let TransactionResult::Commit(commit) = &receipt.result else { unreachable!() };
    ev.post_fps.push(holdings_fp(&after_a, &after_b, st.name));
    let mut all_ok = true;
    let mut refund_seen = false;
    let mut skipped_account = false;
    let violations_before = ev.violations.len();
    for (label, acct, before, after) in [("A", st.a, &st.before_a, after_a), ("B", st.b, &st.before_b, after_b)] {
        let (flows, rejected) = match flows_of(commit, acct) {
            Ok(x) => x,
            Err(e) => mc_core::machinery_error(&format!("C38: {e}")),
        };
        let actual = Actual { flows, before: before.clone(), after, rejected_deposit_events: rejected };
        if rejected > 0 {
            refund_seen = true;
        }
        if let Err(e) = events_explain_state(&actual) {
            // the account's events do not explain its committed vault changes: not what C38 is about; skip the account
            ev.infos.push("account-events-do-not-explain-vault-changes (account skipped)".into());
            ev.infos.push(mc_core::truncate(&format!("events-vs-state: {e}"), 160));
            all_ok = false;
            skipped_account = true;
            continue;
        }
        let findings = claims.judge_account(&actual, &acct);
        for f in findings {
            all_ok = false;
            // ---- route classification (only ever adds a prefix; never drops a finding)
            let mut key = format!("{label}:{}", f.kind);
            // (1) refund: the account rejected a deposit in this execution, the manifest sends resources to it with an
            //     *_or_refund call, and what is violated is a lower bound / certain id of the deposit claim
            if label == "B" && f.lower_side && rejected > 0 && ops.iter().any(|o| o.is_refundable_deposit_to_b()) {
                key = format!("refundable-deposit-reported-as-certain:{key}");
            }
            // (2) the known C37 route: the finding disappears when the empty-allow-list assertion is removed from the
            //     manifest (the assertion passed at run time, so the execution - hence `actual` - is the same without it)
            if ops.contains(&Op::WtInclEmptyAllow) {
                if let Some(m2) = build_manifest(ops, st, r, Some(Op::WtInclEmptyAllow)) {
                    if let Ok(Ok(c2)) = mc_core::catch(|| analyse(&m2)) {
                        let again = c2.judge_account(&actual, &acct);
                        if !again.iter().any(|g| g.kind == f.kind) {
                            key = format!("via-C37-normalize-empty-allowlist:{key}");
                        }
                    }
                }
            }
            ev.violations.push(Violation {
                key,
                what: format!("[{}] manifest {:?} + deposit_entire_worktop(A): account {label}: {}", st.name, ops, f.what),
                case: json!({
                    "ops": ops.iter().map(|o| format!("{o:?}")).collect::<Vec<_>>(),
                    "closing": "RETURN_TO_WORKTOP for every live bucket; A.deposit_batch(ENTIRE_WORKTOP)",
                    "fee": "lock_fee(C, 100) as first instruction (C is a third account, never compared)",
                    "state": st.name,
                    "state_description": st.what,
                    "account": label,
                    "reported": claims_json(&claims, st),
                    "actual": actual_json(&actual),
                    "resources": resource_legend(r),
                    "finding": f.kind,
                }),
            });
        }
    }
    let cls = if all_ok {
        ev.judged_ok += 1;
        if refund_seen {
            "exec:success:bounds-hold(refund-happened)"
        } else {
            "exec:success:bounds-hold"
        }
    } else if skipped_account {
        "exec:success:account-skipped(events-do-not-explain-state)"
    } else if ev.violations[violations_before..].iter().all(|v| v.key.starts_with("via-C37-normalize-empty-allowlist:")) {
        "exec:success:bound-violated-through-the-C37-normalize-route"
    } else {
        "exec:success:BOUNDS-VIOLATED"
    };
    ev.classes.push(cls.into());
    if ev.sample.is_none() {
        ev.sample = Some(json!({"ops": ops.iter().map(|o| format!("{o:?}")).collect::<Vec<_>>(), "state": st.name, "reported": claims_json(&claims, st), "outcome": cls}));
    }
}

// ------------------------------------------------------------------------------------------------
// driver
// ------------------------------------------------------------------------------------------------

fn replay(ctx: Ctx, env: &Env) -> ! {
    let case = ctx.read_replay_case().unwrap();
    let ops: Vec<Op> = case["ops"].as_array().map(|a| a.iter().filter_map(|x| x.as_str().and_then(Op::parse)).collect()).unwrap_or_default();
    let sname = case["state"].as_str().unwrap_or("");
    let Some(si) = env.states.iter().position(|s| s.name == sname) else { mc_core::machinery_error("replay: unknown state") };
    let mut ev = Evaluated { classes: vec![], infos: vec![], violations: vec![], analysed: 0, executed: 0, judged_ok: 0, post_fps: vec![], sample: None };
    evaluate(env, &ops, si, &mut ev);
    println!("replay: ops {ops:?} on state {sname}: classes {:?}", ev.classes);
    if let Some(m) = build_manifest(&ops, &env.states[si], &env.res, None) {
        match analyse(&m) {
            Ok(c) => println!("reported: {}", serde_json::to_string_pretty(&claims_json(&c, &env.states[si])).unwrap()),
            Err(e) => println!("analyser error: {e:?}"),
        }
    }
    for v in &ev.violations {
        println!("observed: {}", serde_json::to_string_pretty(&v.case["actual"]).unwrap());
        ctx.violation(v.key.clone(), v.what.clone(), v.case.clone());
    }
    ctx.class("replayed", 1);
    ctx.finish(Level::ModelChecking, "replay of one (manifest, state) case", 1, false, Map::new(), &[])
}

pub fn run(ctx: Ctx) -> ! {
    let env = build_env();
    if ctx.replay.is_some() {
        replay(ctx, &env);
    }
    // ---- the program space
    // quick:    all sequences of length <= 3 over FULL, length 4 over CORE
    // thorough: all sequences of length <= 4 over FULL, length 5 over CORE
    let (full_len, core_len) = ctx.pick((3usize, 4usize), (4usize, 5usize));
    let mut items: Vec<Vec<Op>> = vec![];
    let mut unbuildable = 0u64;
    for n in 0..=full_len {
        gen_exact(FULL, n, &mut items, &mut unbuildable);
    }
    let n_full = items.len();
    {
        let mut deep = vec![];
        gen_exact(CORE, core_len, &mut deep, &mut unbuildable);
        items.extend(deep);
    }
    let n_states = env.states.len();
    // development override only (the machine is shared and sometimes heavily loaded)
    let wall_cap_s: f64 = std::env::var("C38_WALL_CAP_S").ok().and_then(|s| s.parse().ok()).unwrap_or(ctx.pick(50.0, 1150.0));

    // violations: keep, per key, the case with the smallest (sequence index, state index) so that the reported
    // reproducer is the shortest / simplest one and the same in every run
    let best: Mutex<BTreeMap<String, ((usize, usize), u64, Violation)>> = Mutex::new(BTreeMap::new());
    let fps: Mutex<HashSet<Vec<u8>>> = Mutex::new(HashSet::new());
    let analysed = AtomicU64::new(0);
    let executed = AtomicU64::new(0);
    let judged_ok = AtomicU64::new(0);
    let programs_with_success = AtomicU64::new(0);
    let done_items = AtomicU64::new(0);
    let capped = std::sync::atomic::AtomicBool::new(false);

    let block = 16u64;
    par_range(&ctx, items.len() as u64, block, |i, l: &mut Local| {
        if ctx.elapsed_s() > wall_cap_s {
            capped.store(true, Ordering::Relaxed);
            return;
        }
        let ops = &items[i as usize];
        let mut any_success = false;
        for si in 0..n_states {
            let mut ev = Evaluated { classes: vec![], infos: vec![], violations: vec![], analysed: 0, executed: 0, judged_ok: 0, post_fps: vec![], sample: None };
            evaluate(&env, ops, si, &mut ev);
            l.eval();
            for c in &ev.classes {
                l.class(c);
            }
            for c in &ev.infos {
                l.info(c);
            }
            analysed.fetch_add(ev.analysed as u64, Ordering::Relaxed);
            executed.fetch_add(ev.executed as u64, Ordering::Relaxed);
            judged_ok.fetch_add(ev.judged_ok as u64, Ordering::Relaxed);
            if !ev.post_fps.is_empty() {
                any_success = true;
                fps.lock().unwrap().extend(ev.post_fps.drain(..));
            }
            if let Some(s) = ev.sample.take() {
                l.sample(|| s);
            }
            if !ev.violations.is_empty() {
                let mut b = best.lock().unwrap();
                for v in ev.violations {
                    let pos = (i as usize, si);
                    match b.get_mut(&v.key) {
                        Some(e) => {
                            e.1 += 1;
                            if pos < e.0 {
                                e.0 = pos;
                                e.2 = v;
                            }
                        }
                        None => {
                            b.insert(v.key.clone(), (pos, 1, v));
                        }
                    }
                }
            }
        }
        if any_success {
            programs_with_success.fetch_add(1, Ordering::Relaxed);
        }
        done_items.fetch_add(1, Ordering::Relaxed);
    });

    if std::env::var("C38_PROFILE").is_ok() {
        let p: Vec<u64> = PROF.iter().map(|x| x.load(Ordering::Relaxed) / 1000).collect();
        eprintln!("profile (ms, summed over threads): restore {} exec {} read-holdings {} build {} analyse {}", p[0], p[1], p[2], p[3], p[4]);
    }
    let capped = capped.load(Ordering::Relaxed);
    for (key, (pos, n, v)) in best.into_inner().unwrap() {
        let mut case = v.case;
        case["instances_of_this_key_in_this_run"] = json!(n);
        case["sequence_index"] = json!(pos.0);
        ctx.violation(key, format!("{} ({} instance(s) of this key in this run)", v.what, n), case);
    }
    ctx.info("sequences-not-expressible (bucket operation without a live bucket; never built)", unbuildable);

    let post_states = fps.into_inner().unwrap().len() as u64;
    let executed = executed.load(Ordering::Relaxed);
    let mut cov = Map::new();
    cov.insert("states".into(), json!(n_states as u64 + post_states));
    cov.insert("ledger_states".into(), json!(env.states.iter().map(|s| json!({"name": s.name, "what": s.what})).collect::<Vec<_>>()));
    cov.insert("distinct_post_states".into(), json!(post_states));
    cov.insert("transitions".into(), json!(executed));
    cov.insert("traces_validated_against_impl".into(), json!(judged_ok.load(Ordering::Relaxed)));
    cov.insert("programs".into(), json!(items.len() as u64));
    cov.insert("programs_full_alphabet".into(), json!(n_full as u64));
    cov.insert("program_state_pairs_analysed_with_bounds".into(), json!(analysed.load(Ordering::Relaxed)));
    cov.insert("programs_with_a_successful_execution".into(), json!(programs_with_success.load(Ordering::Relaxed)));
    cov.insert("programs_completed".into(), json!(done_items.load(Ordering::Relaxed)));
    cov.insert("alphabet_full".into(), json!(FULL.iter().map(|o| format!("{o:?}")).collect::<Vec<_>>()));
    cov.insert("alphabet_core".into(), json!(CORE.iter().map(|o| format!("{o:?}")).collect::<Vec<_>>()));
    cov.insert("bounds".into(), json!(format!("length <= {full_len} over the full alphabet ({}), length {core_len} over the core alphabet ({}), x {n_states} ledger states", FULL.len(), CORE.len())));
    cov.insert("caps_hit".into(), json!(capped));
    let rule = "a case is one (instruction sequence, ledger state) pair; sequences are enumerated exhaustively by length over the alphabet \
(bucket operations refer to the newest live bucket; sequences using a bucket that does not exist are not expressible and are not counted). \
Non-trivial = the analyser returned bounds AND the real engine committed the manifest successfully AND every reported bound was compared with \
the account's real movements (distinct_nontrivial counts these pairs)";
    let nontrivial = judged_ok.load(Ordering::Relaxed);
    ctx.finish(
        Level::ModelChecking,
        rule,
        nontrivial,
        !capped,
        cov,
        &[
            "gross per-account flows are taken from the account blueprint's own Withdraw/Deposit events and are required to explain the committed before/after vault contents exactly (otherwise the account is skipped and counted)",
            "fees are locked from a third account C, which is never compared",
            "amount alphabet {1,2}, id alphabet {#1,#2}; one fungible, one non-fungible, XRD and one pool-unit resource",
            "the ledger simulator executes V2 test transactions with the given initial proofs (no signature validation)",
        ],
    )
}
