//! C37 — worktop / run-time half: the resource assertion INSTRUCTIONS, executed by the real engine, accept a balance
//! if and only if the balance satisfies the constraint's mathematical meaning.
//!
//! Instructions: V1 `ASSERT_WORKTOP_CONTAINS` (= at least amount), `ASSERT_WORKTOP_CONTAINS_ANY` (= non-zero),
//! `ASSERT_WORKTOP_CONTAINS_NON_FUNGIBLES` (= at least ids) in V1 and in V2 manifests; V2
//! `ASSERT_WORKTOP_RESOURCES_ONLY / INCLUDE`, `ASSERT_NEXT_CALL_RETURNS_ONLY / INCLUDE`, `ASSERT_BUCKET_CONTENTS`,
//! and `ASSERT_WORKTOP_IS_EMPTY` (= RESOURCES_ONLY with no constraints; likewise the empty INCLUDE / NEXT_CALL forms).
//!
//! Constraints (reduced C37 alphabet): NonZeroAmount; ExactAmount / AtLeastAmount over {0, 1 atto, 1, 1.5, 2};
//! ExactNonFungibles / AtLeastNonFungibles over all subsets of {#1,#2}; General = lower in {NonZero, >=0, >=1, >=2} x
//! upper in {<=0, <=1, <=2, unbounded} x required subset of {#1,#2} x allowed in {Any} + all allow-lists subset of
//! {#1,#2,#3} (576). Balances: fungible {0, 1 atto, 1, 1.5, 2, 3}; non-fungible: all 8 subsets of {#1,#2,#3}. A
//! balance is produced by withdrawing exactly that from a funded account (into the worktop, as the return of the
//! "next call", or - via TAKE_ALL_FROM_WORKTOP - into a bucket). "Only" vs "include": the multi-resource forms are
//! also run with 1 unit of an unspecified fungible and with one unit of an unspecified non-fungible resource present
//! (quick: for the simple, the empty and the purely numeric general constraints; thorough: for every constraint).
//! Two resources asserted at once (a fungible and a non-fungible constraint in one instruction) over reduced
//! alphabets: quick a 1/16 stride of the product, thorough all of it.
//!
//! In scope = the manifest is accepted by the real `StaticManifestInterpreter` (`ValidationRuleset::all()`), which is
//! how "declared valid for the resource kind" reaches a transaction. Oracle: the transaction commits successfully
//! <=> reference; when the reference says "not satisfied" the failure must be that instruction's assertion error.
//! Reference = the mathematical reading on integers (attos) and bit masks, written independently of the code:
//! bounds AND required ids all present AND every id present allowed; a fungible balance has no ids (required ids must
//! be empty, an allow-list holds vacuously - the same reading as the pure-logic half in mc-num/src/c37.rs);
//! "only" = no resource with a positive balance besides the specified ones; "include" = others allowed.
use crate::rt::*;
use mc_core::{par_range, Ctx, Level, Local};
use mc_ledger::*;
use radix_transactions::manifest::*;
use serde_json::{json, Map, Value};
use std::collections::BTreeMap;
use std::sync::atomic::{AtomicU64, Ordering};
use std::sync::Mutex;

const ONE: i128 = 1_000_000_000_000_000_000;

#[derive(Clone, Copy, Debug, PartialEq, Eq)]
enum Lo {
    NonZero,
    Incl(i128),
}

#[derive(Clone, Copy, Debug, PartialEq, Eq)]
enum Up {
    Incl(i128),
    Unbounded,
}

/// id sets are bit masks over {#1 = 1, #2 = 2, #3 = 4}
#[derive(Clone, Copy, Debug, PartialEq, Eq)]
enum RC {
    NonZero,
    Exact(i128),
    AtLeast(i128),
    ExactIds(u8),
    AtLeastIds(u8),
    General { lo: Lo, up: Up, req: u8, allow: Option<u8> },
}

impl RC {
    fn kind(&self) -> &'static str {
        match self {
            RC::NonZero => "NonZeroAmount",
            RC::Exact(_) => "ExactAmount",
            RC::AtLeast(_) => "AtLeastAmount",
            RC::ExactIds(_) => "ExactNonFungibles",
            RC::AtLeastIds(_) => "AtLeastNonFungibles",
            RC::General { .. } => "General",
        }
    }
    fn show(&self) -> String {
        match self {
            RC::NonZero => "NonZeroAmount".into(),
            RC::Exact(a) => format!("ExactAmount({})", amt(*a)),
            RC::AtLeast(a) => format!("AtLeastAmount({})", amt(*a)),
            RC::ExactIds(m) => format!("ExactNonFungibles({})", ids_text(*m)),
            RC::AtLeastIds(m) => format!("AtLeastNonFungibles({})", ids_text(*m)),
            RC::General { lo, up, req, allow } => format!(
                "General(lower={}, upper={}, required={}, allowed={})",
                match lo {
                    Lo::NonZero => "NonZero".to_string(),
                    Lo::Incl(a) => format!(">={}", amt(*a)),
                },
                match up {
                    Up::Unbounded => "Unbounded".to_string(),
                    Up::Incl(a) => format!("<={}", amt(*a)),
                },
                ids_text(*req),
                match allow {
                    None => "Any".to_string(),
                    Some(m) => ids_text(*m),
                }
            ),
        }
    }
}

fn amt(a: i128) -> String {
    let (q, r) = (a / ONE, a % ONE);
    if r == 0 {
        format!("{q}")
    } else {
        format!("{q}.{}", format!("{r:018}").trim_end_matches('0'))
    }
}

fn ids_text(m: u8) -> String {
    let v: Vec<String> = (0..8).filter(|i| m & (1 << i) != 0).map(|i| format!("#{}#", i + 1)).collect();
    format!("{{{}}}", v.join(","))
}

#[derive(Clone, Copy, Debug, PartialEq, Eq)]
enum Bal {
    F(i128),
    N(u8),
}

impl Bal {
    fn show(&self) -> String {
        match self {
            Bal::F(x) => amt(*x),
            Bal::N(s) => ids_text(*s),
        }
    }
    fn is_zero(&self) -> bool {
        matches!(self, Bal::F(0) | Bal::N(0))
    }
    fn zero_like(&self) -> Bal {
        match self {
            Bal::F(_) => Bal::F(0),
            Bal::N(_) => Bal::N(0),
        }
    }
    fn is_nf(&self) -> bool {
        matches!(self, Bal::N(_))
    }
}

// ------------------------------------------------------------------------------------------------
// reference: the mathematical reading
// ------------------------------------------------------------------------------------------------

fn lo_ok(lo: Lo, x: i128) -> bool {
    match lo {
        Lo::NonZero => x != 0,
        Lo::Incl(a) => x >= a,
    }
}

fn up_ok(up: Up, x: i128) -> bool {
    match up {
        Up::Unbounded => true,
        Up::Incl(a) => x <= a,
    }
}

/// None: an id-set constraint has no meaning on a fungible balance.
fn reference(c: &RC, b: &Bal) -> Option<bool> {
    Some(match b {
        Bal::F(x) => match c {
            RC::NonZero => *x != 0,
            RC::Exact(a) => x == a,
            RC::AtLeast(a) => x >= a,
            RC::ExactIds(_) | RC::AtLeastIds(_) => return None,
            // a fungible balance has no ids: required ids present only if none are required; ids allowed vacuously
            RC::General { lo, up, req, allow: _ } => lo_ok(*lo, *x) && up_ok(*up, *x) && *req == 0,
        },
        Bal::N(s) => {
            let n = s.count_ones() as i128 * ONE;
            match c {
                RC::NonZero => *s != 0,
                RC::Exact(a) => n == *a,
                RC::AtLeast(a) => n >= *a,
                RC::ExactIds(e) => s == e,
                RC::AtLeastIds(e) => e & !s == 0,
                RC::General { lo, up, req, allow } => lo_ok(*lo, n) && up_ok(*up, n) && req & !s == 0 && allow.map(|a| s & !a == 0).unwrap_or(true),
            }
        }
    })
}

// ------------------------------------------------------------------------------------------------
// real objects
// ------------------------------------------------------------------------------------------------

fn dec(attos: i128) -> Decimal {
    let ext = if attos < 0 { u64::MAX } else { 0 };
    Decimal::from_attos(I192::from_digits([attos as u64, (attos >> 64) as u64, ext]))
}

fn idvec(m: u8) -> Vec<NonFungibleLocalId> {
    (0..8).filter(|i| m & (1 << i) != 0).map(|i| NonFungibleLocalId::integer(i as u64 + 1)).collect()
}

fn idset(m: u8) -> IndexSet<NonFungibleLocalId> {
    idvec(m).into_iter().collect()
}

fn real(c: &RC) -> ManifestResourceConstraint {
    match c {
        RC::NonZero => ManifestResourceConstraint::NonZeroAmount,
        RC::Exact(a) => ManifestResourceConstraint::ExactAmount(dec(*a)),
        RC::AtLeast(a) => ManifestResourceConstraint::AtLeastAmount(dec(*a)),
        RC::ExactIds(m) => ManifestResourceConstraint::ExactNonFungibles(idset(*m)),
        RC::AtLeastIds(m) => ManifestResourceConstraint::AtLeastNonFungibles(idset(*m)),
        RC::General { lo, up, req, allow } => ManifestResourceConstraint::General(GeneralResourceConstraint {
            required_ids: idset(*req),
            lower_bound: match lo {
                Lo::NonZero => LowerBound::NonZero,
                Lo::Incl(a) => LowerBound::Inclusive(dec(*a)),
            },
            upper_bound: match up {
                Up::Unbounded => UpperBound::Unbounded,
                Up::Incl(a) => UpperBound::Inclusive(dec(*a)),
            },
            allowed_ids: match allow {
                None => AllowedIds::Any,
                Some(m) => AllowedIds::Allowlist(idset(*m)),
            },
        }),
    }
}

// ------------------------------------------------------------------------------------------------
// alphabets
// ------------------------------------------------------------------------------------------------

struct Alphabet {
    amounts: Vec<i128>,
    simple_ids: u8,
    lowers: Vec<Lo>,
    uppers: Vec<Up>,
    req: u8,
    allow: u8,
    balances_f: Vec<i128>,
    balances_n: u8,
}

fn submasks(m: u8) -> Vec<u8> {
    (0..=m).filter(|s| s & !m == 0).collect()
}

fn main_alphabet() -> Alphabet {
    Alphabet {
        amounts: vec![0, 1, ONE, ONE * 3 / 2, 2 * ONE],
        simple_ids: 0b011,
        lowers: vec![Lo::NonZero, Lo::Incl(0), Lo::Incl(ONE), Lo::Incl(2 * ONE)],
        uppers: vec![Up::Incl(0), Up::Incl(ONE), Up::Incl(2 * ONE), Up::Unbounded],
        req: 0b011,
        allow: 0b111,
        balances_f: vec![0, 1, ONE, ONE * 3 / 2, 2 * ONE, 3 * ONE],
        balances_n: 0b111,
    }
}

/// for the two-resources-at-once space
fn pair_alphabet() -> Alphabet {
    Alphabet {
        amounts: vec![0, ONE, 2 * ONE],
        simple_ids: 0b011,
        lowers: vec![Lo::NonZero, Lo::Incl(0), Lo::Incl(ONE)],
        uppers: vec![Up::Incl(ONE), Up::Incl(2 * ONE), Up::Unbounded],
        req: 0b001,
        allow: 0b011,
        balances_f: vec![0, 1, ONE, 2 * ONE],
        balances_n: 0b011,
    }
}

fn constraints(a: &Alphabet) -> Vec<RC> {
    let mut v = vec![RC::NonZero];
    for x in &a.amounts {
        v.push(RC::Exact(*x));
        v.push(RC::AtLeast(*x));
    }
    for m in submasks(a.simple_ids) {
        v.push(RC::ExactIds(m));
        v.push(RC::AtLeastIds(m));
    }
    for lo in &a.lowers {
        for up in &a.uppers {
            for req in submasks(a.req) {
                v.push(RC::General { lo: *lo, up: *up, req, allow: None });
                for al in submasks(a.allow) {
                    v.push(RC::General { lo: *lo, up: *up, req, allow: Some(al) });
                }
            }
        }
    }
    v
}

fn balances(a: &Alphabet, nf: bool) -> Vec<Bal> {
    if nf {
        submasks(a.balances_n).into_iter().map(Bal::N).collect()
    } else {
        a.balances_f.iter().map(|x| Bal::F(*x)).collect()
    }
}

// ------------------------------------------------------------------------------------------------
// cases
// ------------------------------------------------------------------------------------------------

#[derive(Clone, Copy, Debug, PartialEq, Eq, PartialOrd, Ord)]
enum Form {
    V1Contains,
    V1ContainsAny,
    V1ContainsNonFungibles,
    WorktopOnly,
    WorktopInclude,
    NextCallOnly,
    NextCallInclude,
    BucketContents,
}

impl Form {
    fn only(&self) -> bool {
        matches!(self, Form::WorktopOnly | Form::NextCallOnly)
    }
    fn next_call(&self) -> bool {
        matches!(self, Form::NextCallOnly | Form::NextCallInclude)
    }
    fn multi(&self) -> bool {
        matches!(self, Form::WorktopOnly | Form::WorktopInclude | Form::NextCallOnly | Form::NextCallInclude)
    }
    fn v1(&self) -> bool {
        matches!(self, Form::V1Contains | Form::V1ContainsAny | Form::V1ContainsNonFungibles)
    }
    /// leading variant path of the RuntimeError this instruction raises when its assertion does not hold
    fn assertion_error(&self) -> &'static str {
        match self {
            Form::NextCallOnly | Form::NextCallInclude => "SystemError(IntentError(AssertNextCallReturnsFailed",
            Form::BucketContents => "SystemError(IntentError(AssertBucketContentsFailed",
            _ => "ApplicationError(WorktopError(AssertionFailed",
        }
    }
}

#[derive(Clone, Copy, Debug, PartialEq, Eq)]
enum Extra {
    None,
    /// 1 unit of another fungible resource
    Fungible,
    /// id #1 of another non-fungible resource
    NonFungible,
}

const EXTRAS: [Extra; 3] = [Extra::None, Extra::Fungible, Extra::NonFungible];

#[derive(Clone, Copy, Debug, PartialEq, Eq)]
struct Single {
    kind: Kind,
    form: Form,
    /// None = no constraints at all (ASSERT_WORKTOP_IS_EMPTY and its siblings)
    c: Option<RC>,
    bal: Bal,
    extra: Extra,
    /// next-call forms only: the call returns the extra resource (the subject balance is then zero); otherwise an
    /// extra resource sits on the worktop before the assertion and the call returns the subject balance
    call_returns_extra: bool,
}

#[derive(Clone, Copy, Debug, PartialEq, Eq)]
struct Pair {
    only: bool,
    cf: RC,
    bf: Bal,
    cn: RC,
    bn: Bal,
    extra: Extra,
}

#[derive(Clone, Copy, Debug, PartialEq, Eq)]
enum Case {
    Single(Single),
    Pair(Pair),
}

/// Quick: the unspecified-resource options are combined with the simple constraints, the "no constraints" forms and the
/// purely numeric general constraints (no required ids, no allow-list); every other general constraint is run without
/// an unspecified resource. Thorough: every constraint with every option.
fn single_cases(thorough: bool) -> Vec<Case> {
    let a = main_alphabet();
    let extras_for = |c: &Option<RC>| -> &'static [Extra] {
        match c {
            Some(RC::General { req, allow, .. }) if !thorough && (*req != 0 || allow.is_some()) => &EXTRAS[..1],
            _ => &EXTRAS[..],
        }
    };
    let cs = constraints(&a);
    let mut v = vec![];
    for nf in [false, true] {
        let bals = balances(&a, nf);
        // V1 instructions, in V1 and in V2 manifests
        for kind in [Kind::V1, Kind::V2] {
            for c in &cs {
                let form = match c {
                    RC::AtLeast(_) => Form::V1Contains,
                    RC::NonZero => Form::V1ContainsAny,
                    RC::AtLeastIds(_) => Form::V1ContainsNonFungibles,
                    _ => continue,
                };
                for bal in &bals {
                    for extra in EXTRAS {
                        v.push(Case::Single(Single { kind, form, c: Some(*c), bal: *bal, extra, call_returns_extra: false }));
                    }
                }
            }
        }
        // V2 instructions
        for form in [Form::WorktopOnly, Form::WorktopInclude, Form::NextCallOnly, Form::NextCallInclude, Form::BucketContents] {
            let mut specs: Vec<Option<RC>> = cs.iter().map(|c| Some(*c)).collect();
            if form.multi() {
                specs.push(None);
            }
            for c in specs {
                for bal in &bals {
                    if !form.multi() {
                        v.push(Case::Single(Single { kind: Kind::V2, form, c, bal: *bal, extra: Extra::None, call_returns_extra: false }));
                        continue;
                    }
                    for extra in extras_for(&c).iter().copied() {
                        v.push(Case::Single(Single { kind: Kind::V2, form, c, bal: *bal, extra, call_returns_extra: false }));
                        if form.next_call() && extra != Extra::None && bal.is_zero() {
                            v.push(Case::Single(Single { kind: Kind::V2, form, c, bal: *bal, extra, call_returns_extra: true }));
                        }
                    }
                }
            }
        }
    }
    v
}

fn pair_cases(thorough: bool) -> Vec<Case> {
    let a = pair_alphabet();
    let cs = constraints(&a);
    let valid = |c: &RC, nf: bool| if nf { real(c).is_valid_for_non_fungible_use() } else { real(c).is_valid_for_fungible_use() };
    let f_cases: Vec<(RC, Bal)> = cs.iter().filter(|c| valid(c, false)).flat_map(|c| balances(&a, false).into_iter().map(move |b| (*c, b))).collect();
    let n_cases: Vec<(RC, Bal)> = cs.iter().filter(|c| valid(c, true)).flat_map(|c| balances(&a, true).into_iter().map(move |b| (*c, b))).collect();
    let mut v = vec![];
    for (i, (cf, bf)) in f_cases.iter().enumerate() {
        for (j, (cn, bn)) in n_cases.iter().enumerate() {
            // quick: a fixed 1/16 stride of the product (every fungible case and every non-fungible case still occurs)
            if !thorough && (i + j) % 16 != 0 {
                continue;
            }
            for only in [true, false] {
                for extra in [Extra::None, Extra::Fungible] {
                    v.push(Case::Pair(Pair { only, cf: *cf, bf: *bf, cn: *cn, bn: *bn, extra }));
                }
            }
        }
    }
    v
}

// ------------------------------------------------------------------------------------------------
// world and manifests
// ------------------------------------------------------------------------------------------------

pub struct Env {
    snap: Snap,
    a: ComponentAddress,
    sig_a: NonFungibleGlobalId,
    f: ResourceAddress,
    nf: ResourceAddress,
    xf: ResourceAddress,
    xn: ResourceAddress,
}

fn build_env() -> Env {
    let mut sim = new_sim();
    let w = build_world(&mut sim);
    let xn = sim.create_freely_mintable_and_burnable_non_fungible_resource(
        OwnerRole::None,
        NonFungibleIdType::Integer,
        Some(vec![(NonFungibleLocalId::integer(1), NfData { name: "x".into(), level: 1 })]),
        w.a.addr,
    );
    Env { snap: sim.create_snapshot(), a: w.a.addr, sig_a: w.a.sig.clone(), f: w.f18, nf: w.nf, xf: w.f2, xn }
}

impl Env {
    fn subject(&self, nf: bool) -> ResourceAddress {
        if nf {
            self.nf
        } else {
            self.f
        }
    }
    fn withdraw_balance(&self, b: &Bal) -> InstructionV2 {
        match b {
            Bal::F(x) => withdraw(self.a, self.f, dec(*x)),
            Bal::N(s) => withdraw_non_fungibles(self.a, self.nf, &idvec(*s)),
        }
    }
    fn withdraw_extra(&self, e: Extra) -> Option<InstructionV2> {
        match e {
            Extra::None => None,
            Extra::Fungible => Some(withdraw(self.a, self.xf, dec(ONE))),
            Extra::NonFungible => Some(withdraw_non_fungibles(self.a, self.xn, &idvec(1))),
        }
    }
}

fn build_single(env: &Env, s: &Single) -> Vec<InstructionV2> {
    let res = env.subject(s.bal.is_nf());
    let constraints = || match &s.c {
        None => ManifestResourceConstraints::new(),
        Some(c) => ManifestResourceConstraints::new().with_unchecked(res, real(c)),
    };
    let mut ins = vec![lock_fee_from_faucet()];
    if !s.call_returns_extra {
        ins.extend(env.withdraw_extra(s.extra));
    }
    match s.form {
        Form::V1Contains | Form::V1ContainsAny | Form::V1ContainsNonFungibles => {
            ins.push(env.withdraw_balance(&s.bal));
            ins.push(match (s.form, s.c) {
                (Form::V1Contains, Some(RC::AtLeast(a))) => AssertWorktopContains { resource_address: res, amount: dec(a) }.into(),
                (Form::V1ContainsAny, Some(RC::NonZero)) => AssertWorktopContainsAny { resource_address: res }.into(),
                (Form::V1ContainsNonFungibles, Some(RC::AtLeastIds(m))) => AssertWorktopContainsNonFungibles { resource_address: res, ids: idvec(m) }.into(),
                _ => unreachable!("V1 forms are generated with their own constraint shape"),
            });
        }
        Form::WorktopOnly => {
            ins.push(env.withdraw_balance(&s.bal));
            ins.push(AssertWorktopResourcesOnly { constraints: constraints() }.into());
        }
        Form::WorktopInclude => {
            ins.push(env.withdraw_balance(&s.bal));
            ins.push(AssertWorktopResourcesInclude { constraints: constraints() }.into());
        }
        Form::NextCallOnly | Form::NextCallInclude => {
            ins.push(if s.form == Form::NextCallOnly {
                AssertNextCallReturnsOnly { constraints: constraints() }.into()
            } else {
                AssertNextCallReturnsInclude { constraints: constraints() }.into()
            });
            if s.call_returns_extra {
                ins.extend(env.withdraw_extra(s.extra));
            } else {
                ins.push(env.withdraw_balance(&s.bal));
            }
        }
        Form::BucketContents => {
            ins.push(env.withdraw_balance(&s.bal));
            ins.push(TakeAllFromWorktop { resource_address: res }.into());
            ins.push(AssertBucketContents { bucket_id: ManifestBucket(0), constraint: real(&s.c.expect("bucket form has a constraint")) }.into());
            ins.push(ReturnToWorktop { bucket_id: ManifestBucket(0) }.into());
        }
    }
    ins.push(try_deposit_entire_worktop(env.a));
    ins
}

/// None: the reference has no reading for this case (id-set constraint on a fungible balance).
fn expected_single(s: &Single) -> Option<bool> {
    // the balance of the subject resource that the instruction looks at
    let subject = if s.call_returns_extra { s.bal.zero_like() } else { s.bal };
    let own = match &s.c {
        Some(c) => reference(c, &subject)?,
        None => true,
    };
    if !s.form.only() {
        return Some(own);
    }
    // "only": no resource with a positive balance besides the specified ones, among what the instruction looks at
    // (the worktop for the worktop form; what the call returns for the next-call form)
    let extra_in_view = match s.form {
        Form::WorktopOnly => s.extra != Extra::None,
        Form::NextCallOnly => s.call_returns_extra,
        _ => false,
    };
    let subject_unspecified_but_present = s.c.is_none() && !subject.is_zero();
    Some(own && !extra_in_view && !subject_unspecified_but_present)
}

fn build_pair(env: &Env, p: &Pair) -> Vec<InstructionV2> {
    let mut ins = vec![lock_fee_from_faucet()];
    ins.extend(env.withdraw_extra(p.extra));
    ins.push(env.withdraw_balance(&p.bf));
    ins.push(env.withdraw_balance(&p.bn));
    let constraints = ManifestResourceConstraints::new().with_unchecked(env.f, real(&p.cf)).with_unchecked(env.nf, real(&p.cn));
    ins.push(if p.only { AssertWorktopResourcesOnly { constraints }.into() } else { AssertWorktopResourcesInclude { constraints }.into() });
    ins.push(try_deposit_entire_worktop(env.a));
    ins
}

fn expected_pair(p: &Pair) -> Option<bool> {
    Some(reference(&p.cf, &p.bf)? && reference(&p.cn, &p.bn)? && !(p.only && p.extra != Extra::None))
}

impl Case {
    fn kind(&self) -> Kind {
        match self {
            Case::Single(s) => s.kind,
            Case::Pair(_) => Kind::V2,
        }
    }
    fn form(&self) -> Form {
        match self {
            Case::Single(s) => s.form,
            Case::Pair(p) => {
                if p.only {
                    Form::WorktopOnly
                } else {
                    Form::WorktopInclude
                }
            }
        }
    }
    fn build(&self, env: &Env) -> Vec<InstructionV2> {
        match self {
            Case::Single(s) => build_single(env, s),
            Case::Pair(p) => build_pair(env, p),
        }
    }
    fn expected(&self) -> Option<bool> {
        match self {
            Case::Single(s) => expected_single(s),
            Case::Pair(p) => expected_pair(p),
        }
    }
    fn key_prefix(&self) -> String {
        match self {
            Case::Single(s) => format!(
                "{:?}:{}:{}",
                s.form,
                s.c.map(|c| c.kind()).unwrap_or("no-constraints"),
                if s.bal.is_nf() { "non-fungible" } else { "fungible" }
            ),
            Case::Pair(p) => format!("two-resources:{}:{}+{}", if p.only { "only" } else { "include" }, p.cf.kind(), p.cn.kind()),
        }
    }
    fn describe(&self) -> String {
        match self {
            Case::Single(s) => format!(
                "{} manifest, {:?} {} on a {} balance of {}{}",
                s.kind.name(),
                s.form,
                s.c.map(|c| c.show()).unwrap_or("(no constraints)".into()),
                if s.bal.is_nf() { "non-fungible" } else { "fungible" },
                s.bal.show(),
                match (s.extra, s.call_returns_extra) {
                    (Extra::None, _) => String::new(),
                    (e, false) => format!(", with an unspecified {e:?} resource on the worktop"),
                    (e, true) => format!(", the next call returning an unspecified {e:?} resource instead"),
                }
            ),
            Case::Pair(p) => format!(
                "V2 manifest, ASSERT_WORKTOP_RESOURCES_{} {{F: {}, NF: {}}} on balances F={} NF={}{}",
                if p.only { "ONLY" } else { "INCLUDE" },
                p.cf.show(),
                p.cn.show(),
                p.bf.show(),
                p.bn.show(),
                if p.extra == Extra::None { "" } else { ", with an unspecified fungible resource on the worktop" }
            ),
        }
    }
    fn id(&self) -> String {
        format!("{self:?}")
    }
}

// ------------------------------------------------------------------------------------------------

#[derive(Default)]
struct Counters {
    in_scope: AtomicU64,
    executed: AtomicU64,
    passed: AtomicU64,
}

type Best = Mutex<BTreeMap<String, (usize, u64, String, Value)>>;

fn evaluate(env: &Env, idx: usize, case: &Case, l: &mut Local, c: &Counters, best: &Best, verbose: bool) {
    l.eval();
    let ins = case.build(env);
    let built = assemble(case.kind(), &ins).expect("V1 manifests only carry V1 instructions");
    let record = |key: String, what: String, detail: Value| {
        let manifest = assemble(case.kind(), &ins).map(|b| b.text()).unwrap_or_default();
        let v = json!({"case_id": case.id(), "case": case.describe(), "detail": detail, "manifest": manifest});
        let mut b = best.lock().unwrap();
        match b.get_mut(&key) {
            Some(e) => {
                e.1 += 1;
                if idx < e.0 {
                    *e = (idx, e.1, what, v);
                }
            }
            None => {
                b.insert(key, (idx, 1, what, v));
            }
        }
    };
    match mc_core::catch(|| built.validate()) {
        Err(p) => {
            l.class("static:validator-panic");
            l.info(&format!("static-validator-panic: {}", mc_core::truncate(&p, 80)));
            return;
        }
        Ok(Err(e)) => {
            // declared invalid for this use: no obligation
            l.class(&format!("out-of-scope:static-validator-rejects:{}", err_name(&e)));
            if verbose {
                println!("  static validator rejects: {e:?}");
            }
            return;
        }
        Ok(Ok(())) => {}
    }
    c.in_scope.fetch_add(1, Ordering::Relaxed);
    let Some(expected) = case.expected() else {
        l.class("in-scope:no-reference-reading");
        l.info("accepted-id-set-constraint-on-fungible-resource");
        return;
    };
    if verbose {
        println!("  manifest:\n{}", built.text());
        println!("  reference: the assertion {}", if expected { "holds" } else { "does not hold" });
    }
    let receipt = match execute(&env.snap, built, vec![env.sig_a.clone()]) {
        Ok(r) => r,
        Err(p) => {
            l.class("exec:panic");
            record(format!("{}:engine-panic", case.key_prefix()), format!("{}: the engine panicked: {p} @ {}", case.describe(), mc_core::last_panic_location()), json!({"panic": p}));
            return;
        }
    };
    c.executed.fetch_add(1, Ordering::Relaxed);
    let text = failure_text(&receipt);
    let class = receipt_class(&receipt);
    if verbose {
        println!("  receipt: {class} {text}");
    }
    let passed = is_success(&receipt);
    let assertion_failed = is_commit_failure(&receipt) && text.starts_with(case.form().assertion_error());
    let form = format!("{:?}", case.form());
    match (expected, passed, assertion_failed) {
        (true, true, _) => {
            c.passed.fetch_add(1, Ordering::Relaxed);
            l.class(&format!("{form}:passes-satisfying-balance"));
        }
        (false, false, true) => l.class(&format!("{form}:rejects-unsatisfying-balance")),
        (false, true, _) => record(
            format!("{}:accepts-unsatisfying-balance", case.key_prefix()),
            format!("{}: the transaction committed successfully although the balance does not satisfy the constraint", case.describe()),
            json!({"expected": "assertion fails", "receipt": class}),
        ),
        (true, false, true) => record(
            format!("{}:rejects-satisfying-balance", case.key_prefix()),
            format!("{}: the assertion failed although the balance satisfies the constraint: {}", case.describe(), mc_core::truncate(&text, 200)),
            json!({"expected": "assertion holds", "receipt": class, "error": text}),
        ),
        (_, false, false) => record(
            format!("{}:neither-passes-nor-fails-the-assertion", case.key_prefix()),
            format!("{}: expected the assertion to {}, but the transaction ended otherwise: {class} {}", case.describe(), if expected { "hold" } else { "fail" }, mc_core::truncate(&text, 200)),
            json!({"expected": if expected { "assertion holds" } else { "assertion fails" }, "receipt": class, "error": text}),
        ),
    }
    l.sample(|| json!({"case": case.describe(), "reference": expected, "receipt": class}));
}

fn reference_self_test() {
    let g = RC::General { lo: Lo::NonZero, up: Up::Incl(2 * ONE), req: 0b01, allow: Some(0b011) };
    let t = |c: &RC, b: Bal| reference(c, &b);
    let ok = t(&g, Bal::N(0b01)) == Some(true)
        && t(&g, Bal::N(0b11)) == Some(true)
        && t(&g, Bal::N(0b10)) == Some(false)
        && t(&g, Bal::N(0b101)) == Some(false)
        && t(&g, Bal::N(0)) == Some(false)
        && t(&RC::General { lo: Lo::Incl(0), up: Up::Unbounded, req: 0, allow: Some(0) }, Bal::F(1)) == Some(true)
        && t(&RC::General { lo: Lo::Incl(0), up: Up::Unbounded, req: 1, allow: None }, Bal::F(ONE)) == Some(false)
        && t(&RC::Exact(ONE), Bal::F(ONE)) == Some(true)
        && t(&RC::AtLeast(ONE * 3 / 2), Bal::N(0b11)) == Some(true)
        && t(&RC::AtLeast(ONE * 3 / 2), Bal::N(0b01)) == Some(false)
        && t(&RC::ExactIds(0b11), Bal::F(0)).is_none()
        && expected_single(&Single { kind: Kind::V2, form: Form::WorktopOnly, c: None, bal: Bal::F(0), extra: Extra::None, call_returns_extra: false }) == Some(true)
        && expected_single(&Single { kind: Kind::V2, form: Form::WorktopOnly, c: None, bal: Bal::F(1), extra: Extra::None, call_returns_extra: false }) == Some(false)
        && expected_single(&Single { kind: Kind::V2, form: Form::NextCallOnly, c: Some(RC::AtLeast(0)), bal: Bal::F(0), extra: Extra::Fungible, call_returns_extra: false }) == Some(true)
        && expected_single(&Single { kind: Kind::V2, form: Form::NextCallOnly, c: Some(RC::AtLeast(0)), bal: Bal::F(0), extra: Extra::Fungible, call_returns_extra: true }) == Some(false)
        && expected_single(&Single { kind: Kind::V2, form: Form::NextCallInclude, c: Some(RC::AtLeast(0)), bal: Bal::F(0), extra: Extra::Fungible, call_returns_extra: true }) == Some(true)
        && dec(ONE * 3 / 2) == dec!("1.5")
        && dec(1) == Decimal::from_attos(I192::ONE);
    if !ok {
        mc_core::machinery_error("C37 run-time: reference self-test failed");
    }
}

pub fn run(ctx: Ctx) -> ! {
    reference_self_test();
    let env = build_env();
    let best: Best = Mutex::new(BTreeMap::new());
    let c = Counters::default();

    if let Some(rc) = ctx.read_replay_case() {
        let want = rc["case_id"].as_str().unwrap_or("").to_string();
        let mut all = single_cases(true);
        all.extend(pair_cases(true));
        let Some((idx, case)) = all.iter().enumerate().find(|(_, c)| c.id() == want) else { mc_core::machinery_error("C37 run-time replay: case_id not found in the case space") };
        println!("C37 run-time replay: {}", case.describe());
        let mut l = Local::new();
        evaluate(&env, idx, case, &mut l, &c, &best, true);
        ctx.merge(l);
        for (key, (_, _, what, v)) in best.into_inner().unwrap() {
            ctx.violation(key, what, v);
        }
        ctx.finish(Level::Exploration, "replay of one case", 0, false, Map::new(), &[]);
    }

    let singles = single_cases(!ctx.quick());
    let n_single = singles.len();
    let mut cases = singles;
    cases.extend(pair_cases(!ctx.quick()));
    let n_pair = cases.len() - n_single;
    let wall_cap_s: f64 = std::env::var("C37RT_WALL_CAP_S").ok().and_then(|s| s.parse().ok()).unwrap_or(ctx.pick(55.0, 1100.0));
    let done = AtomicU64::new(0);
    par_range(&ctx, cases.len() as u64, 16, |i, l| {
        if ctx.elapsed_s() > wall_cap_s {
            return;
        }
        evaluate(&env, i as usize, &cases[i as usize], l, &c, &best, false);
        done.fetch_add(1, Ordering::Relaxed);
    });
    let capped = done.load(Ordering::Relaxed) != cases.len() as u64;
    for (key, (_, n, what, mut v)) in best.into_inner().unwrap() {
        v["instances_of_this_key_in_this_run"] = json!(n);
        ctx.violation(key, format!("{what} ({n} instance(s) of this key)"), v);
    }

    let ld = |a: &AtomicU64| a.load(Ordering::Relaxed);
    let a = main_alphabet();
    let mut cov = Map::new();
    cov.insert("constraints".into(), json!(constraints(&a).len()));
    cov.insert("fungible_balances".into(), json!(a.balances_f.len()));
    cov.insert("id_set_balances".into(), json!(submasks(a.balances_n).len()));
    cov.insert("single_resource_cases".into(), json!(n_single));
    cov.insert("two_resource_cases".into(), json!(n_pair));
    cov.insert("cases_completed".into(), json!(ld(&done)));
    cov.insert("cases_in_scope_accepted_by_static_validator".into(), json!(ld(&c.in_scope)));
    cov.insert("transactions_executed".into(), json!(ld(&c.executed)));
    cov.insert("transactions_passing_the_assertion".into(), json!(ld(&c.passed)));
    cov.insert("caps_hit".into(), json!(capped));
    if capped {
        ctx.note(format!("wall cap hit: {} of {} cases completed (cases are processed in list order by blocks of 16)", ld(&done), cases.len()));
    }
    let rule = format!(
        "a case = (manifest kind, assertion instruction, constraint, balance, unspecified-resource option): {n_single} single-resource cases (595 constraints + 'no constraints' x 6 fungible / 8 non-fungible balances x \
V1 instructions in V1 and V2 manifests, WORKTOP_RESOURCES_ONLY/INCLUDE, NEXT_CALL_RETURNS_ONLY/INCLUDE, BUCKET_CONTENTS x up to 3 unspecified-resource options; quick runs the general constraints with required ids or an allow-list without an unspecified resource) + {n_pair} two-resource cases; cases the static validator \
rejects are out of scope. Non-trivial = executed transactions whose assertion passed (a balance accepted at run time)"
    );
    ctx.finish(
        Level::Exploration,
        &rule,
        ld(&c.passed),
        !capped,
        cov,
        &[
            "run-time half of C37: in scope = manifests accepted by StaticManifestInterpreter(ValidationRuleset::all())",
            "a fungible balance has no ids (required ids must be empty, an allow-list holds vacuously) - the same reading as the pure-logic half",
            "balances are produced by Account::withdraw / withdraw_non_fungibles of exactly that balance; a zero balance is an empty bucket, which the worktop discards",
            "the NEXT_CALL forms see only what the call returns (one bucket): an unspecified resource is either already on the worktop (must be ignored) or returned instead of the subject resource",
        ],
    )
}
