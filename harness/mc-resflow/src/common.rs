//! Shared pieces of the three resource-flow checks: the native `Probe` package (foreign code that
//! receives buckets), the base world, raw-instruction helpers and the single-transaction runner with
//! the "marker" observation.
//!
//! Marker observation (C09/C10): a transaction is `lock_fee(faucet) ; <sequence> ; lock_fee(M) ; <tail>`
//! where M is a second, publicly usable account. Fee locks survive a failed transaction and fees are
//! paid from the *last* locked vault first, so "M's XRD vault appears in `fee_source.paying_vaults`"
//! ⇔ "every instruction of <sequence> was executed successfully by the real engine" — observed on the
//! real engine, independent of the reference model, also when the transaction fails later (leftover
//! resources). This is what makes prefix pruning follow the *engine's* per-instruction outcome.
use mc_ledger::*;
use radix_engine::errors::RuntimeError;
use radix_engine::kernel::kernel_api::{KernelNodeApi, KernelSubstateApi};
use radix_engine::system::system_callback::SystemLockData;
use radix_engine::vm::{OverridePackageCode, VmApi, VmInvoke};
use radix_engine_interface::api::SystemApi;
use radix_engine_interface::blueprints::package::PackageDefinition;
use radix_native_sdk::resource::{NativeBucket, NativeNonFungibleBucket};
use radix_transactions::manifest::*;
use std::collections::BTreeSet;

pub const PROBE_CODE_ID: u64 = 9090;
pub const PROBE_BP: &str = "Probe";

/// Foreign (non-resource-package) native code that is handed buckets by the transaction.
#[derive(Clone)]
pub struct Probe;

impl VmInvoke for Probe {
    fn invoke<Y: SystemApi<RuntimeError> + KernelNodeApi + KernelSubstateApi<SystemLockData>, V: VmApi>(
        &mut self,
        export_name: &str,
        input: &IndexedScryptoValue,
        api: &mut Y,
        _vm_api: &V,
    ) -> Result<IndexedScryptoValue, RuntimeError> {
        let dec = |e| RuntimeError::ApplicationError(radix_engine::errors::ApplicationError::InputDecodeError(e));
        match export_name {
            // foreign code tries to destroy the bucket object directly
            "drop_raw" => {
                let (b,): (Bucket,) = input.as_typed().map_err(dec)?;
                api.drop_object(b.0.as_node_id())?;
                Ok(IndexedScryptoValue::from_typed(&()))
            }
            // foreign code drops the bucket through the resource manager ("drop empty bucket")
            "drop_empty" => {
                let (b,): (Bucket,) = input.as_typed().map_err(dec)?;
                b.drop_empty(api)?;
                Ok(IndexedScryptoValue::from_typed(&()))
            }
            // foreign code just forgets the bucket (keeps it in its frame)
            "forget" => {
                let (_b,): (Bucket,) = input.as_typed().map_err(dec)?;
                Ok(IndexedScryptoValue::from_typed(&()))
            }
            // takes one unit (fungible: 1; non-fungible: id #1), returns it, and keeps the rest; an empty
            // remainder is dropped properly so that "took everything" is a legal use
            "keep_rest" => {
                let (b,): (Bucket,) = input.as_typed().map_err(dec)?;
                let fungible = b.resource_address(api)?.is_fungible();
                let taken = if fungible {
                    b.take(Decimal::ONE, api)?
                } else {
                    b.take_non_fungibles(indexset!(NonFungibleLocalId::integer(1)), api)?.0
                };
                if b.is_empty(api)? {
                    b.drop_empty(api)?;
                }
                Ok(IndexedScryptoValue::from_typed(&taken))
            }
            // returns the bucket unchanged
            "pass" => {
                let (b,): (Bucket,) = input.as_typed().map_err(dec)?;
                Ok(IndexedScryptoValue::from_typed(&b))
            }
            // takes `amount` out of the bucket and returns both parts (taken first)
            "take_from" => {
                let (b, amount): (Bucket, Decimal) = input.as_typed().map_err(dec)?;
                let taken = b.take(amount, api)?;
                Ok(IndexedScryptoValue::from_typed(&(taken, b)))
            }
            "take_ids_from" => {
                let (b, ids): (Bucket, Vec<NonFungibleLocalId>) = input.as_typed().map_err(dec)?;
                let taken: Bucket = b.take_non_fungibles(ids.into_iter().collect(), api)?.0;
                Ok(IndexedScryptoValue::from_typed(&(taken, b)))
            }
            // reports the amount of a bucket and returns it
            "amount_of" => {
                let (b,): (Bucket,) = input.as_typed().map_err(dec)?;
                let a = b.amount(api)?;
                Ok(IndexedScryptoValue::from_typed(&(a, b)))
            }
            _ => Ok(IndexedScryptoValue::from_typed(&())),
        }
    }
}

pub type PExt = OverridePackageCode<Probe>;
pub type PSim = Sim<PExt>;

pub fn ext() -> PExt {
    OverridePackageCode::new(PROBE_CODE_ID, Probe)
}

pub fn new_psim() -> PSim {
    LedgerSimulatorBuilder::new().with_custom_extension(ext()).without_kernel_trace().without_receipt_substate_check().build()
}

pub fn psim_from(snap: &Snap) -> PSim {
    LedgerSimulatorBuilder::new().with_custom_extension(ext()).without_kernel_trace().without_receipt_substate_check().build_from_snapshot(snap.clone())
}

pub fn publish_probe(sim: &mut PSim) -> PackageAddress {
    sim.publish_native_package(
        PROBE_CODE_ID,
        PackageDefinition::new_functions_only_test_definition(
            PROBE_BP,
            vec![
                ("drop_raw", "drop_raw", false),
                ("drop_empty", "drop_empty", false),
                ("forget", "forget", false),
                ("keep_rest", "keep_rest", false),
                ("pass", "pass", false),
                ("take_from", "take_from", false),
                ("take_ids_from", "take_ids_from", false),
                ("amount_of", "amount_of", false),
            ],
        ),
    )
}

#[derive(Clone, Debug)]
pub struct RWorld {
    /// holder account, owner rule allow_all (so that no instruction of the alphabets can lose authority)
    pub a: ComponentAddress,
    /// marker account, owner rule allow_all
    pub m: ComponentAddress,
    pub m_xrd_vault: NodeId,
    pub f: ResourceAddress,
    pub nf: ResourceAddress,
    pub probe: PackageAddress,
}

pub fn ids(v: &[u64]) -> Vec<NonFungibleLocalId> {
    v.iter().map(|i| NonFungibleLocalId::integer(*i)).collect()
}

/// World: account A holds `f_amount` of a fungible (given divisibility; freely mintable, burnable, recallable)
/// and the integer-id non-fungibles `nf_ids` (freely mintable, burnable, recallable).
pub fn build_rworld(f_amount: Decimal, divisibility: u8, nf_ids: &[u64]) -> (Snap, RWorld) {
    let mut sim = new_psim();
    let probe = publish_probe(&mut sim);
    let a = sim.new_account_advanced(OwnerRole::Fixed(rule!(allow_all)));
    let m = sim.new_account_advanced(OwnerRole::Fixed(rule!(allow_all)));
    let manifest = ManifestBuilder::new()
        .lock_fee_from_faucet()
        .create_fungible_resource(
            OwnerRole::None,
            true,
            divisibility,
            FungibleResourceRoles {
                mint_roles: mint_roles! { minter => rule!(allow_all); minter_updater => rule!(deny_all); },
                burn_roles: burn_roles! { burner => rule!(allow_all); burner_updater => rule!(deny_all); },
                recall_roles: recall_roles! { recaller => rule!(allow_all); recaller_updater => rule!(deny_all); },
                ..Default::default()
            },
            metadata!(),
            Some(f_amount),
        )
        .try_deposit_entire_worktop_or_abort(a, None)
        .build();
    let f = sim.execute_manifest(manifest, vec![]).expect_commit(true).new_resource_addresses()[0];
    let manifest = ManifestBuilder::new()
        .lock_fee_from_faucet()
        .create_non_fungible_resource(
            OwnerRole::None,
            NonFungibleIdType::Integer,
            true,
            NonFungibleResourceRoles {
                mint_roles: mint_roles! { minter => rule!(allow_all); minter_updater => rule!(deny_all); },
                burn_roles: burn_roles! { burner => rule!(allow_all); burner_updater => rule!(deny_all); },
                recall_roles: recall_roles! { recaller => rule!(allow_all); recaller_updater => rule!(deny_all); },
                ..Default::default()
            },
            metadata!(),
            Some(nf_ids.iter().map(|i| (NonFungibleLocalId::integer(*i), NfData { name: format!("n{i}"), level: *i as u32 })).collect::<Vec<_>>()),
        )
        .try_deposit_entire_worktop_or_abort(a, None)
        .build();
    let nf = sim.execute_manifest(manifest, vec![]).expect_commit(true).new_resource_addresses()[0];
    let m_xrd_vault = sim.get_component_vaults(m, XRD)[0];
    (sim.create_snapshot(), RWorld { a, m, m_xrd_vault, f, nf, probe })
}

// ------------------------------------------------------------------------------------------------
// raw instructions
// ------------------------------------------------------------------------------------------------

pub fn mval<T: ManifestEncode>(t: &T) -> ManifestValue {
    manifest_decode(&manifest_encode(t).unwrap()).unwrap()
}

pub fn call_method<T: ManifestEncode>(addr: impl Into<GlobalAddress>, method: &str, args: &T) -> InstructionV1 {
    InstructionV1::CallMethod(CallMethod { address: ManifestGlobalAddress::Static(addr.into()), method_name: method.to_string(), args: mval(args) })
}

pub fn call_probe<T: ManifestEncode>(w: &RWorld, func: &str, args: &T) -> InstructionV1 {
    InstructionV1::CallFunction(CallFunction {
        package_address: ManifestPackageAddress::Static(w.probe),
        blueprint_name: PROBE_BP.to_string(),
        function_name: func.to_string(),
        args: mval(args),
    })
}

pub fn call_vault<T: ManifestEncode>(vault: NodeId, method: &str, args: &T) -> InstructionV1 {
    InstructionV1::CallDirectVaultMethod(CallDirectVaultMethod { address: InternalAddress::new_or_panic(vault.0), method_name: method.to_string(), args: mval(args) })
}

pub fn lock_fee(addr: ComponentAddress, amount: Decimal) -> InstructionV1 {
    call_method(addr, "lock_fee", &(amount,))
}

pub fn manifest_of(instructions: Vec<InstructionV1>) -> TransactionManifestV1 {
    TransactionManifestV1 { instructions, blobs: Default::default(), object_names: Default::default() }
}

/// What the real engine showed for one transaction.
#[derive(Debug, Clone)]
pub struct RealObs {
    /// the marker was reached: every instruction before it succeeded
    pub reached_marker: bool,
    pub success: bool,
    pub class: String,
    pub failure: String,
    /// outputs of the instructions (only on success)
    pub outputs: Vec<InstructionOutput>,
}

/// Run `head ; lock_fee(M) ; tail` with the faucet fee lock in front. Err = panic escaped the engine.
pub fn run_marked(sim: &mut PSim, w: &RWorld, head: Vec<InstructionV1>, tail: Vec<InstructionV1>) -> Result<RealObs, String> {
    let mut ins = Vec::with_capacity(head.len() + tail.len() + 2);
    ins.push(lock_fee(FAUCET, dec!(5000)));
    ins.extend(head);
    ins.push(lock_fee(w.m, dec!(500)));
    ins.extend(tail);
    let receipt = exec(sim, manifest_of(ins), vec![])?;
    let class = receipt_class(&receipt);
    let failure = failure_text(&receipt);
    match &receipt.result {
        TransactionResult::Commit(c) => {
            let reached_marker = c.fee_source.paying_vaults.contains_key(&w.m_xrd_vault);
            let (success, outputs) = match &c.outcome {
                TransactionOutcome::Success(o) => (true, o.clone()),
                TransactionOutcome::Failure(_) => (false, vec![]),
            };
            Ok(RealObs { reached_marker, success, class, failure, outputs })
        }
        _ => Err(format!("transaction was not committed at all (fee lock problem?): {class}")),
    }
}

pub fn nf_ids_of(sim: &mut PSim, c: ComponentAddress, r: ResourceAddress) -> BTreeSet<u64> {
    let mut out = BTreeSet::new();
    for v in sim.get_component_vaults(c, r) {
        if let Some((_, it)) = sim.inspect_non_fungible_vault(v) {
            for id in it {
                if let NonFungibleLocalId::Integer(i) = id {
                    out.insert(i.value());
                }
            }
        }
    }
    out
}

pub fn nf_supply(sim: &PSim, r: ResourceAddress) -> Option<Decimal> {
    use radix_engine::blueprints::resource::*;
    use radix_engine::system::system_db_reader::SystemDatabaseReader;
    SystemDatabaseReader::new(sim.substate_db())
        .read_typed_object_field::<NonFungibleResourceManagerTotalSupplyFieldPayload>(r.as_node_id(), ModuleId::Main, NonFungibleResourceManagerField::TotalSupply.field_index())
        .ok()
        .map(|p| p.fully_update_and_into_latest_version())
}
