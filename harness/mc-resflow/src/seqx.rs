//! Generic exhaustive instruction-sequence explorer (C09, C10).
//!
//! A *sequence* is executed as ONE transaction `lock_fee(faucet) ; prelude ; sequence ; lock_fee(M) ; tail`
//! from the same snapshot. Layer n holds all sequences of length n whose n instructions were all executed by the
//! real engine (marker observation); layer n+1 = every such sequence extended by every enabled operation.
//! So every sequence up to the bound whose proper prefix executes is run exactly once; a sequence with a
//! failing instruction has no extensions (they would fail at the same instruction).
use crate::common::*;
use mc_core::{Ctx, Local};
use mc_ledger::*;
use serde_json::{json, Map, Value};
use std::cell::RefCell;
use std::fmt::Debug;
use std::sync::Mutex;

#[derive(Clone, Debug, PartialEq, Eq)]
pub enum Expect {
    /// the statement demands a failure
    MustFail(&'static str),
    /// the statement demands success
    MustPass,
    /// fully defined by the reference model; a failure is reported as `unexpected-failure`
    ShouldPass,
    /// statement silent (informational); bool = the model state after a success is defined (may be extended)
    Either(&'static str, bool),
}

pub trait SeqSpec: Sync {
    type Op: Copy + Debug + Send + Sync;
    type Model: Clone + Debug + Send + Sync;
    fn world(&self) -> (&Snap, &RWorld);
    fn init(&self) -> Self::Model;
    fn ops(&self, m: &Self::Model) -> Vec<Self::Op>;
    fn label(&self, op: &Self::Op) -> &'static str;
    /// apply assuming success; return the demand on the real engine
    fn apply(&self, m: &mut Self::Model, op: &Self::Op) -> Expect;
    /// model self-check (conservation inside the model); false = harness bug
    fn model_sane(&self, m: &Self::Model) -> bool;
    fn prelude(&self) -> Vec<InstructionV1>;
    fn instruction(&self, op: &Self::Op) -> InstructionV1;
    /// instructions after the marker
    fn tail(&self, m: &Self::Model) -> Vec<InstructionV1>;
    /// demand on (tail + end of transaction)
    fn end(&self, m: &Self::Model) -> Expect;
    /// after a successful transaction: compare the database and the outputs with the model.
    /// `first` = index of the first sequence instruction in `outputs`.
    fn check_success(&self, sim: &mut PSim, m: &Self::Model, seq: &[Self::Op], outputs: &[InstructionOutput], first: usize) -> Result<Value, (String, String)>;
    fn parse_op(&self, s: &str) -> Option<Self::Op>;
}

pub struct Node<S: SeqSpec + ?Sized> {
    pub seq: Vec<S::Op>,
    pub model: S::Model,
}

impl<S: SeqSpec + ?Sized> Clone for Node<S> {
    fn clone(&self) -> Self {
        Node { seq: self.seq.clone(), model: self.model.clone() }
    }
}

pub struct Outcome<S: SeqSpec + ?Sized> {
    pub child: Option<Node<S>>,
    pub nontrivial: bool,
}

pub static PROF: [std::sync::atomic::AtomicU64; 4] = [std::sync::atomic::AtomicU64::new(0), std::sync::atomic::AtomicU64::new(0), std::sync::atomic::AtomicU64::new(0), std::sync::atomic::AtomicU64::new(0)];

/// mean microseconds per transaction: (snapshot restore, execution, post-checks), number of transactions
pub fn profile() -> (u64, u64, u64, u64) {
    let n = PROF[3].load(std::sync::atomic::Ordering::Relaxed).max(1);
    (PROF[0].load(std::sync::atomic::Ordering::Relaxed) / n, PROF[1].load(std::sync::atomic::Ordering::Relaxed) / n, PROF[2].load(std::sync::atomic::Ordering::Relaxed) / n, n)
}

/// CPU seconds (user + system) used by this process so far, from /proc/self/stat (0 when unavailable).
pub fn process_cpu_s() -> f64 {
    let Ok(txt) = std::fs::read_to_string("/proc/self/stat") else { return 0.0 };
    let Some(rest) = txt.rfind(')').map(|i| &txt[i + 1..]) else { return 0.0 };
    let f: Vec<&str> = rest.split_whitespace().collect();
    // after the command name: state is field 0, utime is field 11, stime field 12 (clock ticks, 100 Hz on Linux)
    let t = |i: usize| f.get(i).and_then(|x| x.parse::<f64>().ok()).unwrap_or(0.0);
    (t(11) + t(12)) / 100.0
}

thread_local! {
    static SIM: RefCell<Option<(usize, PSim)>> = RefCell::new(None);
}

pub fn seq_json<O: Debug>(seq: &[O]) -> Value {
    json!(seq.iter().map(|o| format!("{o:?}")).collect::<Vec<_>>())
}

/// Execute `parent.seq + op` and judge it against the model.
pub fn evaluate<S: SeqSpec>(spec: &S, spec_id: usize, tag: &str, parent: &Node<S>, op: &S::Op, l: &mut Local) -> Outcome<S> {
    let (snap, w) = spec.world();
    let mut seq = parent.seq.clone();
    seq.push(*op);
    let mut model = parent.model.clone();
    let expect = spec.apply(&mut model, op);
    if !spec.model_sane(&model) {
        mc_core::machinery_error(&format!("{tag}: reference model lost or created resources on {seq:?}: {model:?}"));
    }
    let mut head = spec.prelude();
    let first = 1 + head.len();
    head.extend(seq.iter().map(|o| spec.instruction(o)));
    let tail = spec.tail(&model);
    let label = spec.label(op);
    let case = |extra: Value| json!({"variant": tag, "sequence": seq_json(&seq), "detail": extra});
    let res = SIM.with(|s| {
        let mut s = s.borrow_mut();
        if s.as_ref().map(|x| x.0 != spec_id).unwrap_or(true) {
            *s = Some((spec_id, psim_from(snap)));
        }
        let sim = &mut s.as_mut().unwrap().1;
        let t0 = std::time::Instant::now();
        sim.restore_snapshot(snap.clone());
        let t1 = std::time::Instant::now();
        let r = run_marked(sim, w, head, tail);
        let t2 = std::time::Instant::now();
        let r = r.map(|obs| {
            let chk = if obs.success { Some(spec.check_success(sim, &model, &seq, &obs.outputs, first)) } else { None };
            (obs, chk)
        });
        PROF[0].fetch_add((t1 - t0).as_micros() as u64, std::sync::atomic::Ordering::Relaxed);
        PROF[1].fetch_add((t2 - t1).as_micros() as u64, std::sync::atomic::Ordering::Relaxed);
        PROF[2].fetch_add(t2.elapsed().as_micros() as u64, std::sync::atomic::Ordering::Relaxed);
        PROF[3].fetch_add(1, std::sync::atomic::Ordering::Relaxed);
        r
    });
    l.eval();
    let (obs, chk) = match res {
        Ok(x) => x,
        Err(p) => {
            l.violation(format!("panic:{label}"), format!("[{tag}] engine panicked or did not commit on {seq:?}: {p}"), case(json!({"panic": p, "at": mc_core::last_panic_location()})));
            return Outcome { child: None, nontrivial: false };
        }
    };
    if !obs.reached_marker {
        match &expect {
            Expect::MustPass => l.violation(
                format!("must-pass-but-failed:{label}"),
                format!("[{tag}] {seq:?}: the statement demands that the last instruction succeeds, the engine failed it: {}", obs.failure),
                case(json!({"engine": obs.failure})),
            ),
            Expect::ShouldPass => l.violation(
                format!("unexpected-failure:{label}"),
                format!("[{tag}] {seq:?}: a fully defined operation failed in the engine: {}", obs.failure),
                case(json!({"engine": obs.failure})),
            ),
            Expect::MustFail(r) => l.class(&format!("instruction-rejected:{r}")),
            Expect::Either(r, _) => {
                l.class("instruction-rejected:statement-silent");
                l.info(&format!("engine-rejects:{r}"));
            }
        }
        return Outcome { child: None, nontrivial: false };
    }
    match &expect {
        Expect::MustFail(r) => {
            l.violation(
                format!("should-have-failed:{r}"),
                format!("[{tag}] {seq:?}: the last instruction must fail ({r}) but the engine executed it (transaction outcome {})", obs.class),
                case(json!({"engine": obs.class})),
            );
            return Outcome { child: None, nontrivial: true };
        }
        Expect::Either(r, defined) => {
            l.info(&format!("engine-accepts:{r}"));
            if !defined {
                l.class("instruction-accepted:model-undefined(not-extended)");
                return Outcome { child: None, nontrivial: true };
            }
        }
        _ => {}
    }
    let end = spec.end(&model);
    match (&end, obs.success) {
        (Expect::MustFail(r), true) => l.violation(
            format!("succeeded-with-{r}"),
            format!("[{tag}] {seq:?}: transaction succeeded although the model has {r}"),
            case(json!({"model": format!("{model:?}")})),
        ),
        (Expect::MustFail(r), false) => l.class(&format!("tx-failed:{r}")),
        (Expect::Either(r, _), ok) => {
            l.class(if ok { "tx-succeeded:statement-silent" } else { "tx-failed:statement-silent" });
            l.info(&format!("{}:{r}", if ok { "engine-accepts" } else { "engine-rejects" }));
        }
        (Expect::MustPass, false) => l.violation(
            "must-pass-but-failed:end-of-transaction",
            format!("[{tag}] {seq:?}: the statement demands that the rest of the transaction succeeds, the engine failed it: {}", obs.failure),
            case(json!({"engine": obs.failure, "model": format!("{model:?}")})),
        ),
        (Expect::ShouldPass, false) => l.violation(
            "unexpected-failure:end-of-transaction",
            format!("[{tag}] {seq:?}: every resource is accounted for in the model but the transaction failed: {}", obs.failure),
            case(json!({"engine": obs.failure, "model": format!("{model:?}")})),
        ),
        (_, true) => l.class("tx-succeeded"),
    }
    if let Some(chk) = chk {
        match chk {
            Ok(v) => l.sample(|| json!({"variant": tag, "sequence": seq_json(&seq), "outcome": "success", "observed": v})),
            Err((k, what)) => l.violation(k, format!("[{tag}] {seq:?}: {what}"), case(json!({"model": format!("{model:?}")}))),
        }
    }
    Outcome { child: Some(Node { seq, model }), nontrivial: true }
}

#[derive(Default, Debug, Clone)]
pub struct XStats {
    pub executed: u64,
    pub nontrivial: u64,
    pub capped: bool,
    pub completed: usize,
}

/// development aid on an overloaded machine: VERIF_CAP_SCALE multiplies every wall cap (default 1)
pub fn cap_scale() -> f64 {
    std::env::var("VERIF_CAP_SCALE").ok().and_then(|s| s.parse::<f64>().ok()).unwrap_or(1.0)
}

pub fn explore<S: SeqSpec>(ctx: &Ctx, spec: &S, spec_id: usize, tag: &str, max_len: usize, wall_cap_s: f64, cov: &mut Map<String, Value>) -> XStats {
    let mut frontier: Vec<Node<S>> = vec![Node { seq: vec![], model: spec.init() }];
    let mut st = XStats::default();
    let mut per_len = vec![];
    let mut alphabet_max = 0usize;
    for len in 1..=max_len {
        let mut items: Vec<(usize, S::Op)> = vec![];
        for (i, n) in frontier.iter().enumerate() {
            let o = spec.ops(&n.model);
            alphabet_max = alphabet_max.max(o.len());
            items.extend(o.into_iter().map(|op| (i, op)));
        }
        let results: Mutex<Vec<(usize, Option<Node<S>>, bool)>> = Mutex::new(Vec::with_capacity(items.len()));
        let block = (items.len() as u64 / (ctx.threads as u64 * 16)).clamp(1, 256);
        let aborted = std::sync::atomic::AtomicBool::new(false);
        mc_core::par_range(ctx, items.len() as u64, block, |i, l| {
            if ctx.elapsed_s() > wall_cap_s {
                aborted.store(true, std::sync::atomic::Ordering::Relaxed);
                return;
            }
            let (ni, op) = &items[i as usize];
            let out = evaluate(spec, spec_id, tag, &frontier[*ni], op, l);
            results.lock().unwrap().push((i as usize, out.child, out.nontrivial));
        });
        let mut results = results.into_inner().unwrap();
        results.sort_by_key(|r| r.0);
        st.executed += results.len() as u64;
        st.nontrivial += results.iter().filter(|r| r.2).count() as u64;
        if aborted.load(std::sync::atomic::Ordering::Relaxed) {
            st.capped = true;
            per_len.push(json!({"length": len, "sequences": items.len(), "executed": results.len(), "complete": false}));
            break;
        }
        let next: Vec<Node<S>> = if len < max_len { results.into_iter().filter_map(|r| r.1).collect() } else { vec![] };
        per_len.push(json!({"length": len, "sequences": items.len(), "extensible": next.len(), "complete": true}));
        st.completed = len;
        frontier = next;
        if frontier.is_empty() && len < max_len {
            st.completed = max_len;
            break;
        }
    }
    cov.insert(format!("{tag}.per_length"), json!(per_len));
    cov.insert(format!("{tag}.alphabet_max"), json!(alphabet_max));
    cov.insert(format!("{tag}.length_completed"), json!(st.completed));
    st
}

/// Number of sequences per length according to the model alone (planning aid, no engine).
pub fn count_only<S: SeqSpec>(spec: &S, max_len: usize) {
    let mut frontier = vec![spec.init()];
    for len in 1..=max_len {
        let mut n = 0u64;
        let mut next = vec![];
        for m in &frontier {
            for op in spec.ops(m) {
                n += 1;
                let mut c = m.clone();
                let e = spec.apply(&mut c, &op);
                if matches!(e, Expect::MustPass | Expect::ShouldPass | Expect::Either(_, true)) {
                    next.push(c);
                }
            }
        }
        println!("len {len}: {n} sequences, {} extensible (model estimate, upper bound)", next.len());
        frontier = next;
    }
}

pub fn replay<S: SeqSpec>(ctx: &Ctx, spec: &S, tag: &str, case: &Value) {
    let seq: Vec<S::Op> = case
        .get("sequence")
        .and_then(|s| s.as_array())
        .map(|a| a.iter().filter_map(|x| x.as_str().and_then(|s| spec.parse_op(s))).collect())
        .unwrap_or_else(|| mc_core::machinery_error("replay case has no sequence"));
    if seq.is_empty() {
        mc_core::machinery_error("replay case has an empty / unparsable sequence");
    }
    let mut node: Node<S> = Node { seq: vec![], model: spec.init() };
    let mut l = Local::new();
    for (i, op) in seq.iter().enumerate() {
        let before = l.violations.len();
        let out = evaluate(spec, 0, tag, &node, op, &mut l);
        println!("step {i} {op:?}: executed-by-engine={} new-violations={}", out.child.is_some(), l.violations.len() - before);
        match out.child {
            Some(c) => node = c,
            None => break,
        }
    }
    for v in &l.violations {
        println!("replayed violation {}: {}", v.key, v.what);
    }
    println!("model after replay: {:?}", node.model);
    ctx.merge(l);
}

/// `Name(arg)` / `Name` parsing helper for replay files.
pub fn split_op(s: &str) -> (&str, Vec<i64>) {
    match s.find('(') {
        Some(i) => (&s[..i], s[i + 1..s.len() - 1].split(',').filter_map(|x| x.trim().parse::<i64>().ok()).collect()),
        None => (s, vec![]),
    }
}
