//! mc-resflow: serves C09 C10 C43 (one module per property).
use mc_core::Ctx;

mod c09;
mod common;
mod seqx;
mod c10;
mod c43;

fn main() {
    let ctx = Ctx::from_args();
    match ctx.id.as_str() {
        "C09" => c09::run(ctx),
        "C10" => c10::run(ctx),
        "C43" => c43::run(ctx),
        other => mc_core::machinery_error(&format!("mc-resflow does not serve {other}")),
    }
}
