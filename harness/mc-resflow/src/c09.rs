//! C09 — resources cannot vanish or be duplicated inside a transaction.
//!
//! One transaction = one instruction sequence. ALL sequences up to the bound over the alphabet below are
//! executed on the real engine (account A: 3 F, non-fungibles {#1,#2}); a sequence is extended only if the
//! real engine executed every one of its instructions (marker observation, see common.rs), i.e. prefix
//! pruning follows the engine, not the model. Reference: a multiset model of vault / worktop / buckets.
//!
//! Oracle per sequence (only what the statement says is a hard demand):
//!  * MustFail — use of a consumed / never created bucket, taking more than is there (worktop, bucket, vault),
//!    taking an absent id, a failing worktop assertion, dropping a non-empty bucket (foreign drop, forgetting
//!    it in a foreign frame), and at the end: anything left on the worktop or in a named bucket;
//!  * MustPass — a worktop assertion whose condition holds ("exactly when");
//!  * ShouldPass — operations that are fully defined by the model (take ≤ present, return / deposit / burn of a
//!    live non-empty bucket, end of a transaction with nothing left): a failure is reported;
//!  * Either (informational) — everything the statement is silent about: zero-amount takes, operations on
//!    empty buckets, an empty named bucket left at the end, anything involving a bucket locked by a proof
//!    (that is C10's subject; the model only knows the natural engine behaviour and does not demand it).
//!  On success: A's balances, A's ids and both recorded supplies must equal the model's (vault + burned is
//!  conserved by construction of the model, so equality is the conservation check).
use crate::common::*;
use crate::seqx::*;
use mc_core::{Ctx, Level};
use mc_ledger::*;
use radix_transactions::manifest::*;
use serde_json::{json, Map, Value};
use std::collections::BTreeSet;

// ------------------------------------------------------------------------------------------------
// alphabet
// ------------------------------------------------------------------------------------------------

#[derive(Clone, Copy, Debug, PartialEq, Eq, PartialOrd, Ord, Hash)]
pub enum Op {
    WithdrawF(u8),
    /// bit mask over ids {1,2}
    WithdrawNf(u8),
    TakeF(u8),
    TakeAllF,
    TakeAllNf,
    TakeNf(u8),
    Return(u8),
    Burn(u8),
    Deposit(u8),
    ProofAll(u8),
    DropRaw(u8),
    DropEmpty(u8),
    Forget(u8),
    KeepRest(u8),
    Pass(u8),
    DepositBatch,
    AssertF(u8),
    AssertAnyF,
    AssertNf(u8),
}

fn mask_ids(mask: u8) -> Vec<u64> {
    (0..8).filter(|i| mask & (1 << i) != 0).map(|i| i as u64 + 1).collect()
}
fn mask_set(mask: u8) -> BTreeSet<u64> {
    mask_ids(mask).into_iter().collect()
}

impl Op {
    fn label(&self) -> &'static str {
        match self {
            Op::WithdrawF(_) => "withdraw",
            Op::WithdrawNf(_) => "withdraw-ids",
            Op::TakeF(_) => "take",
            Op::TakeAllF | Op::TakeAllNf => "take-all",
            Op::TakeNf(_) => "take-ids",
            Op::Return(_) => "return",
            Op::Burn(_) => "burn",
            Op::Deposit(_) => "deposit",
            Op::ProofAll(_) => "proof-of-bucket",
            Op::DropRaw(_) => "foreign-drop-raw",
            Op::DropEmpty(_) => "foreign-drop-empty",
            Op::Forget(_) => "foreign-forget",
            Op::KeepRest(_) => "foreign-keep-rest",
            Op::Pass(_) => "foreign-pass",
            Op::DepositBatch => "deposit-batch",
            Op::AssertF(_) => "assert-amount",
            Op::AssertAnyF => "assert-any",
            Op::AssertNf(_) => "assert-ids",
        }
    }
    fn creates_bucket(&self) -> bool {
        matches!(self, Op::TakeF(_) | Op::TakeAllF | Op::TakeAllNf | Op::TakeNf(_))
    }
    fn creates_proof(&self) -> bool {
        matches!(self, Op::ProofAll(_))
    }
}

#[derive(Clone, Copy, Debug, PartialEq, Eq)]
pub struct Alphabet {
    /// probe (foreign) operations included
    pub probe: bool,
    /// proof-from-bucket included
    pub proofs: bool,
    /// bucket arguments also range over consumed buckets and the next (never created) id
    pub stale: bool,
}

/// Enabled operations after a prefix that created `n_buckets` buckets, of which `live` are (syntactically) live.
fn ops(al: &Alphabet, live: &[bool]) -> Vec<Op> {
    let mut v = vec![
        Op::WithdrawF(1),
        Op::WithdrawF(3),
        Op::WithdrawNf(0b01),
        Op::WithdrawNf(0b11),
        Op::TakeF(0),
        Op::TakeF(1),
        Op::TakeF(2),
        Op::TakeF(3),
        Op::TakeAllF,
        Op::TakeNf(0),
        Op::TakeNf(0b01),
        Op::TakeNf(0b11),
        Op::TakeAllNf,
    ];
    let n = live.len() as u8;
    for b in 0..n {
        if live[b as usize] {
            v.push(Op::Return(b));
            v.push(Op::Burn(b));
            v.push(Op::Deposit(b));
            if al.proofs {
                v.push(Op::ProofAll(b));
            }
            if al.probe {
                v.push(Op::DropRaw(b));
                v.push(Op::DropEmpty(b));
                v.push(Op::Forget(b));
                v.push(Op::KeepRest(b));
                v.push(Op::Pass(b));
            }
        } else if al.stale {
            // one representative per code path of the processor: take_bucket (return, burn), get_bucket (proof),
            // argument transformation of a call (deposit)
            v.push(Op::Return(b));
            v.push(Op::Burn(b));
            v.push(Op::Deposit(b));
            if al.proofs {
                v.push(Op::ProofAll(b));
            }
        }
    }
    if al.stale {
        v.push(Op::Return(n)); // never created
    }
    v.push(Op::DepositBatch);
    v.push(Op::AssertF(0));
    v.push(Op::AssertF(1));
    v.push(Op::AssertF(2));
    v.push(Op::AssertAnyF);
    v.push(Op::AssertNf(0b01));
    v.push(Op::AssertNf(0b11));
    v
}

fn instruction(w: &RWorld, op: &Op) -> InstructionV1 {
    let b = |i: &u8| ManifestBucket(*i as u32);
    match op {
        Op::WithdrawF(a) => call_method(w.a, "withdraw", &(w.f, Decimal::from(*a as u32))),
        Op::WithdrawNf(m) => call_method(w.a, "withdraw_non_fungibles", &(w.nf, ids(&mask_ids(*m)))),
        Op::TakeF(a) => InstructionV1::TakeFromWorktop(TakeFromWorktop { resource_address: w.f, amount: Decimal::from(*a as u32) }),
        Op::TakeAllF => InstructionV1::TakeAllFromWorktop(TakeAllFromWorktop { resource_address: w.f }),
        Op::TakeAllNf => InstructionV1::TakeAllFromWorktop(TakeAllFromWorktop { resource_address: w.nf }),
        Op::TakeNf(m) => InstructionV1::TakeNonFungiblesFromWorktop(TakeNonFungiblesFromWorktop { resource_address: w.nf, ids: ids(&mask_ids(*m)) }),
        Op::Return(i) => InstructionV1::ReturnToWorktop(ReturnToWorktop { bucket_id: b(i) }),
        Op::Burn(i) => InstructionV1::BurnResource(BurnResource { bucket_id: b(i) }),
        Op::Deposit(i) => call_method(w.a, "deposit", &(b(i),)),
        Op::ProofAll(i) => InstructionV1::CreateProofFromBucketOfAll(CreateProofFromBucketOfAll { bucket_id: b(i) }),
        Op::DropRaw(i) => call_probe(w, "drop_raw", &(b(i),)),
        Op::DropEmpty(i) => call_probe(w, "drop_empty", &(b(i),)),
        Op::Forget(i) => call_probe(w, "forget", &(b(i),)),
        Op::KeepRest(i) => call_probe(w, "keep_rest", &(b(i),)),
        Op::Pass(i) => call_probe(w, "pass", &(b(i),)),
        Op::DepositBatch => call_method(w.a, "deposit_batch", &(ManifestExpression::EntireWorktop,)),
        Op::AssertF(a) => InstructionV1::AssertWorktopContains(AssertWorktopContains { resource_address: w.f, amount: Decimal::from(*a as u32) }),
        Op::AssertAnyF => InstructionV1::AssertWorktopContainsAny(AssertWorktopContainsAny { resource_address: w.f }),
        Op::AssertNf(m) => InstructionV1::AssertWorktopContainsNonFungibles(AssertWorktopContainsNonFungibles { resource_address: w.nf, ids: ids(&mask_ids(*m)) }),
    }
}

// ------------------------------------------------------------------------------------------------
// reference model (multisets; amounts are whole units)
// ------------------------------------------------------------------------------------------------

#[derive(Clone, Copy, Debug, PartialEq, Eq)]
enum Res {
    F,
    Nf,
}

/// A bucket object: a container with identity (the worktop keeps one per resource).
#[derive(Clone, Debug, PartialEq, Eq)]
struct Obj {
    res: Res,
    amount: i64,
    ids: BTreeSet<u64>,
    /// a proof of the full content exists (only `ProofAll` creates proofs here)
    locked: bool,
}

impl Obj {
    fn count(&self) -> i64 {
        match self.res {
            Res::F => self.amount,
            Res::Nf => self.ids.len() as i64,
        }
    }
    fn is_empty(&self) -> bool {
        self.count() == 0
    }
}

#[derive(Clone, Debug)]
pub struct Model {
    vault_f: i64,
    vault_nf: BTreeSet<u64>,
    burned_f: i64,
    burned_nf: BTreeSet<u64>,
    objs: Vec<Obj>,
    wt_f: Option<usize>,
    wt_nf: Option<usize>,
    /// named buckets: Some(object) while live, None once consumed
    named: Vec<Option<usize>>,
}

impl Model {
    pub fn new() -> Model {
        Model { vault_f: 3, vault_nf: [1u64, 2].into_iter().collect(), burned_f: 0, burned_nf: BTreeSet::new(), objs: vec![], wt_f: None, wt_nf: None, named: vec![] }
    }
    fn new_obj(&mut self, o: Obj) -> usize {
        self.objs.push(o);
        self.objs.len() - 1
    }
    fn wt(&mut self, r: Res) -> &mut Option<usize> {
        match r {
            Res::F => &mut self.wt_f,
            Res::Nf => &mut self.wt_nf,
        }
    }
    fn wt_amount_f(&self) -> i64 {
        self.wt_f.map(|o| self.objs[o].amount).unwrap_or(0)
    }
    fn wt_ids(&self) -> BTreeSet<u64> {
        self.wt_nf.map(|o| self.objs[o].ids.clone()).unwrap_or_default()
    }
    /// worktop.put of an unlocked or locked object. Returns Either-undefined marker if a locked object would
    /// have to be merged into another one.
    fn put(&mut self, o: usize) -> Option<Expect> {
        let res = self.objs[o].res;
        if self.objs[o].is_empty() {
            return None; // dropped
        }
        match *self.wt(res) {
            None => {
                *self.wt(res) = Some(o);
                None
            }
            Some(e) => {
                if self.objs[o].locked {
                    return Some(Expect::Either("locked-bucket-merged-into-worktop", false));
                }
                let (amount, ids) = (self.objs[o].amount, std::mem::take(&mut self.objs[o].ids));
                self.objs[o].amount = 0;
                self.objs[e].amount += amount;
                self.objs[e].ids.extend(ids);
                None
            }
        }
    }
    fn live(&self, b: u8) -> Option<usize> {
        self.named.get(b as usize).copied().flatten()
    }
    fn consume(&mut self, b: u8) -> usize {
        self.named[b as usize].take().unwrap()
    }
    fn deposit_obj(&mut self, o: usize) {
        self.vault_f += self.objs[o].amount;
        self.objs[o].amount = 0;
        let ids = std::mem::take(&mut self.objs[o].ids);
        self.vault_nf.extend(ids);
    }

    /// Applies the operation assuming it succeeds; returns what the statement demands of the real engine.
    pub fn apply(&mut self, op: &Op) -> Expect {
        match *op {
            Op::WithdrawF(a) => {
                let a = a as i64;
                if a > self.vault_f {
                    return Expect::MustFail("withdraw-more-than-vault");
                }
                self.vault_f -= a;
                let o = self.new_obj(Obj { res: Res::F, amount: a, ids: BTreeSet::new(), locked: false });
                self.put(o);
                Expect::ShouldPass
            }
            Op::WithdrawNf(m) => {
                let s = mask_set(m);
                if !s.is_subset(&self.vault_nf) {
                    return Expect::MustFail("withdraw-absent-id");
                }
                for i in &s {
                    self.vault_nf.remove(i);
                }
                let o = self.new_obj(Obj { res: Res::Nf, amount: 0, ids: s, locked: false });
                self.put(o);
                Expect::ShouldPass
            }
            Op::TakeF(a) => {
                let a = a as i64;
                if a == 0 {
                    let o = self.new_obj(Obj { res: Res::F, amount: 0, ids: BTreeSet::new(), locked: false });
                    self.named.push(Some(o));
                    return Expect::Either("take-zero-amount", true);
                }
                let have = self.wt_amount_f();
                if a > have {
                    return Expect::MustFail("take-more-than-worktop");
                }
                let e = self.wt_f.unwrap();
                if a == have {
                    // the whole content; a locked container can only be handed over as a whole
                    self.wt_f = None;
                    self.named.push(Some(e));
                    return if self.objs[e].locked { Expect::Either("take-all-of-locked-worktop-bucket", true) } else { Expect::ShouldPass };
                }
                if self.objs[e].locked {
                    return Expect::Either("partial-take-from-locked-worktop-bucket", false);
                }
                self.objs[e].amount -= a;
                let o = self.new_obj(Obj { res: Res::F, amount: a, ids: BTreeSet::new(), locked: false });
                self.named.push(Some(o));
                Expect::ShouldPass
            }
            Op::TakeAllF | Op::TakeAllNf => {
                let res = if matches!(op, Op::TakeAllF) { Res::F } else { Res::Nf };
                match self.wt(res).take() {
                    Some(e) => {
                        self.named.push(Some(e));
                        if self.objs[e].locked {
                            Expect::Either("take-all-of-locked-worktop-bucket", true)
                        } else {
                            Expect::ShouldPass
                        }
                    }
                    None => {
                        let o = self.new_obj(Obj { res, amount: 0, ids: BTreeSet::new(), locked: false });
                        self.named.push(Some(o));
                        Expect::Either("take-all-of-absent-resource", true)
                    }
                }
            }
            Op::TakeNf(m) => {
                let s = mask_set(m);
                if s.is_empty() {
                    let o = self.new_obj(Obj { res: Res::Nf, amount: 0, ids: BTreeSet::new(), locked: false });
                    self.named.push(Some(o));
                    return Expect::Either("take-empty-id-set", true);
                }
                let have = self.wt_ids();
                if !s.is_subset(&have) {
                    return Expect::MustFail("take-absent-id");
                }
                let e = self.wt_nf.unwrap();
                if s == have {
                    self.wt_nf = None;
                    self.named.push(Some(e));
                    return if self.objs[e].locked { Expect::Either("take-all-of-locked-worktop-bucket", true) } else { Expect::ShouldPass };
                }
                if self.objs[e].locked {
                    return Expect::Either("partial-take-from-locked-worktop-bucket", false);
                }
                for i in &s {
                    self.objs[e].ids.remove(i);
                }
                let o = self.new_obj(Obj { res: Res::Nf, amount: 0, ids: s, locked: false });
                self.named.push(Some(o));
                Expect::ShouldPass
            }
            Op::Return(b) => {
                if self.live(b).is_none() {
                    return Expect::MustFail("use-of-consumed-or-unknown-bucket");
                }
                let o = self.consume(b);
                let empty = self.objs[o].is_empty();
                if let Some(e) = self.put(o) {
                    return e;
                }
                if empty {
                    Expect::Either("return-empty-bucket", true)
                } else if self.objs[o].locked {
                    Expect::Either("return-locked-bucket", true)
                } else {
                    Expect::ShouldPass
                }
            }
            Op::Burn(b) => {
                if self.live(b).is_none() {
                    return Expect::MustFail("use-of-consumed-or-unknown-bucket");
                }
                let o = self.consume(b);
                if self.objs[o].locked {
                    return Expect::Either("burn-locked-bucket", false);
                }
                let empty = self.objs[o].is_empty();
                self.burned_f += self.objs[o].amount;
                self.objs[o].amount = 0;
                let ids = std::mem::take(&mut self.objs[o].ids);
                self.burned_nf.extend(ids);
                if empty {
                    Expect::Either("burn-empty-bucket", true)
                } else {
                    Expect::ShouldPass
                }
            }
            Op::Deposit(b) => {
                if self.live(b).is_none() {
                    return Expect::MustFail("use-of-consumed-or-unknown-bucket");
                }
                let o = self.consume(b);
                if self.objs[o].locked {
                    return Expect::Either("deposit-locked-bucket", false);
                }
                let empty = self.objs[o].is_empty();
                self.deposit_obj(o);
                if empty {
                    Expect::Either("deposit-empty-bucket", true)
                } else {
                    Expect::ShouldPass
                }
            }
            Op::ProofAll(b) => {
                let Some(o) = self.live(b) else { return Expect::MustFail("use-of-consumed-or-unknown-bucket") };
                if self.objs[o].is_empty() {
                    return Expect::Either("proof-of-empty-bucket", false);
                }
                self.objs[o].locked = true;
                Expect::ShouldPass
            }
            Op::DropRaw(b) | Op::DropEmpty(b) | Op::Forget(b) => {
                if self.live(b).is_none() {
                    return Expect::MustFail("use-of-consumed-or-unknown-bucket");
                }
                let o = self.consume(b);
                if !self.objs[o].is_empty() {
                    return Expect::MustFail("non-empty-bucket-dropped");
                }
                match op {
                    Op::DropRaw(_) => Expect::Either("foreign-raw-drop-of-empty-bucket", true),
                    Op::DropEmpty(_) => Expect::Either("foreign-drop-of-empty-bucket", true),
                    _ => Expect::Either("empty-bucket-forgotten-in-foreign-frame", true),
                }
            }
            Op::KeepRest(b) => {
                if self.live(b).is_none() {
                    return Expect::MustFail("use-of-consumed-or-unknown-bucket");
                }
                let o = self.consume(b);
                if self.objs[o].locked {
                    return Expect::Either("locked-bucket-passed-to-call", false);
                }
                match self.objs[o].res {
                    Res::F => {
                        if self.objs[o].amount < 1 {
                            return Expect::MustFail("take-more-than-bucket");
                        }
                        if self.objs[o].amount > 1 {
                            return Expect::MustFail("non-empty-bucket-dropped");
                        }
                        self.objs[o].amount = 0;
                        let t = self.new_obj(Obj { res: Res::F, amount: 1, ids: BTreeSet::new(), locked: false });
                        self.put(t);
                    }
                    Res::Nf => {
                        if !self.objs[o].ids.contains(&1) {
                            return Expect::MustFail("take-absent-id");
                        }
                        if self.objs[o].ids.len() > 1 {
                            return Expect::MustFail("non-empty-bucket-dropped");
                        }
                        self.objs[o].ids.clear();
                        let t = self.new_obj(Obj { res: Res::Nf, amount: 0, ids: [1u64].into_iter().collect(), locked: false });
                        self.put(t);
                    }
                }
                Expect::ShouldPass
            }
            Op::Pass(b) => {
                if self.live(b).is_none() {
                    return Expect::MustFail("use-of-consumed-or-unknown-bucket");
                }
                let o = self.consume(b);
                if self.objs[o].locked {
                    return Expect::Either("locked-bucket-passed-to-call", false);
                }
                let empty = self.objs[o].is_empty();
                self.put(o);
                if empty {
                    Expect::Either("empty-bucket-passed-through-call", true)
                } else {
                    Expect::ShouldPass
                }
            }
            Op::DepositBatch => {
                let mut locked = false;
                for r in [Res::F, Res::Nf] {
                    if let Some(e) = self.wt(r).take() {
                        if self.objs[e].locked {
                            locked = true;
                        }
                        self.deposit_obj(e);
                    }
                }
                if locked {
                    Expect::Either("deposit-locked-bucket", false)
                } else {
                    Expect::ShouldPass
                }
            }
            Op::AssertF(a) => {
                if self.wt_amount_f() >= a as i64 {
                    Expect::MustPass
                } else {
                    Expect::MustFail("assertion-false")
                }
            }
            Op::AssertAnyF => {
                if self.wt_amount_f() > 0 {
                    Expect::MustPass
                } else {
                    Expect::MustFail("assertion-false")
                }
            }
            Op::AssertNf(m) => {
                if mask_set(m).is_subset(&self.wt_ids()) {
                    Expect::MustPass
                } else {
                    Expect::MustFail("assertion-false")
                }
            }
        }
    }

    /// What must happen when the transaction ends here.
    pub fn end(&self) -> Expect {
        if self.wt_f.map(|o| !self.objs[o].is_empty()).unwrap_or(false) || self.wt_nf.map(|o| !self.objs[o].is_empty()).unwrap_or(false) {
            return Expect::MustFail("leftover-on-worktop");
        }
        let mut empty_named = false;
        for n in self.named.iter().flatten() {
            if !self.objs[*n].is_empty() {
                return Expect::MustFail("non-empty-bucket-left");
            }
            empty_named = true;
        }
        if empty_named {
            return Expect::Either("empty-named-bucket-left-at-end", true);
        }
        Expect::ShouldPass
    }

    fn live_flags(&self) -> Vec<bool> {
        self.named.iter().map(|n| n.is_some()).collect()
    }

    /// independent sanity of the model itself: nothing is created or lost
    fn conserved(&self) -> bool {
        let mut f = self.vault_f + self.burned_f;
        let mut ids: Vec<u64> = self.vault_nf.iter().chain(self.burned_nf.iter()).copied().collect();
        for o in &self.objs {
            f += o.amount;
            ids.extend(o.ids.iter().copied());
        }
        ids.sort();
        f == 3 && ids == vec![1, 2]
    }
}

// ------------------------------------------------------------------------------------------------
// exploration
// ------------------------------------------------------------------------------------------------

pub struct Spec {
    snap: Snap,
    w: RWorld,
    al: Alphabet,
}

impl SeqSpec for Spec {
    type Op = Op;
    type Model = Model;
    fn world(&self) -> (&Snap, &RWorld) {
        (&self.snap, &self.w)
    }
    fn init(&self) -> Model {
        Model::new()
    }
    fn ops(&self, m: &Model) -> Vec<Op> {
        ops(&self.al, &m.live_flags())
    }
    fn label(&self, op: &Op) -> &'static str {
        op.label()
    }
    fn apply(&self, m: &mut Model, op: &Op) -> Expect {
        m.apply(op)
    }
    fn model_sane(&self, m: &Model) -> bool {
        m.conserved()
    }
    fn prelude(&self) -> Vec<InstructionV1> {
        vec![]
    }
    fn instruction(&self, op: &Op) -> InstructionV1 {
        instruction(&self.w, op)
    }
    fn tail(&self, _m: &Model) -> Vec<InstructionV1> {
        vec![]
    }
    fn end(&self, m: &Model) -> Expect {
        m.end()
    }
    fn check_success(&self, sim: &mut PSim, m: &Model, _seq: &[Op], _outputs: &[InstructionOutput], _first: usize) -> Result<Value, (String, String)> {
        let w = &self.w;
        let (bf, bids, sf, snf) = (sim.get_component_balance(w.a, w.f), nf_ids_of(sim, w.a, w.nf), sim.get_fungible_resource_total_supply(w.f), nf_supply(sim, w.nf));
        let mf = Decimal::from(m.vault_f);
        let msf = Decimal::from(3 - m.burned_f);
        let msnf = Decimal::from(2 - m.burned_nf.len() as i64);
        if bf != mf || bids != m.vault_nf || sf != msf || snf != Some(msnf) {
            return Err((
                "balances-differ-from-model".into(),
                format!("after success A holds {bf} F / ids {bids:?}, supplies {sf} / {snf:?}; model: {mf} F / {:?}, supplies {msf} / {msnf}", m.vault_nf),
            ));
        }
        Ok(json!({"A_f": bf.to_string(), "A_ids": format!("{bids:?}"), "supply_f": sf.to_string()}))
    }
    fn parse_op(&self, s: &str) -> Option<Op> {
        let (name, args) = split_op(s);
        let a = args.first().map(|x| *x as u8);
        Some(match (name, a) {
            ("WithdrawF", Some(a)) => Op::WithdrawF(a),
            ("WithdrawNf", Some(a)) => Op::WithdrawNf(a),
            ("TakeF", Some(a)) => Op::TakeF(a),
            ("TakeAllF", None) => Op::TakeAllF,
            ("TakeAllNf", None) => Op::TakeAllNf,
            ("TakeNf", Some(a)) => Op::TakeNf(a),
            ("Return", Some(a)) => Op::Return(a),
            ("Burn", Some(a)) => Op::Burn(a),
            ("Deposit", Some(a)) => Op::Deposit(a),
            ("ProofAll", Some(a)) => Op::ProofAll(a),
            ("DropRaw", Some(a)) => Op::DropRaw(a),
            ("DropEmpty", Some(a)) => Op::DropEmpty(a),
            ("Forget", Some(a)) => Op::Forget(a),
            ("KeepRest", Some(a)) => Op::KeepRest(a),
            ("Pass", Some(a)) => Op::Pass(a),
            ("DepositBatch", None) => Op::DepositBatch,
            ("AssertF", Some(a)) => Op::AssertF(a),
            ("AssertAnyF", None) => Op::AssertAnyF,
            ("AssertNf", Some(a)) => Op::AssertNf(a),
            _ => return None,
        })
    }
}

const FULL: Alphabet = Alphabet { probe: true, proofs: true, stale: true };
const CORE: Alphabet = Alphabet { probe: false, proofs: false, stale: false };

fn alphabet_by_tag(tag: &str) -> Alphabet {
    if tag.starts_with("core") {
        CORE
    } else {
        FULL
    }
}

pub fn run(ctx: Ctx) -> ! {
    let (snap, w) = build_rworld(dec!(3), 18, &[1, 2]);
    if let Some(case) = ctx.read_replay_case() {
        let tag = case.get("variant").and_then(|v| v.as_str()).unwrap_or("full").to_string();
        let spec = Spec { snap, w, al: alphabet_by_tag(&tag) };
        replay(&ctx, &spec, &tag, &case);
        ctx.finish(Level::ModelChecking, "replay", 0, false, Map::new(), &[]);
    }
    if std::env::var("VERIF_COUNT").is_ok() {
        println!("full alphabet:");
        count_only(&Spec { snap: snap.clone(), w: w.clone(), al: FULL }, 5);
        println!("core alphabet:");
        count_only(&Spec { snap, w, al: CORE }, 6);
        std::process::exit(2);
    }
    // (tag, length, wall cap)
    let plan: Vec<(&str, usize, f64)> = if ctx.quick() { vec![("full", 4, 120.0)] } else { vec![("full", 5, 2400.0)] };
    let mut cov = Map::new();
    let (mut executed, mut nontrivial, mut capped) = (0, 0, false);
    let mut bounds = vec![];
    for (i, (tag, len, cap)) in plan.into_iter().enumerate() {
        let spec = Spec { snap: snap.clone(), w: w.clone(), al: alphabet_by_tag(tag) };
        let st = explore(&ctx, &spec, i, tag, len, cap * cap_scale(), &mut cov);
        executed += st.executed;
        nontrivial += st.nontrivial;
        capped |= st.capped;
        cov.insert(format!("{tag}.alphabet"), json!(format!("{:?}", spec.al)));
        bounds.push(format!("{tag}: all sequences of length <= {}{}", st.completed, if st.capped { " (wall cap hit before the planned bound)" } else { "" }));
    }
    cov.insert("states".into(), json!(nontrivial));
    cov.insert("transitions".into(), json!(executed));
    cov.insert("traces_validated_against_impl".into(), json!(executed));
    cov.insert("bounds".into(), json!(bounds));
    cov.insert("caps_hit".into(), json!(capped));
    let (r, x, c, n) = profile();
    let cpu = process_cpu_s();
    cov.insert("mean_us_per_transaction".into(), json!({"snapshot_restore": r, "execute": x, "post_checks": c, "transactions": n, "process_cpu_s": cpu, "cpu_ms_per_transaction": cpu * 1000.0 / n as f64}));
    println!("PROFILE mean wall us/tx: restore={r} execute={x} post={c} n={n}; process cpu {cpu:.0} s = {:.2} ms cpu/tx", cpu * 1000.0 / n as f64);
    ctx.finish(
        Level::ModelChecking,
        "every instruction sequence up to the bound over the alphabet is executed as one transaction on the real engine from the same snapshot; a sequence is extended only if the engine executed all its instructions (marker fee lock observed in the receipt); non-trivial = sequences whose instructions all executed (their end-of-transaction verdict and balances are compared with the multiset model)",
        nontrivial,
        !capped,
        cov,
        &[
            "account A and the marker account have owner rule allow_all so that no instruction of the alphabet depends on signatures",
            "cases the statement is silent about (zero-amount takes, empty buckets, buckets locked by a proof) are informational",
            "consumed-bucket arguments are limited to one representative instruction per processor code path (return, burn, deposit, proof)",
        ],
    )
}
