//! C09 — not implemented yet.
use mc_core::Ctx;

pub fn run(_ctx: Ctx) -> ! {
    mc_core::machinery_error("C09: not implemented")
}
