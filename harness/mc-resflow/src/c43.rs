//! C43 — non-fungible ids are never reused and data changes are restricted.
//!
//! Multi-transaction history exploration (`mc_core::bfs`): every action is one transaction on the real engine,
//! states are forked through ledger snapshots and de-duplicated by a fingerprint of the REAL resource state
//! (per id: data entry present / removed / locked, content, vault membership; recorded supply). Three resources
//! (integer ids, string ids, RUID), each with data `{name (immutable), level (mutable)}`, everything publicly
//! mintable / burnable / updatable, all held by one account.
//!
//! Reference model: list `ever` of ever-minted ids, set `live`, data map. Demands taken from the statement:
//!  * MustFail: minting an id that was ever minted (also after its burn, also as part of a batch — and the batch
//!    must then mint nothing); minting an id whose type is not the resource's id type (explicit id of another type,
//!    RUID mint on a non-RUID resource); updating the immutable field or an undeclared field;
//!  * after EVERY transaction: all ids present (vault, data store) have the resource's id type; the ids in the
//!    vault are exactly the model's live ids; immutable data of live ids equals what was minted; RUID mints produce
//!    exactly the requested number of ids, all new with respect to everything ever minted on the path;
//!  * ShouldPass (fully defined): mint of a fresh id, burn of a live id, update of the mutable field of a live id
//!    with a value of the right type (and it reads back), `get` of a live id returns the model's data;
//!  * Either (informational): `exists` answers, `get` of burned ids, updates with a wrongly typed value, burning
//!    or updating ids that are not live, minting an explicit RUID-typed id into the RUID resource.
//!
//! For the RUID resource ids are random, so actions address "the k-th smallest id ever present" (k = 0,1), a
//! function of the real state only.
use mc_core::{bfs, BfsStats, Ctx, Level, Machine};
use mc_ledger::*;
use radix_engine::blueprints::resource::*;
use radix_engine::system::system_db_reader::SystemDatabaseReader;
use radix_engine::system::system_substates::KeyValueEntrySubstate;
use radix_substate_store_interface::interface::SubstateDatabaseExtensions;
use serde_json::{json, Value};
use std::collections::{BTreeMap, BTreeSet};

#[derive(Clone, Copy, Debug, PartialEq, Eq, PartialOrd, Ord)]
pub enum Kind {
    Int,
    Str,
    Ruid,
}

impl Kind {
    fn id_type(&self) -> NonFungibleIdType {
        match self {
            Kind::Int => NonFungibleIdType::Integer,
            Kind::Str => NonFungibleIdType::String,
            Kind::Ruid => NonFungibleIdType::RUID,
        }
    }
}

#[derive(Clone, Copy, Debug, PartialEq, Eq, PartialOrd, Ord)]
pub enum Field {
    Level,
    Name,
    Foo,
}

#[derive(Clone, Copy, Debug, PartialEq, Eq, PartialOrd, Ord)]
pub enum Op {
    /// explicit mint of universe id `slot` with data variant v (name "v<v>", level v)
    Mint(u8, u8),
    /// explicit mint of slots 0 and 1 in one call
    MintBoth,
    /// explicit mint of an id of a foreign id type: 0 integer, 1 string, 2 bytes, 3 RUID
    MintWrong(u8),
    /// mint_ruid with n entries
    MintRuid(u8),
    MintSingleRuid,
    /// explicit mint of a fixed RUID-typed id (RUID resource only)
    MintExplicitRuid,
    BurnBucket(u8),
    BurnVault(u8),
    /// (slot, field, value has the right type)
    Update(u8, Field, bool),
    Get(u8),
    Exists(u8),
}

const UPDATED_LEVEL: u32 = 9;

#[derive(Clone, Debug, PartialEq, Eq)]
enum Entry {
    /// data present: (name, level) when it decodes as the data struct, raw rendering otherwise
    Data(Result<(String, u32), String>, bool),
    /// entry exists without value; bool = locked (tombstone)
    Empty(bool),
}

/// What the real database shows for one resource.
#[derive(Clone, Debug, PartialEq, Eq, Default)]
struct Scan {
    entries: BTreeMap<NonFungibleLocalId, Entry>,
    vault: BTreeSet<NonFungibleLocalId>,
    supply: Option<Decimal>,
}

#[derive(Clone, Debug, Default)]
struct Model {
    ever: BTreeSet<NonFungibleLocalId>,
    live: BTreeSet<NonFungibleLocalId>,
    data: BTreeMap<NonFungibleLocalId, (String, u32)>,
}

pub struct St {
    sim: Sim,
    model: Model,
    scan: Scan,
    /// the engine accepted something the model has no semantics for (informational); not explored further
    undefined: bool,
}

pub struct NfMachine {
    root: Snap,
    kind: Kind,
    a: ComponentAddress,
    res: ResourceAddress,
    data_partition: PartitionNumber,
    /// explicit-id universe (empty for RUID)
    universe: Vec<NonFungibleLocalId>,
}

fn sim_from(snap: &Snap) -> Sim {
    LedgerSimulatorBuilder::new().without_kernel_trace().without_receipt_substate_check().build_from_snapshot(snap.clone())
}

fn nf_roles() -> NonFungibleResourceRoles {
    NonFungibleResourceRoles {
        mint_roles: mint_roles! { minter => rule!(allow_all); minter_updater => rule!(deny_all); },
        burn_roles: burn_roles! { burner => rule!(allow_all); burner_updater => rule!(deny_all); },
        non_fungible_data_update_roles: non_fungible_data_update_roles! { non_fungible_data_updater => rule!(allow_all); non_fungible_data_updater_updater => rule!(deny_all); },
        ..Default::default()
    }
}

pub struct World43 {
    snap: Snap,
    a: ComponentAddress,
    int: ResourceAddress,
    string: ResourceAddress,
    ruid: ResourceAddress,
}

pub fn build_world43() -> World43 {
    let mut sim = LedgerSimulatorBuilder::new().without_kernel_trace().without_receipt_substate_check().build();
    let a = sim.new_account_advanced(OwnerRole::Fixed(rule!(allow_all)));
    let mut mk = |sim: &mut Sim, t: Option<NonFungibleIdType>| {
        let b = ManifestBuilder::new().lock_fee_from_faucet();
        let b = match t {
            Some(t) => b.create_non_fungible_resource(OwnerRole::None, t, true, nf_roles(), metadata!(), None::<Vec<(NonFungibleLocalId, NfData)>>),
            None => b.create_ruid_non_fungible_resource(OwnerRole::None, true, metadata!(), nf_roles(), None::<Vec<NfData>>),
        };
        sim.execute_manifest(b.build(), vec![]).expect_commit(true).new_resource_addresses()[0]
    };
    let int = mk(&mut sim, Some(NonFungibleIdType::Integer));
    let string = mk(&mut sim, Some(NonFungibleIdType::String));
    let ruid = mk(&mut sim, None);
    World43 { snap: sim.create_snapshot(), a, int, string, ruid }
}

fn fixed_ruid() -> NonFungibleLocalId {
    NonFungibleLocalId::ruid([0x5a; 32])
}

impl NfMachine {
    pub fn new(w: &World43, kind: Kind, n_ids: usize) -> NfMachine {
        let (res, universe): (ResourceAddress, Vec<NonFungibleLocalId>) = match kind {
            Kind::Int => (w.int, (1..=n_ids as u64).map(NonFungibleLocalId::integer).collect()),
            Kind::Str => (w.string, ["a", "b", "c"][..n_ids].iter().map(|s| NonFungibleLocalId::string(*s).unwrap()).collect()),
            Kind::Ruid => (w.ruid, vec![]),
        };
        let sim = sim_from(&w.snap);
        let data_partition = SystemDatabaseReader::new(sim.substate_db())
            .get_partition_of_collection(res.as_node_id(), ModuleId::Main, NonFungibleResourceManagerCollection::DataKeyValue.collection_index())
            .expect("data partition");
        NfMachine { root: w.snap.clone(), kind, a: w.a, res, data_partition, universe }
    }

    fn scan(&self, sim: &mut Sim) -> Scan {
        let mut s = Scan::default();
        for (key, sub) in sim.substate_db().list_map_values::<KeyValueEntrySubstate<ScryptoValue>>(self.res.as_node_id(), self.data_partition, None::<SubstateKey>) {
            let id: NonFungibleLocalId = scrypto_decode(&key).expect("data key is a local id");
            let locked = sub.is_locked();
            let e = match sub.into_value() {
                Some(v) => {
                    let bytes = scrypto_encode(&v).unwrap();
                    let d = scrypto_decode::<NfData>(&bytes).map(|d| (d.name, d.level)).map_err(|_| format!("{v:?}"));
                    Entry::Data(d, locked)
                }
                None => Entry::Empty(locked),
            };
            s.entries.insert(id, e);
        }
        for v in sim.get_component_vaults(self.a, self.res) {
            if let Some((_, it)) = sim.inspect_non_fungible_vault(v) {
                s.vault.extend(it);
            }
        }
        s.supply = SystemDatabaseReader::new(sim.substate_db())
            .read_typed_object_field::<NonFungibleResourceManagerTotalSupplyFieldPayload>(self.res.as_node_id(), ModuleId::Main, NonFungibleResourceManagerField::TotalSupply.field_index())
            .ok()
            .map(|p| p.fully_update_and_into_latest_version());
        s
    }

    /// id addressed by `slot` in this state (None = op not enabled)
    fn slot_id(&self, st: &St, slot: u8) -> Option<NonFungibleLocalId> {
        match self.kind {
            Kind::Ruid => {
                let all: BTreeSet<&NonFungibleLocalId> = st.scan.entries.keys().chain(st.scan.vault.iter()).collect();
                all.into_iter().nth(slot as usize).cloned()
            }
            _ => self.universe.get(slot as usize).cloned(),
        }
    }

    fn wrong_id(&self, w: u8) -> Option<NonFungibleLocalId> {
        let (t, id) = match w {
            0 => (NonFungibleIdType::Integer, NonFungibleLocalId::integer(1)),
            1 => (NonFungibleIdType::String, NonFungibleLocalId::string("a").unwrap()),
            2 => (NonFungibleIdType::Bytes, NonFungibleLocalId::bytes(vec![1u8]).unwrap()),
            _ => (NonFungibleIdType::RUID, fixed_ruid()),
        };
        if t == self.kind.id_type() {
            None
        } else {
            Some(id)
        }
    }

    fn data(v: u8) -> NfData {
        NfData { name: format!("v{v}"), level: v as u32 }
    }

    fn manifest(&self, st: &St, op: &Op) -> TransactionManifestV1 {
        let b = ManifestBuilder::new().lock_fee_from_faucet();
        let id = |s: u8| self.slot_id(st, s).expect("op enabled only when the slot exists");
        let b = match *op {
            Op::Mint(s, v) => b.mint_non_fungible(self.res, [(id(s), Self::data(v))]).deposit_entire_worktop(self.a),
            Op::MintBoth => b.mint_non_fungible(self.res, [(id(0), Self::data(0)), (id(1), Self::data(0))]).deposit_entire_worktop(self.a),
            Op::MintWrong(w) => b.mint_non_fungible(self.res, [(self.wrong_id(w).unwrap(), Self::data(0))]).deposit_entire_worktop(self.a),
            Op::MintRuid(n) => b.mint_ruid_non_fungible(self.res, (0..n).map(|_| Self::data(0)).collect::<Vec<_>>()).deposit_entire_worktop(self.a),
            Op::MintSingleRuid => b.call_method(self.res, NON_FUNGIBLE_RESOURCE_MANAGER_MINT_SINGLE_RUID_IDENT, (Self::data(1),)).deposit_entire_worktop(self.a),
            Op::MintExplicitRuid => b.mint_non_fungible(self.res, [(fixed_ruid(), Self::data(0))]).deposit_entire_worktop(self.a),
            Op::BurnBucket(s) => b.withdraw_non_fungibles_from_account(self.a, self.res, [id(s)]).burn_all_from_worktop(self.res),
            Op::BurnVault(s) => b.burn_non_fungible_in_account(self.a, NonFungibleGlobalId::new(self.res, id(s))),
            Op::Update(s, f, right) => {
                let field = match f {
                    Field::Level => "level",
                    Field::Name => "name",
                    Field::Foo => "foo",
                };
                // right type for level: u32, for name: String; unknown field: any value
                match (f, right) {
                    (Field::Level, true) | (Field::Name, false) | (Field::Foo, true) => b.update_non_fungible_data(self.res, id(s), field, UPDATED_LEVEL),
                    _ => b.update_non_fungible_data(self.res, id(s), field, "zz".to_string()),
                }
            }
            Op::Get(s) => b.call_method(self.res, NON_FUNGIBLE_RESOURCE_MANAGER_GET_NON_FUNGIBLE_IDENT, (id(s),)),
            Op::Exists(s) => b.call_method(self.res, NON_FUNGIBLE_RESOURCE_MANAGER_EXISTS_IDENT, (id(s),)),
        };
        b.build()
    }

    /// invariants of the statement on the real state vs the model
    fn invariants(&self, scan: &Scan, model: &Model) -> Result<(), (String, String)> {
        let t = self.kind.id_type();
        for id in scan.entries.keys().chain(scan.vault.iter()) {
            if id.id_type() != t {
                return Err(("id-of-wrong-type-present".into(), format!("id {id} of type {:?} exists in a resource with id type {t:?}", id.id_type())));
            }
        }
        if scan.vault != model.live {
            return Err(("live-ids-differ-from-model".into(), format!("ids in the vault {:?}, model live ids {:?}", scan.vault, model.live)));
        }
        for id in &model.live {
            let (name, level) = &model.data[id];
            match scan.entries.get(id) {
                Some(Entry::Data(Ok((n, l)), _)) => {
                    if n != name {
                        return Err(("immutable-field-changed".into(), format!("id {id}: immutable field name is {n:?}, minted as {name:?}")));
                    }
                    if l != level {
                        return Err(("data-differs-from-model".into(), format!("id {id}: level is {l}, model {level}")));
                    }
                }
                other => return Err(("live-id-without-data".into(), format!("id {id} is live but its data entry is {other:?}"))),
            }
        }
        Ok(())
    }
}

fn outputs_of(r: &TransactionReceipt) -> Vec<InstructionOutput> {
    match &r.result {
        TransactionResult::Commit(c) => match &c.outcome {
            TransactionOutcome::Success(o) => o.clone(),
            _ => vec![],
        },
        _ => vec![],
    }
}

impl Machine for NfMachine {
    type Op = Op;
    type St = St;

    fn init(&self) -> St {
        let mut sim = sim_from(&self.root);
        let scan = self.scan(&mut sim);
        St { sim, model: Model::default(), scan, undefined: false }
    }

    fn fork(&self, st: &St) -> Option<St> {
        Some(St { sim: sim_from(&st.sim.create_snapshot()), model: st.model.clone(), scan: st.scan.clone(), undefined: st.undefined })
    }

    fn ops(&self, st: &St, _depth: usize) -> Vec<Op> {
        let mut v = vec![];
        let slots: Vec<u8> = match self.kind {
            Kind::Ruid => (0..2u8).filter(|s| self.slot_id(st, *s).is_some()).collect(),
            _ => (0..self.universe.len() as u8).collect(),
        };
        if self.kind != Kind::Ruid {
            for s in &slots {
                v.push(Op::Mint(*s, 0));
                v.push(Op::Mint(*s, 1));
            }
            v.push(Op::MintBoth);
        }
        for w in 0..4u8 {
            if self.wrong_id(w).is_some() {
                v.push(Op::MintWrong(w));
            }
        }
        v.push(Op::MintRuid(1));
        if self.kind == Kind::Ruid {
            v.push(Op::MintRuid(2));
            v.push(Op::MintExplicitRuid);
        }
        v.push(Op::MintSingleRuid);
        for s in &slots {
            v.push(Op::BurnBucket(*s));
            v.push(Op::BurnVault(*s));
            v.push(Op::Update(*s, Field::Level, true));
            v.push(Op::Update(*s, Field::Level, false));
            v.push(Op::Update(*s, Field::Name, true));
            v.push(Op::Update(*s, Field::Name, false));
            v.push(Op::Update(*s, Field::Foo, true));
            v.push(Op::Get(*s));
            v.push(Op::Exists(*s));
        }
        v
    }

    fn step(&self, st: &mut St, op: &Op) -> Result<String, (String, String)> {
        let manifest = self.manifest(st, op);
        let before = st.scan.clone();
        let receipt = match exec(&mut st.sim, manifest, vec![]) {
            Ok(r) => r,
            Err(p) => return Err((format!("panic@{}", mc_core::last_panic_location()), format!("{op:?} panicked: {p}"))),
        };
        let ok = is_success(&receipt);
        if !ok && !is_commit_failure(&receipt) {
            return Err(("not-committed".into(), format!("{op:?}: {}", receipt_class(&receipt))));
        }
        let fail = failure_text(&receipt);
        let after = self.scan(&mut st.sim);
        let slot = |s: u8| -> NonFungibleLocalId {
            match self.kind {
                Kind::Ruid => {
                    let all: BTreeSet<&NonFungibleLocalId> = before.entries.keys().chain(before.vault.iter()).collect();
                    all.into_iter().nth(s as usize).cloned().expect("slot")
                }
                _ => self.universe[s as usize].clone(),
            }
        };
        let mut undefined = false;
        let m = &mut st.model;
        let must_fail = |why: &str| -> Result<String, (String, String)> {
            if ok {
                Err((format!("should-have-failed:{why}"), format!("{op:?} must fail ({why}) but the engine committed it successfully")))
            } else {
                Ok(format!("rejected:{why}"))
            }
        };
        let should_pass = |what: &str| -> Result<(), (String, String)> {
            if ok {
                Ok(())
            } else {
                Err((format!("unexpected-failure:{what}"), format!("{op:?} is fully defined and must succeed, the engine failed it: {fail}")))
            }
        };
        let class: String = match *op {
            Op::Mint(s, v) => {
                let i = slot(s);
                if m.ever.contains(&i) {
                    must_fail(if m.live.contains(&i) { "mint-of-live-id" } else { "mint-of-burned-id" })?
                } else {
                    should_pass("mint-of-fresh-id")?;
                    m.ever.insert(i.clone());
                    m.live.insert(i.clone());
                    let d = Self::data(v);
                    m.data.insert(i, (d.name, d.level));
                    "minted".into()
                }
            }
            Op::MintBoth => {
                let (i0, i1) = (slot(0), slot(1));
                if m.ever.contains(&i0) || m.ever.contains(&i1) {
                    must_fail("batch-mint-containing-ever-minted-id")?
                } else {
                    should_pass("mint-of-fresh-ids")?;
                    for i in [i0, i1] {
                        m.ever.insert(i.clone());
                        m.live.insert(i.clone());
                        let d = Self::data(0);
                        m.data.insert(i, (d.name, d.level));
                    }
                    "minted-batch".into()
                }
            }
            Op::MintWrong(_) => must_fail("mint-of-wrong-id-type")?,
            Op::MintRuid(_) | Op::MintSingleRuid if self.kind != Kind::Ruid => must_fail("ruid-mint-on-non-ruid-resource")?,
            Op::MintRuid(_) | Op::MintSingleRuid => {
                let n = if let Op::MintRuid(n) = op { *n as usize } else { 1 };
                should_pass("ruid-mint")?;
                let new: BTreeSet<NonFungibleLocalId> = after.vault.difference(&before.vault).cloned().collect();
                if new.len() != n {
                    return Err(("ruid-mint-count".into(), format!("{op:?} produced {} new ids, expected {n}", new.len())));
                }
                for i in &new {
                    if m.ever.contains(i) || before.entries.contains_key(i) {
                        return Err(("ruid-collision".into(), format!("{op:?} produced id {i} which was already minted on this path")));
                    }
                }
                let d = Self::data(if matches!(op, Op::MintSingleRuid) { 1 } else { 0 });
                for i in new {
                    m.ever.insert(i.clone());
                    m.live.insert(i.clone());
                    m.data.insert(i, (d.name.clone(), d.level));
                }
                "minted-ruid".into()
            }
            Op::MintExplicitRuid => {
                let i = fixed_ruid();
                if m.ever.contains(&i) {
                    must_fail("mint-of-ever-minted-id")?
                } else if ok {
                    m.ever.insert(i.clone());
                    m.live.insert(i.clone());
                    let d = Self::data(0);
                    m.data.insert(i, (d.name, d.level));
                    "silent:explicit-ruid-mint-accepted".into()
                } else {
                    "silent:explicit-ruid-mint-rejected".into()
                }
            }
            Op::BurnBucket(s) | Op::BurnVault(s) => {
                let i = slot(s);
                if m.live.contains(&i) {
                    should_pass("burn-of-live-id")?;
                    m.live.remove(&i);
                    m.data.remove(&i);
                    "burned".into()
                } else if ok {
                    return Err(("burn-of-non-live-id-succeeded".into(), format!("{op:?}: id {i} is not live in the model but the burn succeeded")));
                } else {
                    "silent:burn-of-non-live-id-rejected".into()
                }
            }
            Op::Update(s, f, right) => {
                let i = slot(s);
                match f {
                    Field::Name => must_fail("update-of-immutable-field")?,
                    Field::Foo => must_fail("update-of-undeclared-field")?,
                    Field::Level => {
                        if !right {
                            if ok {
                                // a wrongly typed value was stored: outside the statement; the model cannot follow
                                undefined = true;
                                "silent:wrongly-typed-update-accepted".into()
                            } else {
                                "silent:wrongly-typed-update-rejected".into()
                            }
                        } else if m.live.contains(&i) {
                            should_pass("update-of-mutable-field")?;
                            m.data.get_mut(&i).unwrap().1 = UPDATED_LEVEL;
                            "updated".into()
                        } else if ok {
                            return Err(("update-of-non-live-id-succeeded".into(), format!("{op:?}: id {i} is not live in the model but the update succeeded")));
                        } else {
                            "silent:update-of-non-live-id-rejected".into()
                        }
                    }
                }
            }
            Op::Get(s) => {
                let i = slot(s);
                if m.live.contains(&i) {
                    should_pass("get-of-live-id")?;
                    let out = outputs_of(&receipt);
                    let got: Option<NfData> = match out.get(1) {
                        Some(InstructionOutput::CallReturn(b)) => scrypto_decode(b).ok(),
                        _ => None,
                    };
                    let want = &m.data[&i];
                    match got {
                        Some(d) if d.name == want.0 && d.level == want.1 => "get:model-data".into(),
                        Some(d) if d.name != want.0 => return Err(("immutable-field-changed".into(), format!("get of {i} returned name {:?}, minted as {:?}", d.name, want.0))),
                        other => return Err(("data-differs-from-model".into(), format!("get of {i} returned {other:?}, model {want:?}"))),
                    }
                } else if ok {
                    if m.ever.contains(&i) {
                        "silent:get-of-burned-id-answered".into()
                    } else {
                        "silent:get-of-never-minted-id-answered".into()
                    }
                } else {
                    "get:not-found".into()
                }
            }
            Op::Exists(s) => {
                let i = slot(s);
                should_pass("exists-query")?;
                let out = outputs_of(&receipt);
                let got: Option<bool> = match out.get(1) {
                    Some(InstructionOutput::CallReturn(b)) => scrypto_decode(b).ok(),
                    _ => None,
                };
                match (got, m.live.contains(&i)) {
                    (Some(a), b) if a == b => format!("exists:{a}"),
                    (g, b) => format!("silent:exists-answer-{g:?}-model-live-{b}"),
                }
            }
        };
        st.undefined |= undefined;
        if !st.undefined {
            self.invariants(&after, &st.model)?;
        }
        st.scan = after;
        Ok(format!("{}:{class}", op_label(op)))
    }

    fn terminal(&self, st: &St) -> bool {
        st.undefined
    }

    fn fingerprint(&self, st: &St) -> Vec<u8> {
        // the REAL state; for the RUID resource ids are replaced by their rank (ids are random per history)
        let mut s = String::new();
        let all: BTreeSet<&NonFungibleLocalId> = st.scan.entries.keys().chain(st.scan.vault.iter()).collect();
        for (rank, id) in all.into_iter().enumerate() {
            let name = if self.kind == Kind::Ruid { format!("#{rank}") } else { id.to_string() };
            s.push_str(&format!("{name}={:?}/{};", st.scan.entries.get(id), st.scan.vault.contains(id)));
        }
        s.push_str(&format!("supply={:?}", st.scan.supply));
        s.into_bytes()
    }
}

fn op_label(op: &Op) -> &'static str {
    match op {
        Op::Mint(..) => "mint",
        Op::MintBoth => "mint-batch",
        Op::MintWrong(_) => "mint-wrong-type",
        Op::MintRuid(_) => "mint-ruid",
        Op::MintSingleRuid => "mint-single-ruid",
        Op::MintExplicitRuid => "mint-explicit-ruid",
        Op::BurnBucket(_) => "burn-from-bucket",
        Op::BurnVault(_) => "burn-in-vault",
        Op::Update(_, Field::Level, true) => "update-mutable",
        Op::Update(_, Field::Level, false) => "update-mutable-wrong-type",
        Op::Update(_, Field::Name, _) => "update-immutable",
        Op::Update(_, Field::Foo, _) => "update-undeclared",
        Op::Get(_) => "get",
        Op::Exists(_) => "exists",
    }
}

pub fn run(ctx: Ctx) -> ! {
    let w = build_world43();
    if ctx.replay.is_some() {
        replay(ctx, &w);
    }
    // (kind, ids in the universe, max depth, wall cap)
    let plan: Vec<(Kind, usize, usize, f64)> = if ctx.quick() {
        vec![(Kind::Int, 3, 24, 120.0), (Kind::Str, 2, 24, 120.0), (Kind::Ruid, 0, 5, 120.0)]
    } else {
        vec![(Kind::Int, 3, 24, 900.0), (Kind::Str, 3, 24, 900.0), (Kind::Ruid, 0, 8, 1500.0)]
    };
    let mut total = BfsStats::default();
    let mut per = vec![];
    let mut exhaustive = true;
    for (kind, n, depth, cap) in plan {
        let m = NfMachine::new(&w, kind, n);
        let tag = format!("{kind:?}-ids{n}");
        let s = bfs(&ctx, &m, &tag, depth, 5_000_000, cap * crate::seqx::cap_scale());
        let fix = !s.capped && (s.per_depth_states.last() == Some(&0) || s.depth_completed == depth && s.max_depth < depth);
        per.push(json!({"resource": tag, "states": s.states, "transitions": s.transitions, "max_depth": s.max_depth, "depth_bound": depth, "fixpoint_reached": fix, "capped": s.capped, "per_depth_new_states": s.per_depth_states}));
        exhaustive &= !s.capped;
        total.add(&s);
    }
    let mut cov = total.coverage();
    cov.insert("per_resource".into(), json!(per));
    ctx.finish(
        Level::ModelChecking,
        "breadth-first over all histories of mint / burn / update / query transactions per resource on the real engine (fork through ledger snapshots); states de-duplicated by a fingerprint of the real data store, vault and supply; for the explicit-id resources the search runs to the fixpoint (no new state), i.e. all histories of any length over the alphabet are covered; the RUID resource is depth bounded; non-trivial = distinct real states",
        total.states,
        exhaustive,
        cov,
        &[
            "states with equal data-store entries (value, lock flag), vault membership and supply are merged; transaction hashes and fee balances differ only",
            "for the RUID resource, ids are addressed and fingerprinted by rank because their values are derived from the transaction hash",
            "all roles are allow_all: authorisation is C08's subject",
        ],
    )
}

fn parse_op(s: &str) -> Option<Op> {
    let (name, rest) = match s.find('(') {
        Some(i) => (&s[..i], &s[i + 1..s.len() - 1]),
        None => (s, ""),
    };
    let parts: Vec<&str> = rest.split(',').map(|x| x.trim()).filter(|x| !x.is_empty()).collect();
    let n = |i: usize| parts.get(i).and_then(|x| x.parse::<u8>().ok());
    Some(match name {
        "Mint" => Op::Mint(n(0)?, n(1)?),
        "MintBoth" => Op::MintBoth,
        "MintWrong" => Op::MintWrong(n(0)?),
        "MintRuid" => Op::MintRuid(n(0)?),
        "MintSingleRuid" => Op::MintSingleRuid,
        "MintExplicitRuid" => Op::MintExplicitRuid,
        "BurnBucket" => Op::BurnBucket(n(0)?),
        "BurnVault" => Op::BurnVault(n(0)?),
        "Update" => Op::Update(
            n(0)?,
            match *parts.get(1)? {
                "Level" => Field::Level,
                "Name" => Field::Name,
                _ => Field::Foo,
            },
            *parts.get(2)? == "true",
        ),
        "Get" => Op::Get(n(0)?),
        "Exists" => Op::Exists(n(0)?),
        _ => return None,
    })
}

fn replay(ctx: Ctx, w: &World43) -> ! {
    let case: Value = ctx.read_replay_case().unwrap();
    let tag = case.get("base").and_then(|b| b.as_str()).unwrap_or("Int-ids2").to_string();
    let kind = if tag.starts_with("Int") {
        Kind::Int
    } else if tag.starts_with("Str") {
        Kind::Str
    } else {
        Kind::Ruid
    };
    let n = tag.chars().last().and_then(|c| c.to_digit(10)).unwrap_or(2) as usize;
    let m = NfMachine::new(w, kind, n);
    let hist: Vec<Op> = case
        .get("history")
        .and_then(|h| h.as_array())
        .map(|a| a.iter().filter_map(|x| x.as_str().and_then(parse_op)).collect())
        .unwrap_or_else(|| mc_core::machinery_error("replay case has no history"));
    let mut st = m.init();
    for (i, op) in hist.iter().enumerate() {
        match m.step(&mut st, op) {
            Ok(c) => println!("step {i} {op:?}: {c}"),
            Err((k, what)) => {
                println!("step {i} {op:?}: VIOLATION {k}: {what}");
                ctx.violation(k, what, case.clone());
                break;
            }
        }
    }
    println!("real state after replay: {:?}", st.scan);
    ctx.finish(Level::ModelChecking, "replay", 0, false, serde_json::Map::new(), &[])
}
