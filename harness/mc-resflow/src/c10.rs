//! C10 — funds behind a live proof cannot be withdrawn.
//!
//! One transaction = prelude (`withdraw 3 F ; take all` → bucket #0) + one instruction sequence over the alphabet
//! below + a fixed tail. Containers: A's F vault (5 after the prelude; variant with divisibility 2: 5.55), bucket
//! #0 (3 F), A's non-fungible vault {#1,#2,#3}, plus whatever the sequence puts on the worktop. ALL sequences up
//! to the bound are executed on the real engine, extended only when the engine executed every instruction
//! (marker observation, common.rs).
//!
//! Reference (written from the statement): per container `total` and a multiset of locked amounts (ids: lock
//! counts); locked = MAX of the multiset; available = total − locked.
//!  * MustFail: withdraw / burn / recall / take of more than `available` (or of a locked id) from a container;
//!    destroying a container that has a live proof (burning it, depositing it, merging it into another bucket);
//!    a proof of more than the container holds; any amount that is not a multiple of 10^-divisibility.
//!  * MustPass: withdraw / burn / recall / take of x ≤ available with a legal amount ("overlapping proofs lock the
//!    maximum, not the sum"), and the tail: after `DROP_ALL_PROOFS` every bucket can be deposited and the FULL
//!    remaining amount and all remaining ids can be withdrawn again.
//!  * amount queries (`Account.balance`) = liquid + locked = model total; final balances and supplies = model.
//!  * Either (informational): popping an empty auth zone, use of consumed proofs / buckets (C09's subject),
//!    moving a locked bucket onto an empty worktop, zero-size results.
use crate::common::*;
use crate::seqx::*;
use mc_core::{Ctx, Level};
use mc_ledger::*;
use radix_transactions::manifest::*;
use serde_json::{json, Map, Value};
use std::collections::{BTreeMap, BTreeSet};

/// amounts in thousandths
type Milli = i64;

fn dec_of(m: Milli) -> Decimal {
    Decimal::from(m).checked_div(Decimal::from(1000)).unwrap()
}

#[derive(Clone, Copy, Debug, PartialEq, Eq, PartialOrd, Ord, Hash)]
pub enum Op {
    /// Account.create_proof_of_amount(F, milli) → auth zone
    VProof(i64),
    /// Account.create_proof_of_non_fungibles(NF, mask) → auth zone
    NProof(u8),
    /// CREATE_PROOF_FROM_BUCKET_OF_AMOUNT(bucket, milli) → named proof
    BProofAmt(u8, i64),
    /// CREATE_PROOF_FROM_BUCKET_OF_ALL(bucket) → named proof
    BProofAll(u8),
    Clone(u8),
    Drop(u8),
    Push(u8),
    Pop,
    DropAll,
    DropAuthZone,
    DropNamed,
    /// Account.withdraw(F, milli) → worktop
    Withdraw(i64),
    WithdrawNf(u8),
    /// direct vault recall → worktop
    Recall(i64),
    RecallNf(u8),
    /// Account.burn(F, milli)
    VBurn(i64),
    /// BURN_RESOURCE(bucket)
    BurnB(u8),
    /// RETURN_TO_WORKTOP(bucket)
    ReturnB(u8),
    /// TAKE_FROM_WORKTOP(F, milli) → named bucket
    TakeW(i64),
    TakeAllW,
    /// Account.deposit_batch(entire worktop)
    DepositAll,
    /// Account.balance(F)
    AmountV,
}

impl Op {
    fn label(&self) -> &'static str {
        match self {
            Op::VProof(_) => "vault-proof",
            Op::NProof(_) => "vault-proof-ids",
            Op::BProofAmt(..) | Op::BProofAll(_) => "bucket-proof",
            Op::Clone(_) => "clone-proof",
            Op::Drop(_) => "drop-proof",
            Op::Push(_) => "push-proof",
            Op::Pop => "pop-proof",
            Op::DropAll | Op::DropAuthZone | Op::DropNamed => "drop-proofs",
            Op::Withdraw(_) => "withdraw",
            Op::WithdrawNf(_) => "withdraw-ids",
            Op::Recall(_) => "recall",
            Op::RecallNf(_) => "recall-ids",
            Op::VBurn(_) => "vault-burn",
            Op::BurnB(_) => "burn-bucket",
            Op::ReturnB(_) => "return-bucket",
            Op::TakeW(_) | Op::TakeAllW => "take",
            Op::DepositAll => "deposit-batch",
            Op::AmountV => "amount-query",
        }
    }
}

fn mask_set(mask: u8) -> BTreeSet<u64> {
    (0..8).filter(|i| mask & (1 << i) != 0).map(|i| i as u64 + 1).collect()
}
fn mask_ids(mask: u8) -> Vec<NonFungibleLocalId> {
    mask_set(mask).into_iter().map(NonFungibleLocalId::integer).collect()
}

// ------------------------------------------------------------------------------------------------
// reference model
// ------------------------------------------------------------------------------------------------

#[derive(Clone, Debug, PartialEq, Eq)]
struct Cont {
    vault: bool,
    total: Milli,
    /// locked amount → number of live proofs of that amount
    locks: BTreeMap<Milli, u32>,
    alive: bool,
}

impl Cont {
    fn locked(&self) -> Milli {
        self.locks.keys().next_back().copied().unwrap_or(0)
    }
    fn available(&self) -> Milli {
        self.total - self.locked()
    }
    fn is_locked(&self) -> bool {
        !self.locks.is_empty()
    }
}

#[derive(Clone, Debug, PartialEq, Eq)]
enum ProofM {
    /// (container, amount)
    Amount(usize, Milli),
    /// ids of the non-fungible vault
    Ids(BTreeSet<u64>),
}

#[derive(Clone, Debug)]
pub struct Model {
    div_step: Milli,
    conts: Vec<Cont>,
    /// non-fungible vault
    nf_vault: BTreeSet<u64>,
    nf_locks: BTreeMap<u64, u32>,
    /// non-fungibles on the worktop (never locked: no proof can be made of them in this alphabet)
    nf_wt: BTreeSet<u64>,
    wt_f: Option<usize>,
    named_buckets: Vec<Option<usize>>,
    named_proofs: Vec<Option<ProofM>>,
    auth_zone: Vec<ProofM>,
    burned: Milli,
    initial_total: Milli,
}

const VAULT: usize = 0;

impl Model {
    fn new(vault_after_prelude: Milli, div_step: Milli) -> Model {
        Model {
            div_step,
            conts: vec![
                Cont { vault: true, total: vault_after_prelude, locks: BTreeMap::new(), alive: true },
                Cont { vault: false, total: 3000, locks: BTreeMap::new(), alive: true },
            ],
            nf_vault: [1u64, 2, 3].into_iter().collect(),
            nf_locks: BTreeMap::new(),
            nf_wt: BTreeSet::new(),
            wt_f: None,
            named_buckets: vec![Some(1)],
            named_proofs: vec![],
            auth_zone: vec![],
            burned: 0,
            initial_total: vault_after_prelude + 3000,
        }
    }
    fn legal(&self, a: Milli) -> bool {
        a % self.div_step == 0
    }
    fn lock(&mut self, p: &ProofM) {
        match p {
            ProofM::Amount(c, a) => *self.conts[*c].locks.entry(*a).or_insert(0) += 1,
            ProofM::Ids(s) => {
                for i in s {
                    *self.nf_locks.entry(*i).or_insert(0) += 1;
                }
            }
        }
    }
    fn unlock(&mut self, p: &ProofM) {
        match p {
            ProofM::Amount(c, a) => {
                let n = self.conts[*c].locks.get_mut(a).expect("model: unlock of unknown lock");
                *n -= 1;
                if *n == 0 {
                    self.conts[*c].locks.remove(a);
                }
            }
            ProofM::Ids(s) => {
                for i in s {
                    let n = self.nf_locks.get_mut(i).expect("model: unlock of unknown id lock");
                    *n -= 1;
                    if *n == 0 {
                        self.nf_locks.remove(i);
                    }
                }
            }
        }
    }
    fn new_cont(&mut self, total: Milli) -> usize {
        self.conts.push(Cont { vault: false, total, locks: BTreeMap::new(), alive: true });
        self.conts.len() - 1
    }
    /// an unlocked fresh bucket (from withdraw / recall) lands on the worktop
    fn put_fresh(&mut self, amount: Milli) {
        if amount == 0 {
            return;
        }
        match self.wt_f {
            Some(e) => self.conts[e].total += amount,
            None => {
                let c = self.new_cont(amount);
                self.wt_f = Some(c);
            }
        }
    }
    /// take `a` out of a container (vault or bucket) by withdraw / recall / burn / take
    fn take_from(&mut self, c: usize, a: Milli, what_locked: &'static str) -> Result<(), Expect> {
        if !self.legal(a) {
            return Err(Expect::MustFail("amount-violates-divisibility"));
        }
        if a > self.conts[c].total {
            return Err(Expect::MustFail("more-than-container-holds"));
        }
        if a > self.conts[c].available() {
            return Err(Expect::MustFail(what_locked));
        }
        self.conts[c].total -= a;
        Ok(())
    }

    fn apply(&mut self, op: &Op) -> Expect {
        match *op {
            Op::VProof(a) => {
                if !self.legal(a) {
                    return Expect::MustFail("amount-violates-divisibility");
                }
                if a > self.conts[VAULT].total {
                    return Expect::MustFail("proof-of-more-than-container-holds");
                }
                let p = ProofM::Amount(VAULT, a);
                self.lock(&p);
                self.auth_zone.push(p);
                Expect::ShouldPass
            }
            Op::NProof(m) => {
                let s = mask_set(m);
                if !s.is_subset(&self.nf_vault) {
                    return Expect::MustFail("proof-of-absent-id");
                }
                let p = ProofM::Ids(s);
                self.lock(&p);
                self.auth_zone.push(p);
                Expect::ShouldPass
            }
            Op::BProofAmt(b, _) | Op::BProofAll(b) => {
                let Some(c) = self.named_buckets.get(b as usize).copied().flatten() else { return Expect::Either("use-of-consumed-bucket", false) };
                let a = match *op {
                    Op::BProofAmt(_, a) => a,
                    _ => self.conts[c].total,
                };
                if !self.legal(a) {
                    return Expect::MustFail("amount-violates-divisibility");
                }
                if a > self.conts[c].total {
                    return Expect::MustFail("proof-of-more-than-container-holds");
                }
                if a == 0 {
                    return Expect::Either("proof-of-zero-amount", false);
                }
                let p = ProofM::Amount(c, a);
                self.lock(&p);
                self.named_proofs.push(Some(p));
                Expect::ShouldPass
            }
            Op::Clone(p) => {
                let Some(pm) = self.named_proofs.get(p as usize).cloned().flatten() else { return Expect::Either("use-of-consumed-proof", false) };
                self.lock(&pm);
                self.named_proofs.push(Some(pm));
                Expect::ShouldPass
            }
            Op::Drop(p) => {
                let Some(pm) = self.named_proofs.get(p as usize).cloned().flatten() else { return Expect::Either("use-of-consumed-proof", false) };
                self.named_proofs[p as usize] = None;
                self.unlock(&pm);
                Expect::ShouldPass
            }
            Op::Push(p) => {
                let Some(pm) = self.named_proofs.get(p as usize).cloned().flatten() else { return Expect::Either("use-of-consumed-proof", false) };
                self.named_proofs[p as usize] = None;
                self.auth_zone.push(pm);
                Expect::ShouldPass
            }
            Op::Pop => match self.auth_zone.pop() {
                Some(pm) => {
                    self.named_proofs.push(Some(pm));
                    Expect::ShouldPass
                }
                None => Expect::Either("pop-from-empty-auth-zone", false),
            },
            Op::DropAll | Op::DropAuthZone | Op::DropNamed => {
                if !matches!(op, Op::DropNamed) {
                    for pm in std::mem::take(&mut self.auth_zone) {
                        self.unlock(&pm);
                    }
                }
                if !matches!(op, Op::DropAuthZone) {
                    for i in 0..self.named_proofs.len() {
                        if let Some(pm) = self.named_proofs[i].take() {
                            self.unlock(&pm);
                        }
                    }
                }
                Expect::ShouldPass
            }
            Op::Withdraw(a) | Op::Recall(a) => {
                if let Err(e) = self.take_from(VAULT, a, "withdraw-of-locked-funds") {
                    return e;
                }
                self.put_fresh(a);
                Expect::MustPass
            }
            Op::VBurn(a) => {
                if let Err(e) = self.take_from(VAULT, a, "burn-of-locked-funds") {
                    return e;
                }
                self.burned += a;
                Expect::MustPass
            }
            Op::WithdrawNf(m) | Op::RecallNf(m) => {
                let s = mask_set(m);
                if !s.is_subset(&self.nf_vault) {
                    return Expect::MustFail("absent-id");
                }
                if s.iter().any(|i| self.nf_locks.contains_key(i)) {
                    return Expect::MustFail("withdraw-of-locked-id");
                }
                for i in &s {
                    self.nf_vault.remove(i);
                }
                self.nf_wt.extend(s);
                Expect::MustPass
            }
            Op::BurnB(b) => {
                let Some(c) = self.named_buckets.get(b as usize).copied().flatten() else { return Expect::Either("use-of-consumed-bucket", false) };
                self.named_buckets[b as usize] = None;
                if self.conts[c].is_locked() {
                    return Expect::MustFail("burn-of-locked-funds");
                }
                let empty = self.conts[c].total == 0;
                self.burned += self.conts[c].total;
                self.conts[c].total = 0;
                self.conts[c].alive = false;
                if empty {
                    Expect::Either("burn-empty-bucket", true)
                } else {
                    Expect::MustPass
                }
            }
            Op::ReturnB(b) => {
                let Some(c) = self.named_buckets.get(b as usize).copied().flatten() else { return Expect::Either("use-of-consumed-bucket", false) };
                self.named_buckets[b as usize] = None;
                if self.conts[c].total == 0 {
                    self.conts[c].alive = false;
                    return Expect::Either("return-empty-bucket", true);
                }
                match self.wt_f {
                    None => {
                        self.wt_f = Some(c);
                        if self.conts[c].is_locked() {
                            Expect::Either("locked-bucket-moved-onto-worktop", true)
                        } else {
                            Expect::ShouldPass
                        }
                    }
                    Some(e) => {
                        if self.conts[c].is_locked() {
                            return Expect::MustFail("locked-bucket-merged-away");
                        }
                        self.conts[e].total += self.conts[c].total;
                        self.conts[c].total = 0;
                        self.conts[c].alive = false;
                        Expect::ShouldPass
                    }
                }
            }
            Op::TakeW(a) => {
                if a == 0 {
                    return Expect::Either("take-zero-amount", false);
                }
                let Some(e) = self.wt_f else { return Expect::MustFail("more-than-container-holds") };
                if !self.legal(a) {
                    // the whole-bucket move does not look at divisibility; statement silent for that corner
                    if a == self.conts[e].total {
                        return Expect::Either("illegal-amount-equal-to-whole-bucket", false);
                    }
                    return Expect::MustFail("amount-violates-divisibility");
                }
                if a > self.conts[e].total {
                    return Expect::MustFail("more-than-container-holds");
                }
                if a == self.conts[e].total {
                    // the whole container is handed over, locks stay with it
                    self.wt_f = None;
                    self.named_buckets.push(Some(e));
                    return if self.conts[e].is_locked() { Expect::Either("whole-locked-bucket-taken-from-worktop", true) } else { Expect::MustPass };
                }
                if a > self.conts[e].available() {
                    return Expect::MustFail("take-of-locked-funds");
                }
                self.conts[e].total -= a;
                let c = self.new_cont(a);
                self.named_buckets.push(Some(c));
                Expect::MustPass
            }
            Op::TakeAllW => match self.wt_f.take() {
                Some(e) => {
                    self.named_buckets.push(Some(e));
                    if self.conts[e].is_locked() {
                        Expect::Either("whole-locked-bucket-taken-from-worktop", true)
                    } else {
                        Expect::ShouldPass
                    }
                }
                None => {
                    let c = self.new_cont(0);
                    self.named_buckets.push(Some(c));
                    Expect::Either("take-all-of-absent-resource", true)
                }
            },
            Op::DepositAll => {
                if let Some(e) = self.wt_f {
                    if self.conts[e].is_locked() {
                        return Expect::MustFail("locked-bucket-merged-away");
                    }
                    self.wt_f = None;
                    self.conts[VAULT].total += self.conts[e].total;
                    self.conts[e].total = 0;
                    self.conts[e].alive = false;
                }
                let ids = std::mem::take(&mut self.nf_wt);
                self.nf_vault.extend(ids);
                Expect::ShouldPass
            }
            Op::AmountV => Expect::ShouldPass,
        }
    }

    fn sane(&self) -> bool {
        let f: Milli = self.conts.iter().map(|c| c.total).sum::<Milli>() + self.burned;
        let mut ids: Vec<u64> = self.nf_vault.iter().chain(self.nf_wt.iter()).copied().collect();
        ids.sort();
        // every lock is backed by exactly the live proofs
        let mut expect_locks: BTreeMap<(usize, Milli), u32> = BTreeMap::new();
        let mut expect_ids: BTreeMap<u64, u32> = BTreeMap::new();
        for p in self.auth_zone.iter().chain(self.named_proofs.iter().flatten()) {
            match p {
                ProofM::Amount(c, a) => *expect_locks.entry((*c, *a)).or_insert(0) += 1,
                ProofM::Ids(s) => {
                    for i in s {
                        *expect_ids.entry(*i).or_insert(0) += 1;
                    }
                }
            }
        }
        let mut have: BTreeMap<(usize, Milli), u32> = BTreeMap::new();
        for (i, c) in self.conts.iter().enumerate() {
            for (a, n) in &c.locks {
                have.insert((i, *a), *n);
            }
            if c.locked() > c.total {
                return false;
            }
        }
        f == self.initial_total && ids == vec![1, 2, 3] && have == expect_locks && expect_ids == self.nf_locks
    }

    /// the vault's total when queried (liquid + locked)
    fn vault_total(&self) -> Milli {
        self.conts[VAULT].total
    }
    /// what A holds after the tail ran (everything deposited)
    fn final_f(&self) -> Milli {
        self.initial_total - self.burned
    }
}

// ------------------------------------------------------------------------------------------------
// specification for the explorer
// ------------------------------------------------------------------------------------------------

#[derive(Clone, Copy, Debug, PartialEq, Eq)]
pub enum Alpha {
    Full,
    Core,
}

pub struct Spec {
    snap: Snap,
    w: RWorld,
    f_vault: NodeId,
    nf_vault: NodeId,
    /// vault balance after the prelude
    vault0: Milli,
    div_step: Milli,
    alpha: Alpha,
    /// operations executed as part of the fixed prelude (exploration from a non-initial state: the model is
    /// advanced through them, so it knows the live proofs); empty for the exploration from the initial state
    pre_ops: Vec<Op>,
    /// add the boundary amounts of the current state (available = total − max(locked), and one unit more) to the
    /// withdraw / recall / take operations
    boundary: bool,
}

/// Non-initial start states: three live locks on one container (vault, bucket in hand, bucket on the worktop).
/// Named proofs after the prelude: #0, #1, #2 (see each shape); the auth zone is empty.
fn pre_shape(name: &str) -> Option<Vec<Op>> {
    Some(match name {
        // vault proofs of 5, 2, 1 popped back: #0 = 1, #1 = 2, #2 = 5
        "vault-1-2-5" => vec![Op::VProof(5000), Op::VProof(2000), Op::VProof(1000), Op::Pop, Op::Pop, Op::Pop],
        // vault proof of 2 and its clone next to a proof of 5: #0 = 2, #1 = 2 (clone), #2 = 5
        "vault-2-2c-5" => vec![Op::VProof(2000), Op::Pop, Op::Clone(0), Op::VProof(5000), Op::Pop],
        // bucket #0 (3 F) with proofs of 1, 2 and all
        "bucket-1-2-3" => vec![Op::BProofAmt(0, 1000), Op::BProofAmt(0, 2000), Op::BProofAll(0)],
        // bucket #0 with a proof of 1, its clone and a proof of all
        "bucket-1-1c-3" => vec![Op::BProofAmt(0, 1000), Op::Clone(0), Op::BProofAll(0)],
        // the same two, with the locked bucket put on the (empty) worktop
        "wtbucket-1-2-3" => vec![Op::BProofAmt(0, 1000), Op::BProofAmt(0, 2000), Op::BProofAll(0), Op::ReturnB(0)],
        "wtbucket-1-1c-3" => vec![Op::BProofAmt(0, 1000), Op::Clone(0), Op::BProofAll(0), Op::ReturnB(0)],
        _ => return None,
    })
}

impl Spec {
    fn with_prelude(shape: &str) -> Spec {
        let mut s = Spec::new(2, Alpha::Full);
        s.pre_ops = pre_shape(shape).unwrap_or_else(|| mc_core::machinery_error(&format!("C10: unknown prelude shape {shape}")));
        s.boundary = true;
        // the prelude itself must be executed by the engine and accepted by the model
        let mut m = Model::new(s.vault0, s.div_step);
        for op in &s.pre_ops {
            if let Expect::MustFail(r) = m.apply(op) {
                mc_core::machinery_error(&format!("C10: prelude {shape} is rejected by the model at {op:?}: {r}"));
            }
        }
        let mut sim = psim_from(&s.snap);
        match run_marked(&mut sim, &s.w, s.prelude(), s.tail(&m)) {
            Ok(o) if o.reached_marker && o.success => {}
            Ok(o) => {
                // not a machinery error: the engine refusing (part of) a legal prelude is a finding about the engine
                eprintln!("C10: prelude {shape} was not executed cleanly by the engine: marker={} success={} {}", o.reached_marker, o.success, o.failure);
            }
            Err(p) => eprintln!("C10: prelude {shape} panicked: {p}"),
        }
        s
    }

    fn new(divisibility: u8, alpha: Alpha) -> Spec {
        let (vault0, div_step, total) = match divisibility {
            2 => (5550, 10, dec!("8.55")),
            18 => (5000, 1, dec!(8)),
            _ => unreachable!(),
        };
        let (snap, w) = build_rworld(total, divisibility, &[1, 2, 3]);
        let mut sim = psim_from(&snap);
        let f_vault = sim.get_component_vaults(w.a, w.f)[0];
        let nf_vault = sim.get_component_vaults(w.a, w.nf)[0];
        Spec { snap, w, f_vault, nf_vault, vault0, div_step, alpha, pre_ops: vec![], boundary: false }
    }
}

impl SeqSpec for Spec {
    type Op = Op;
    type Model = Model;
    fn world(&self) -> (&Snap, &RWorld) {
        (&self.snap, &self.w)
    }
    fn init(&self) -> Model {
        let mut m = Model::new(self.vault0, self.div_step);
        for op in &self.pre_ops {
            m.apply(op);
        }
        m
    }
    fn ops(&self, m: &Model) -> Vec<Op> {
        let full = self.alpha == Alpha::Full;
        let mut v = vec![];
        if full {
            v.extend([Op::VProof(1000), Op::VProof(2000), Op::VProof(5000), Op::VProof(6000), Op::VProof(1), Op::NProof(0b001), Op::NProof(0b011)]);
        } else {
            v.extend([Op::VProof(2000), Op::VProof(5000), Op::NProof(0b011)]);
        }
        for (b, c) in m.named_buckets.iter().enumerate() {
            let b = b as u8;
            if c.is_some() {
                v.push(Op::BProofAmt(b, 1000));
                if full {
                    v.push(Op::BProofAmt(b, 3000));
                }
                v.push(Op::BProofAll(b));
                v.push(Op::BurnB(b));
                v.push(Op::ReturnB(b));
            } else if full {
                v.push(Op::ReturnB(b)); // consumed: one representative
            }
        }
        for (p, pm) in m.named_proofs.iter().enumerate() {
            let p = p as u8;
            if pm.is_some() {
                v.push(Op::Clone(p));
                v.push(Op::Drop(p));
                v.push(Op::Push(p));
            } else if full {
                v.push(Op::Drop(p)); // consumed: one representative
            }
        }
        v.push(Op::Pop);
        v.push(Op::DropAll);
        if full {
            v.push(Op::DropAuthZone);
            v.push(Op::DropNamed);
            v.extend([Op::Withdraw(1000), Op::Withdraw(3000), Op::Withdraw(4000), Op::Withdraw(5000), Op::Withdraw(1)]);
            v.extend([Op::WithdrawNf(0b001), Op::WithdrawNf(0b100), Op::WithdrawNf(0b111)]);
            v.extend([Op::Recall(1000), Op::Recall(5000), Op::RecallNf(0b001)]);
            v.extend([Op::VBurn(1000), Op::VBurn(5000)]);
            v.extend([Op::TakeW(1000), Op::TakeW(3000), Op::TakeAllW]);
        } else {
            v.extend([Op::Withdraw(3000), Op::Withdraw(4000), Op::WithdrawNf(0b001), Op::Recall(4000), Op::TakeW(1000)]);
        }
        if self.boundary {
            // boundary amounts of THIS state: exactly what is available, and the smallest unit more
            let va = m.conts[VAULT].available();
            for op in [Op::Withdraw(va), Op::Withdraw(va + self.div_step), Op::Recall(va + self.div_step), Op::VBurn(va + self.div_step)] {
                let a = match op {
                    Op::Withdraw(a) | Op::Recall(a) | Op::VBurn(a) => a,
                    _ => 0,
                };
                if a > 0 && !v.contains(&op) {
                    v.push(op);
                }
            }
            if let Some(e) = m.wt_f {
                let ea = m.conts[e].available();
                for op in [Op::TakeW(ea), Op::TakeW(ea + self.div_step)] {
                    if let Op::TakeW(a) = op {
                        if a > 0 && !v.contains(&op) {
                            v.push(op);
                        }
                    }
                }
            }
        }
        v.push(Op::DepositAll);
        v.push(Op::AmountV);
        v
    }
    fn label(&self, op: &Op) -> &'static str {
        op.label()
    }
    fn apply(&self, m: &mut Model, op: &Op) -> Expect {
        m.apply(op)
    }
    fn model_sane(&self, m: &Model) -> bool {
        m.sane()
    }
    fn prelude(&self) -> Vec<InstructionV1> {
        let mut p = vec![
            call_method(self.w.a, "withdraw", &(self.w.f, dec!(3))),
            InstructionV1::TakeAllFromWorktop(TakeAllFromWorktop { resource_address: self.w.f }),
        ];
        p.extend(self.pre_ops.iter().map(|o| self.instruction(o)));
        p
    }
    fn instruction(&self, op: &Op) -> InstructionV1 {
        let w = &self.w;
        let b = |i: u8| ManifestBucket(i as u32);
        let p = |i: u8| ManifestProof(i as u32);
        match *op {
            Op::VProof(a) => call_method(w.a, "create_proof_of_amount", &(w.f, dec_of(a))),
            Op::NProof(m) => call_method(w.a, "create_proof_of_non_fungibles", &(w.nf, mask_ids(m))),
            Op::BProofAmt(i, a) => InstructionV1::CreateProofFromBucketOfAmount(CreateProofFromBucketOfAmount { bucket_id: b(i), amount: dec_of(a) }),
            Op::BProofAll(i) => InstructionV1::CreateProofFromBucketOfAll(CreateProofFromBucketOfAll { bucket_id: b(i) }),
            Op::Clone(i) => InstructionV1::CloneProof(CloneProof { proof_id: p(i) }),
            Op::Drop(i) => InstructionV1::DropProof(DropProof { proof_id: p(i) }),
            Op::Push(i) => InstructionV1::PushToAuthZone(PushToAuthZone { proof_id: p(i) }),
            Op::Pop => InstructionV1::PopFromAuthZone(PopFromAuthZone),
            Op::DropAll => InstructionV1::DropAllProofs(DropAllProofs),
            Op::DropAuthZone => InstructionV1::DropAuthZoneProofs(DropAuthZoneProofs),
            Op::DropNamed => InstructionV1::DropNamedProofs(DropNamedProofs),
            Op::Withdraw(a) => call_method(w.a, "withdraw", &(w.f, dec_of(a))),
            Op::WithdrawNf(m) => call_method(w.a, "withdraw_non_fungibles", &(w.nf, mask_ids(m))),
            Op::Recall(a) => call_vault(self.f_vault, "recall", &(dec_of(a),)),
            Op::RecallNf(m) => call_vault(self.nf_vault, "recall_non_fungibles", &(mask_ids(m),)),
            Op::VBurn(a) => call_method(w.a, "burn", &(w.f, dec_of(a))),
            Op::BurnB(i) => InstructionV1::BurnResource(BurnResource { bucket_id: b(i) }),
            Op::ReturnB(i) => InstructionV1::ReturnToWorktop(ReturnToWorktop { bucket_id: b(i) }),
            Op::TakeW(a) => InstructionV1::TakeFromWorktop(TakeFromWorktop { resource_address: w.f, amount: dec_of(a) }),
            Op::TakeAllW => InstructionV1::TakeAllFromWorktop(TakeAllFromWorktop { resource_address: w.f }),
            Op::DepositAll => call_method(w.a, "deposit_batch", &(ManifestExpression::EntireWorktop,)),
            Op::AmountV => call_method(w.a, "balance", &(w.f,)),
        }
    }
    /// drop every proof, put every live bucket back on the worktop, then demand that the FULL amount and all ids
    /// the vaults hold can be withdrawn, and deposit everything so that the final balances can be read
    fn tail(&self, m: &Model) -> Vec<InstructionV1> {
        let w = &self.w;
        let mut t = vec![InstructionV1::DropAllProofs(DropAllProofs)];
        for (b, c) in m.named_buckets.iter().enumerate() {
            if c.is_some() {
                t.push(InstructionV1::ReturnToWorktop(ReturnToWorktop { bucket_id: ManifestBucket(b as u32) }));
            }
        }
        t.push(call_method(w.a, "withdraw", &(w.f, dec_of(m.vault_total()))));
        let ids: Vec<NonFungibleLocalId> = m.nf_vault.iter().map(|i| NonFungibleLocalId::integer(*i)).collect();
        t.push(call_method(w.a, "withdraw_non_fungibles", &(w.nf, ids)));
        t.push(call_method(w.a, "deposit_batch", &(ManifestExpression::EntireWorktop,)));
        t
    }
    fn end(&self, _m: &Model) -> Expect {
        Expect::MustPass
    }
    fn check_success(&self, sim: &mut PSim, m: &Model, seq: &[Op], outputs: &[InstructionOutput], first: usize) -> Result<Value, (String, String)> {
        let w = &self.w;
        // amount queries: replay the model along the sequence to know the expected total at each query
        let mut mm = self.init();
        for (i, op) in seq.iter().enumerate() {
            mm.apply(op);
            if let Op::AmountV = op {
                let got: Option<Decimal> = match outputs.get(first + i) {
                    Some(InstructionOutput::CallReturn(bytes)) => scrypto_decode(bytes).ok(),
                    _ => None,
                };
                let want = dec_of(mm.vault_total());
                if got != Some(want) {
                    return Err(("amount-query-differs".into(), format!("amount query #{i} returned {got:?}, model total (liquid + locked) = {want}")));
                }
            }
        }
        let bf = sim.get_component_balance(w.a, w.f);
        let bids = nf_ids_of(sim, w.a, w.nf);
        let sf = sim.get_fungible_resource_total_supply(w.f);
        let want = dec_of(m.final_f());
        let all: BTreeSet<u64> = [1u64, 2, 3].into_iter().collect();
        if bf != want || sf != want || bids != all {
            return Err(("final-balances-differ".into(), format!("after the transaction A holds {bf} F (supply {sf}), ids {bids:?}; model: {want} and {all:?}")));
        }
        Ok(json!({"A_f": bf.to_string(), "supply": sf.to_string()}))
    }
    fn parse_op(&self, s: &str) -> Option<Op> {
        let (name, a) = split_op(s);
        let a0 = a.first().copied();
        let a1 = a.get(1).copied();
        Some(match (name, a0, a1) {
            ("VProof", Some(x), _) => Op::VProof(x),
            ("NProof", Some(x), _) => Op::NProof(x as u8),
            ("BProofAmt", Some(b), Some(x)) => Op::BProofAmt(b as u8, x),
            ("BProofAll", Some(b), _) => Op::BProofAll(b as u8),
            ("Clone", Some(x), _) => Op::Clone(x as u8),
            ("Drop", Some(x), _) => Op::Drop(x as u8),
            ("Push", Some(x), _) => Op::Push(x as u8),
            ("Pop", None, _) => Op::Pop,
            ("DropAll", None, _) => Op::DropAll,
            ("DropAuthZone", None, _) => Op::DropAuthZone,
            ("DropNamed", None, _) => Op::DropNamed,
            ("Withdraw", Some(x), _) => Op::Withdraw(x),
            ("WithdrawNf", Some(x), _) => Op::WithdrawNf(x as u8),
            ("Recall", Some(x), _) => Op::Recall(x),
            ("RecallNf", Some(x), _) => Op::RecallNf(x as u8),
            ("VBurn", Some(x), _) => Op::VBurn(x),
            ("BurnB", Some(x), _) => Op::BurnB(x as u8),
            ("ReturnB", Some(x), _) => Op::ReturnB(x as u8),
            ("TakeW", Some(x), _) => Op::TakeW(x),
            ("TakeAllW", None, _) => Op::TakeAllW,
            ("DepositAll", None, _) => Op::DepositAll,
            ("AmountV", None, _) => Op::AmountV,
            _ => return None,
        })
    }
}

fn variant(tag: &str) -> (u8, Alpha) {
    let div = if tag.contains("div2") { 2 } else { 18 };
    let alpha = if tag.starts_with("core") { Alpha::Core } else { Alpha::Full };
    (div, alpha)
}

/// tags: `full-div2`, `full-div18`, `core-div2` (from the initial state) and `from:<shape>` (non-initial state,
/// full alphabet + boundary amounts, divisibility-2 world)
fn spec_for(tag: &str) -> Spec {
    match tag.strip_prefix("from:") {
        Some(shape) => Spec::with_prelude(shape),
        None => {
            let (d, a) = variant(tag);
            Spec::new(d, a)
        }
    }
}

pub fn run(ctx: Ctx) -> ! {
    if let Some(case) = ctx.read_replay_case() {
        let tag = case.get("variant").and_then(|v| v.as_str()).unwrap_or("full-div2").to_string();
        let spec = spec_for(&tag);
        replay(&ctx, &spec, &tag, &case);
        ctx.finish(Level::ModelChecking, "replay", 0, false, Map::new(), &[]);
    }
    if std::env::var("VERIF_COUNT").is_ok() {
        for tag in ["from:vault-1-2-5", "from:vault-2-2c-5", "from:bucket-1-2-3", "from:bucket-1-1c-3", "from:wtbucket-1-2-3", "from:wtbucket-1-1c-3"] {
            println!("{tag}:");
            count_only(&spec_for(tag), 3);
        }
        std::process::exit(2);
    }
    // (variant, length, wall cap)
    let plan: Vec<(&str, usize, f64)> = if ctx.quick() {
        vec![
            ("from:vault-1-2-5", 2, 15.0),
            ("from:vault-2-2c-5", 2, 15.0),
            ("from:wtbucket-1-2-3", 2, 15.0),
            ("from:wtbucket-1-1c-3", 2, 15.0),
            ("from:bucket-1-2-3", 2, 15.0),
            ("full-div2", 3, 60.0),
            ("full-div18", 2, 20.0),
            ("core-div2", 4, 60.0),
        ]
    } else {
        vec![
            ("from:vault-1-2-5", 3, 300.0),
            ("from:vault-2-2c-5", 3, 300.0),
            ("from:bucket-1-2-3", 3, 300.0),
            ("from:bucket-1-1c-3", 3, 300.0),
            ("from:wtbucket-1-2-3", 3, 300.0),
            ("from:wtbucket-1-1c-3", 3, 300.0),
            ("full-div2", 4, 900.0),
            ("full-div18", 3, 300.0),
            ("core-div2", 5, 900.0),
        ]
    };
    // development aid: VERIF_ONLY=<prefix> restricts the plan to the variants whose tag starts with the prefix
    let only = std::env::var("VERIF_ONLY").ok();
    let plan: Vec<(&str, usize, f64)> = plan.into_iter().filter(|p| only.as_ref().map(|o| p.0.starts_with(o.as_str())).unwrap_or(true)).collect();
    let mut cov = Map::new();
    if let Some(o) = &only {
        cov.insert("restricted_to".into(), json!(o));
    }
    let (mut executed, mut nontrivial, mut capped) = (0, 0, false);
    let mut bounds = vec![];
    for (i, (tag, len, cap)) in plan.into_iter().enumerate() {
        let spec = spec_for(tag);
        let st = explore(&ctx, &spec, i, tag, len, ctx.elapsed_s() + cap * cap_scale(), &mut cov);
        executed += st.executed;
        nontrivial += st.nontrivial;
        capped |= st.capped;
        bounds.push(format!("{tag}: all sequences of length <= {}{}", st.completed, if st.capped { " (wall cap hit before the planned bound)" } else { "" }));
    }
    cov.insert("states".into(), json!(nontrivial));
    cov.insert("transitions".into(), json!(executed));
    cov.insert("traces_validated_against_impl".into(), json!(executed));
    cov.insert("bounds".into(), json!(bounds));
    cov.insert("caps_hit".into(), json!(capped));
    let (r, x, c, n) = profile();
    let cpu = process_cpu_s();
    cov.insert("mean_us_per_transaction".into(), json!({"snapshot_restore": r, "execute": x, "post_checks": c, "transactions": n, "process_cpu_s": cpu, "cpu_ms_per_transaction": cpu * 1000.0 / n as f64}));
    println!("PROFILE mean wall us/tx: restore={r} execute={x} post={c} n={n}; process cpu {cpu:.0} s = {:.2} ms cpu/tx", cpu * 1000.0 / n as f64);
    ctx.finish(
        Level::ModelChecking,
        "every instruction sequence up to the bound over the alphabet (after the fixed prelude that creates a 3 F bucket) is executed as one transaction on the real engine from the same snapshot, followed by the fixed tail (drop all proofs, deposit everything, withdraw the full amount and all ids again); a sequence is extended only if the engine executed all its instructions (marker fee lock observed in the receipt); non-trivial = sequences whose instructions all executed",
        nontrivial,
        !capped,
        cov,
        &[
            "account A and the marker account have owner rule allow_all so that DROP_ALL_PROOFS cannot remove authority",
            "proofs composed by the auth zone (CREATE_PROOF_FROM_AUTH_ZONE_*) are not in the alphabet",
            "bucket and proof arguments range over all live named objects plus one representative instruction per consumed object",
            "`from:<shape>` explorations start from a non-initial state reached by a fixed prelude (three live locks on one vault / bucket); the reference model is advanced through the same prelude",
        ],
    )
}
