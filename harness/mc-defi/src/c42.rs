//! C42 — validator staking and emissions never create value.
//!
//! Explicit-state exploration of histories of validator operations (stake by delegator / by owner,
//! unstake, claim, register / unregister, fee changes, delegation flag, owner stake-unit locking, round
//! changes with missed-proposal patterns = epoch changes) on the real engine, from a custom genesis:
//! 13 validators (3 actors around 300k XRD + 10 fillers in the lowest 100k-XRD index bucket), active set
//! size 2 (so selection matters and the sorted stake index is really consulted: it is read for
//! 2 + 2/10 + 10 = 12 < 13 entries), 1 round per epoch, unstake delay 2 epochs, emission E per epoch,
//! minimal reliability 0.4 (so that missed proposals give fractional reliability factors).
//! The root of the exploration is the state after a fixed prefix [unstake 1000 units of V0, epoch change],
//! so that stake : unit ratios are not 1 and a claim NFT is about to mature.
//!
//! Exact BigInt / rational oracle, per transition:
//! * stake: units minted ≤ a · supply / stake (exactly a when the validator is empty), XRD moves 1:1 into
//!   the stake vault; then, on a fork, the new units are unstaked at once: claim amount ≤ a;
//! * unstake: the claim NFT's amount ≤ units · stake / supply, stake vault → pending vault exactly;
//! * claim: pays ≤ the NFT's amount and ≤ the exact share fixed at unstake time;
//! * epoch change: XRD minted (Σ XRD mint events, cross-checked against the stake vaults) ≤ E; Σ reward events ≤ rewards vault
//!   before, vault shrinks by exactly that; Σ stake vault increases = minted + rewards paid (nothing
//!   else appears); units minted for the owner ≤ proportional; the active set in `EpochChangeEvent`
//!   = top-2 by exact stake among registered ∧ stake > 0, non-increasing, every member's listed stake
//!   = its real stake;
//! * always: account XRD + Σ stake vaults + Σ pending vaults is conserved by user transactions; stake-unit
//!   supply = units held + locked + unlocking; pending vault = Σ outstanding claim amounts.
use crate::rat::*;
use mc_core::{bfs, BfsStats, Ctx, Level, Machine};
use mc_ledger::*;
use num_bigint::BigInt;
use num_traits::{Signed, Zero};
use radix_engine::blueprints::resource::{FungibleResourceManagerField, FungibleResourceManagerTotalSupplyFieldPayload, MintFungibleResourceEvent};
use radix_engine::system::system_db_reader::SystemDatabaseReader;
use serde_json::json;
use std::cell::Cell;
use std::collections::BTreeMap;
use std::str::FromStr;
use std::sync::atomic::{AtomicU64, Ordering};
use std::sync::Mutex;

pub const N_ACTORS: usize = 3;
pub const N_FILLERS: usize = 10;
pub const MAX_VALIDATORS: u32 = 2;
pub const UNSTAKE_DELAY: u64 = 2;
const EMISSION: &str = "999.999999999999999989";
/// entries the engine reads from the sorted stake index: max + max/10 + 10
const INDEX_READ: usize = (MAX_VALIDATORS + MAX_VALIDATORS / 10 + 10) as usize;

#[derive(Clone, Copy, Debug, PartialEq, Eq)]
pub enum Units {
    /// 1 atto of stake units
    Smallest,
    /// ⌊units held / 2⌋
    Half,
    All,
    /// prefix only
    Thousand,
}

#[derive(Clone, Copy, Debug, PartialEq, Eq)]
pub enum Miss {
    None,
    /// the validator at this index of the active set misses one round (a gap round), then index 0 proposes
    Index(u8),
}

#[derive(Clone, Debug, PartialEq)]
pub enum Op {
    Stake(usize, Decimal),
    StakeAsOwner(usize, Decimal),
    Unstake(usize, Units),
    /// claim the claim-NFT of this validator that matures first
    Claim(usize),
    Register(usize),
    Unregister(usize),
    UpdateFee(usize, Decimal),
    AcceptDelegated(usize, bool),
    LockOwnerUnits(usize, Decimal),
    StartUnlock(usize, Decimal),
    FinishUnlock(usize),
    /// next round (1 round per epoch ⇒ epoch change)
    Round(Miss),
}

#[derive(Clone, Debug, PartialEq, Eq)]
pub struct VObs {
    pub registered_flag: bool,
    pub accepts: bool,
    pub fee: String,
    pub fee_req: Option<(u64, String)>,
    pub k: BigInt,
    pub s: BigInt,
    pub p: BigInt,
    pub l: BigInt,
    pub u: BigInt,
    pub pending_unlock: Vec<(u64, String)>,
    pub already_unlocked: String,
    pub acct_units: BigInt,
    /// (claim epoch, amount, id) sorted
    pub nfts: Vec<(u64, BigInt, NonFungibleLocalId)>,
}

#[derive(Clone, Debug, PartialEq, Eq)]
pub struct Obs {
    pub epoch: u64,
    pub round: u64,
    pub v: Vec<VObs>,
    /// stake vault of all 13 validators (actors first)
    pub k_all: Vec<BigInt>,
    pub acct_xrd: BigInt,
    /// (index into `all`, listed stake)
    pub active: Vec<(usize, BigInt)>,
    // not part of the fingerprint / unchanged-comparison (fee dependent):
    pub rv: BigInt,
}

impl Obs {
    fn value_total(&self) -> BigInt {
        let mut t = self.acct_xrd.clone();
        for k in &self.k_all {
            t += k;
        }
        for v in &self.v {
            t += &v.p;
        }
        t
    }
    fn same_but_fees(&self, o: &Obs) -> bool {
        self.epoch == o.epoch && self.round == o.round && self.v == o.v && self.k_all == o.k_all && self.acct_xrd == o.acct_xrd && self.active == o.active
    }
}

#[derive(Clone, Debug)]
pub struct Model {
    /// registration as the owner's successful register / unregister calls say (genesis: all registered)
    pub registered: Vec<bool>,
    /// per claim NFT: the exact share units·stake/supply at unstake time
    pub nft_bound: BTreeMap<NonFungibleLocalId, Rat>,
    pub rounds: usize,
}

pub struct St {
    pub sim: Sim,
    pub obs: Obs,
    pub model: Model,
    pub live: Cell<bool>,
}

pub struct World {
    pub acct: Acct,
    pub all: Vec<ComponentAddress>,
    pub unit_res: Vec<ResourceAddress>,
    pub claim_res: Vec<ResourceAddress>,
    pub emission: BigInt,
}

pub struct StakeMachine {
    pub root: Snap,
    pub root_model: Model,
    pub w: World,
    pub alphabet: Vec<Op>,
    pub max_rounds: usize,
    pub infos: Mutex<BTreeMap<String, u64>>,
    pub probes: AtomicU64,
}

type V = (String, String);

fn sim_from(snap: &Snap) -> Sim {
    LedgerSimulatorBuilder::new().without_kernel_trace().build_from_snapshot(snap.clone())
}

fn dec_from_attos(a: &BigInt) -> Decimal {
    Decimal::from_str(&show(a)).expect("attos render as a decimal")
}

fn d(s: &str) -> Decimal {
    Decimal::from_str(s).unwrap()
}

fn mb() -> ManifestBuilder {
    ManifestBuilder::new().lock_fee_from_faucet()
}

fn supply_of(sim: &Sim, r: ResourceAddress) -> BigInt {
    let reader = SystemDatabaseReader::new(sim.substate_db());
    let p = reader
        .read_typed_object_field::<FungibleResourceManagerTotalSupplyFieldPayload>(r.as_node_id(), ModuleId::Main, FungibleResourceManagerField::TotalSupply.field_index())
        .expect("total supply is tracked");
    attos(p.fully_update_and_into_latest_version())
}

fn vault(sim: &mut Sim, own: &Own) -> BigInt {
    attos(sim.inspect_vault_balance(own.0).expect("vault exists"))
}

/// 100k-XRD bucket of the sorted index (what the engine's 2-byte sort prefix encodes), computed on integers
fn bucket(stake: &BigInt) -> BigInt {
    let b = stake / (pow10(18) * BigInt::from(100_000));
    if b > BigInt::from(u16::MAX) {
        BigInt::from(u16::MAX)
    } else {
        b
    }
}

pub fn observe(sim: &mut Sim, w: &World) -> Obs {
    let cm = sim.get_consensus_manager_state();
    let mut v = vec![];
    let mut k_all = vec![];
    for (i, addr) in w.all.iter().enumerate() {
        let sub = sim.get_validator_info(*addr);
        let k = vault(sim, &sub.stake_xrd_vault_id);
        k_all.push(k.clone());
        if i >= N_ACTORS {
            continue;
        }
        let mut nfts = vec![];
        for vid in sim.get_component_vaults(w.acct.addr, sub.claim_nft) {
            let ids: Vec<NonFungibleLocalId> = sim.inspect_non_fungible_vault(vid).map(|(_, it)| it.collect()).unwrap_or_default();
            for id in ids {
                let data: UnstakeData = sim.get_non_fungible_data(sub.claim_nft, id.clone());
                nfts.push((data.claim_epoch.number(), attos(data.claim_amount), id));
            }
        }
        nfts.sort();
        v.push(VObs {
            registered_flag: sub.is_registered,
            accepts: sub.accepts_delegated_stake,
            fee: sub.validator_fee_factor.to_string(),
            fee_req: sub.validator_fee_change_request.as_ref().map(|r| (r.epoch_effective.number(), r.new_fee_factor.to_string())),
            k,
            s: supply_of(sim, sub.stake_unit_resource),
            p: vault(sim, &sub.pending_xrd_withdraw_vault_id),
            l: vault(sim, &sub.locked_owner_stake_unit_vault_id),
            u: vault(sim, &sub.pending_owner_stake_unit_unlock_vault_id),
            pending_unlock: sub.pending_owner_stake_unit_withdrawals.iter().map(|(e, a)| (e.number(), a.to_string())).collect(),
            already_unlocked: sub.already_unlocked_owner_stake_unit_amount.to_string(),
            acct_units: attos(sim.get_component_balance(w.acct.addr, sub.stake_unit_resource)),
            nfts,
        });
    }
    let reader = SystemDatabaseReader::new(sim.substate_db());
    let set = reader
        .read_typed_object_field::<ConsensusManagerCurrentValidatorSetFieldPayload>(CONSENSUS_MANAGER.as_node_id(), ModuleId::Main, ConsensusManagerField::CurrentValidatorSet.field_index())
        .expect("validator set")
        .fully_update_and_into_latest_version();
    let active = set
        .validator_set
        .validators_by_stake_desc
        .iter()
        .map(|(a, val)| (w.all.iter().position(|x| x == a).unwrap_or(usize::MAX), attos(val.stake)))
        .collect();
    let rewards = reader
        .read_typed_object_field::<ConsensusManagerValidatorRewardsFieldPayload>(CONSENSUS_MANAGER.as_node_id(), ModuleId::Main, ConsensusManagerField::ValidatorRewards.field_index())
        .expect("rewards")
        .fully_update_and_into_latest_version();
    let rv_id = rewards.rewards_vault.0;
    drop(reader);
    Obs {
        epoch: cm.epoch.number(),
        round: cm.round.number(),
        v,
        k_all,
        acct_xrd: attos(sim.get_component_balance(w.acct.addr, XRD)),
        active,
        rv: vault(sim, &rv_id),
    }
}

fn short_class(r: &TransactionReceipt) -> String {
    let c = receipt_class(r);
    if let Some(rest) = c.strip_prefix("commit-failure:") {
        let last = rest.rsplit('(').next().unwrap_or(rest);
        format!("fail:{last}")
    } else {
        c
    }
}

impl StakeMachine {
    fn info(&self, k: &str) {
        *self.infos.lock().unwrap().entry(k.to_string()).or_insert(0) += 1;
    }

    fn badge(&self, v: usize) -> NonFungibleLocalId {
        NonFungibleLocalId::bytes(self.w.all[v].as_node_id().0).unwrap()
    }

    fn owner(&self, v: usize) -> ManifestBuilder {
        mb().create_proof_from_account_of_non_fungibles(self.w.acct.addr, VALIDATOR_OWNER_BADGE, [self.badge(v)])
    }

    fn unstake_manifest(&self, v: usize, units: &BigInt) -> TransactionManifestV1 {
        mb().withdraw_from_account(self.w.acct.addr, self.w.unit_res[v], dec_from_attos(units))
            .take_all_from_worktop(self.w.unit_res[v], "u")
            .unstake_validator(self.w.all[v], "u")
            .try_deposit_entire_worktop_or_abort(self.w.acct.addr, None)
            .build()
    }

    /// `Ok(None)`: nothing to execute in this state (counts as a refused operation)
    fn manifest(&self, pre: &Obs, op: &Op) -> Option<TransactionManifestV1> {
        let a = self.w.acct.addr;
        let all = &self.w.all;
        Some(match op {
            Op::Stake(v, x) => mb().withdraw_from_account(a, XRD, *x).take_all_from_worktop(XRD, "s").stake_validator(all[*v], "s").try_deposit_entire_worktop_or_abort(a, None).build(),
            Op::StakeAsOwner(v, x) => self
                .owner(*v)
                .withdraw_from_account(a, XRD, *x)
                .take_all_from_worktop(XRD, "s")
                .stake_validator_as_owner(all[*v], "s")
                .try_deposit_entire_worktop_or_abort(a, None)
                .build(),
            Op::Unstake(v, u) => {
                let units = match u {
                    Units::Smallest => BigInt::from(1),
                    Units::Half => &pre.v[*v].acct_units / BigInt::from(2),
                    Units::All => pre.v[*v].acct_units.clone(),
                    Units::Thousand => pow10(21),
                };
                self.unstake_manifest(*v, &units)
            }
            Op::Claim(v) => {
                let (_, _, id) = pre.v[*v].nfts.first()?;
                mb().withdraw_non_fungibles_from_account(a, self.w.claim_res[*v], [id.clone()])
                    .take_all_from_worktop(self.w.claim_res[*v], "n")
                    .claim_xrd(all[*v], "n")
                    .try_deposit_entire_worktop_or_abort(a, None)
                    .build()
            }
            Op::Register(v) => self.owner(*v).register_validator(all[*v]).build(),
            Op::Unregister(v) => self.owner(*v).unregister_validator(all[*v]).build(),
            Op::UpdateFee(v, f) => self.owner(*v).call_method(all[*v], VALIDATOR_UPDATE_FEE_IDENT, (*f,)).build(),
            Op::AcceptDelegated(v, b) => self.owner(*v).call_method(all[*v], VALIDATOR_UPDATE_ACCEPT_DELEGATED_STAKE_IDENT, (*b,)).build(),
            Op::LockOwnerUnits(v, x) => self
                .owner(*v)
                .withdraw_from_account(a, self.w.unit_res[*v], *x)
                .take_all_from_worktop(self.w.unit_res[*v], "u")
                .call_method_with_name_lookup(all[*v], VALIDATOR_LOCK_OWNER_STAKE_UNITS_IDENT, |l| (l.bucket("u"),))
                .build(),
            Op::StartUnlock(v, x) => self.owner(*v).call_method(all[*v], VALIDATOR_START_UNLOCK_OWNER_STAKE_UNITS_IDENT, (*x,)).build(),
            Op::FinishUnlock(v) => self.owner(*v).call_method(all[*v], VALIDATOR_FINISH_UNLOCK_OWNER_STAKE_UNITS_IDENT, ()).try_deposit_entire_worktop_or_abort(a, None).build(),
            Op::Round(_) => unreachable!(),
        })
    }

    fn what(&self, pre: &Obs, op: &Op) -> String {
        let v: Vec<String> = pre.v.iter().enumerate().map(|(i, x)| format!("V{i}{{stake {} units {} pending {} registered {}}}", show(&x.k), show(&x.s), show(&x.p), x.registered_flag)).collect();
        format!("epoch {} {} op {:?}", pre.epoch, v.join(" "), op)
    }

    /// invariants of every state
    fn state_invariants(&self, o: &Obs, what: &str) -> Result<(), V> {
        for (i, v) in o.v.iter().enumerate() {
            let held = &v.acct_units + &v.l + &v.u;
            if v.s != held {
                return Err((
                    "units-supply-ne-holdings".into(),
                    format!("{what}: V{i} stake unit supply {} but account + locked + unlocking hold {}", show(&v.s), show(&held)),
                ));
            }
            let owed: BigInt = v.nfts.iter().map(|n| n.1.clone()).sum();
            if v.p != owed {
                return Err(("pending-vault-ne-claims".into(), format!("{what}: V{i} pending-withdraw vault {} but outstanding claim NFTs add up to {}", show(&v.p), show(&owed))));
            }
            if v.k.is_negative() || v.s.is_negative() || v.p.is_negative() {
                return Err(("negative-balance".into(), format!("{what}: V{i} negative stake/supply/pending")));
            }
        }
        Ok(())
    }

    fn others_unchanged(&self, pre: &Obs, post: &Obs, except: Option<usize>, what: &str) -> Result<(), V> {
        for i in 0..pre.k_all.len() {
            if Some(i) == except {
                continue;
            }
            if pre.k_all[i] != post.k_all[i] || (i < N_ACTORS && (pre.v[i].s != post.v[i].s || pre.v[i].p != post.v[i].p)) {
                return Err(("bystander-changed".into(), format!("{what}: validator {i} was not addressed but its stake/units/pending changed")));
            }
        }
        Ok(())
    }

    fn step_user(&self, st: &mut St, op: &Op) -> Result<String, V> {
        let pre = st.obs.clone();
        let what = self.what(&pre, op);
        let name = format!("{op:?}");
        let name = name.split('(').next().unwrap_or("").to_string();
        let Some(manifest) = self.manifest(&pre, op) else {
            return Ok(format!("{name}:nothing-to-do"));
        };
        let receipt = exec(&mut st.sim, manifest, vec![self.w.acct.sig.clone()]).map_err(|p| (format!("panic@{}", mc_core::last_panic_location()), format!("{what}: engine panicked: {p}")))?;
        let post = observe(&mut st.sim, &self.w);
        st.obs = post.clone();
        if !is_success(&receipt) {
            if !pre.same_but_fees(&post) {
                return Err(("failed-op-changed-state".into(), format!("{what}: the transaction did not succeed but validator/account state moved")));
            }
            return Ok(format!("{name}:{}", short_class(&receipt)));
        }
        // user transactions never create or destroy XRD on the user/validator side (fees are the faucet's)
        if pre.value_total() != post.value_total() {
            return Err((
                "value-not-conserved".into(),
                format!(
                    "{what}: account XRD + Σ stake vaults + Σ pending vaults moved from {} to {}",
                    show(&pre.value_total()),
                    show(&post.value_total())
                ),
            ));
        }
        if post.epoch != pre.epoch || post.active != pre.active {
            return Err(("user-tx-changed-epoch-or-set".into(), format!("{what}: a user transaction changed the epoch or the active set")));
        }
        self.state_invariants(&post, &what)?;
        match op {
            Op::Stake(v, x) | Op::StakeAsOwner(v, x) => {
                let v = *v;
                let a = attos(*x);
                self.others_unchanged(&pre, &post, Some(v), &what)?;
                let (pv, qv) = (&pre.v[v], &post.v[v]);
                let minted = &qv.s - &pv.s;
                let got = &qv.acct_units - &pv.acct_units;
                if &qv.k - &pv.k != a || &pre.acct_xrd - &post.acct_xrd != a || qv.p != pv.p {
                    return Err(("stake-xrd-flow".into(), format!("{what}: staked {} but stake vault moved by {} and the account by {}", show(&a), show(&(&qv.k - &pv.k)), show(&(&post.acct_xrd - &pre.acct_xrd)))));
                }
                if minted != got || minted.is_negative() {
                    return Err(("stake-units-flow".into(), format!("{what}: supply grew by {} but the staker received {}", show(&minted), show(&got))));
                }
                let mut label = "proportional";
                if pv.k.is_zero() {
                    if pv.s.is_zero() {
                        label = "first-stake";
                        if minted != a {
                            return Err(("first-stake-not-1:1".into(), format!("{what}: first stake of {} minted {} units", show(&a), show(&minted))));
                        }
                    } else {
                        label = "empty-stake-with-units";
                        if st.live.get() {
                            self.info("stake into a validator with units but no stake (statement silent)");
                        }
                    }
                } else {
                    // minted ≤ a · supply / stake   ⇔   minted · stake ≤ a · supply
                    if &minted * &pv.k > &a * &pv.s {
                        return Err((
                            "stake-mints-more-than-proportional".into(),
                            format!(
                                "{what}: staking {} minted {} units; proportional amount is {}",
                                show(&a),
                                show(&minted),
                                Rat::new(&a * &pv.s, pv.k.clone()).show()
                            ),
                        ));
                    }
                    if pv.s.is_zero() {
                        label = "stake-without-units-in-circulation";
                        if st.live.get() {
                            self.info("stake into a validator holding stake but no units in circulation: 0 units minted for the staked XRD (proportional to supply 0; staker loses, no value created)");
                        }
                    } else if minted.is_zero() {
                        label = "rounds-to-zero-units";
                    }
                }
                // stake, then immediately unstake the new units (on a fork): never more XRD than staked
                if st.live.get() && minted.is_positive() {
                    self.probes.fetch_add(1, Ordering::Relaxed);
                    let mut f = sim_from(&st.sim.create_snapshot());
                    let r2 = exec(&mut f, self.unstake_manifest(v, &minted), vec![self.w.acct.sig.clone()])
                        .map_err(|p| (format!("panic@{}", mc_core::last_panic_location()), format!("{what}; then unstake of the new units: engine panicked: {p}")))?;
                    if is_success(&r2) {
                        let back = observe(&mut f, &self.w);
                        let old: Vec<&NonFungibleLocalId> = qv.nfts.iter().map(|n| &n.2).collect();
                        let new: Vec<&(u64, BigInt, NonFungibleLocalId)> = back.v[v].nfts.iter().filter(|n| !old.contains(&&n.2)).collect();
                        let claim: BigInt = new.iter().map(|n| n.1.clone()).sum();
                        if claim > a {
                            return Err((
                                "stake-unstake-gain".into(),
                                format!("{what}: staked {} for {} units; unstaking exactly these units immediately gives a claim of {} XRD", show(&a), show(&minted), show(&claim)),
                            ));
                        }
                        return Ok(format!("{name}:ok:{label}:unstake-at-once-claims-at-most-staked"));
                    }
                    return Ok(format!("{name}:ok:{label}:unstake-at-once-refused"));
                }
                Ok(format!("{name}:ok:{label}"))
            }
            Op::Unstake(v, _) => {
                let v = *v;
                self.others_unchanged(&pre, &post, Some(v), &what)?;
                let (pv, qv) = (&pre.v[v], &post.v[v]);
                let burned = &pv.s - &qv.s;
                if burned != &pv.acct_units - &qv.acct_units || burned.is_negative() {
                    return Err(("unstake-units-flow".into(), format!("{what}: supply shrank by {} but the account handed in {}", show(&burned), show(&(&pv.acct_units - &qv.acct_units)))));
                }
                let old: Vec<&NonFungibleLocalId> = pv.nfts.iter().map(|n| &n.2).collect();
                let new: Vec<&(u64, BigInt, NonFungibleLocalId)> = qv.nfts.iter().filter(|n| !old.contains(&&n.2)).collect();
                if new.len() != 1 {
                    return Err(("unstake-claim-nft-count".into(), format!("{what}: unstake produced {} claim NFTs", new.len())));
                }
                let (claim_epoch, claim, id) = new[0];
                if &pv.k - &qv.k != *claim || &qv.p - &pv.p != *claim || post.acct_xrd != pre.acct_xrd {
                    return Err((
                        "unstake-xrd-flow".into(),
                        format!("{what}: claim amount {} but stake vault moved by {} and pending vault by {}", show(claim), show(&(&qv.k - &pv.k)), show(&(&qv.p - &pv.p))),
                    ));
                }
                if pv.s.is_zero() {
                    // nothing in circulation: only an empty bucket can be handed in, and it must be worth nothing
                    if !claim.is_zero() {
                        return Err(("unstake-claims-more-than-share".into(), format!("{what}: no units in circulation but the claim is {}", show(claim))));
                    }
                    return Ok("Unstake:ok:zero-claim".into());
                }
                // claim ≤ units · stake / supply  ⇔  claim · supply ≤ units · stake   (supply > 0)
                if claim * &pv.s > &burned * &pv.k {
                    return Err((
                        "unstake-claims-more-than-share".into(),
                        format!("{what}: unstaking {} units gives a claim of {}; exact share is {}", show(&burned), show(claim), share(&burned, &pv.s, &pv.k).show()),
                    ));
                }
                st.model.nft_bound.insert(id.clone(), share(&burned, &pv.s, &pv.k));
                let delay_ok = *claim_epoch == pre.epoch + UNSTAKE_DELAY;
                Ok(format!("Unstake:ok:{}{}", if claim.is_zero() { "zero-claim" } else { "claim-at-most-share" }, if delay_ok { "" } else { ":unexpected-claim-epoch" }))
            }
            Op::Claim(v) => {
                let v = *v;
                self.others_unchanged(&pre, &post, Some(v), &what)?;
                let (pv, qv) = (&pre.v[v], &post.v[v]);
                let (claim_epoch, amount, id) = pv.nfts.first().expect("claim op had an NFT");
                if qv.nfts.iter().any(|n| &n.2 == id) {
                    return Err(("claim-kept-nft".into(), format!("{what}: claim succeeded but the claim NFT is still there")));
                }
                let paid = &post.acct_xrd - &pre.acct_xrd;
                if paid > *amount || paid.is_negative() || &pv.p - &qv.p != paid || pv.k != qv.k || pv.s != qv.s {
                    return Err(("claim-pays-more-than-nft".into(), format!("{what}: claim NFT of {} paid {}; pending vault moved by {}", show(amount), show(&paid), show(&(&qv.p - &pv.p)))));
                }
                if let Some(b) = st.model.nft_bound.get(id) {
                    if b.cmp_int(&paid) == std::cmp::Ordering::Less {
                        return Err(("claim-pays-more-than-share".into(), format!("{what}: claim paid {} but the units' share at unstake time was {}", show(&paid), b.show())));
                    }
                }
                st.model.nft_bound.remove(id);
                if pre.epoch < *claim_epoch && st.live.get() {
                    self.info("claim succeeded before the claim epoch (delay is not part of the statement)");
                }
                Ok(format!("Claim:ok{}", if pre.epoch < *claim_epoch { ":before-claim-epoch" } else { "" }))
            }
            Op::Register(v) | Op::Unregister(v) => {
                self.others_unchanged(&pre, &post, None, &what)?;
                st.model.registered[*v] = matches!(op, Op::Register(_));
                Ok(format!("{name}:ok"))
            }
            _ => {
                // fee / delegation flag / owner unit locking: no XRD and no unit supply may move
                self.others_unchanged(&pre, &post, None, &what)?;
                if post.acct_xrd != pre.acct_xrd {
                    return Err(("admin-op-moved-xrd".into(), format!("{what}: account XRD moved")));
                }
                Ok(format!("{name}:ok"))
            }
        }
    }

    fn step_round(&self, st: &mut St, op: &Op, miss: Miss) -> Result<String, V> {
        let pre = st.obs.clone();
        let what = self.what(&pre, op);
        let ts = st.sim.get_current_proposer_timestamp_ms();
        let (round, gaps) = match miss {
            Miss::None => (pre.round + 1, vec![]),
            Miss::Index(i) => (pre.round + 2, vec![i]),
        };
        let manifest = ManifestBuilder::new_system_v1()
            .call_method(
                CONSENSUS_MANAGER,
                CONSENSUS_MANAGER_NEXT_ROUND_IDENT,
                ConsensusManagerNextRoundInput {
                    round: Round::of(round),
                    proposer_timestamp_ms: ts,
                    leader_proposal_history: LeaderProposalHistory { gap_round_leaders: gaps, current_leader: 0, is_fallback: false },
                },
            )
            .build();
        let receipt = mc_core::catch(|| st.sim.execute_system_transaction(manifest, btreeset![system_execution(SystemExecution::Validator)]))
            .map_err(|p| (format!("panic@{}", mc_core::last_panic_location()), format!("{what}: engine panicked: {p}")))?;
        let post = observe(&mut st.sim, &self.w);
        st.obs = post.clone();
        st.model.rounds += 1;
        if !is_success(&receipt) {
            if !pre.same_but_fees(&post) || pre.rv != post.rv {
                return Err(("failed-op-changed-state".into(), format!("{what}: the round change did not succeed but state moved")));
            }
            return Ok(format!("Round:{}", short_class(&receipt)));
        }
        if post.epoch != pre.epoch + 1 {
            return Err(("round-without-epoch-change".into(), format!("{what}: 1 round per epoch configured, epoch went {} -> {}", pre.epoch, post.epoch)));
        }
        self.state_invariants(&post, &what)?;
        let TransactionResult::Commit(c) = &receipt.result else { unreachable!() };
        // ---- events
        let mut minted_events = BigInt::zero();
        let mut emission_events = BigInt::zero();
        let mut reward_events = BigInt::zero();
        let mut epoch_event: Option<EpochChangeEvent> = None;
        for (id, data) in &c.application_events {
            if st.sim.is_event_name_equal::<MintFungibleResourceEvent>(id) {
                if let Emitter::Method(node, ModuleId::Main) = &id.0 {
                    if node == XRD.as_node_id() {
                        let e: MintFungibleResourceEvent = scrypto_decode(data).map_err(|e| ("event-decode".to_string(), format!("{e:?}")))?;
                        minted_events += attos(e.amount);
                    }
                }
            } else if st.sim.is_event_name_equal::<ValidatorEmissionAppliedEvent>(id) {
                let e: ValidatorEmissionAppliedEvent = scrypto_decode(data).map_err(|e| ("event-decode".to_string(), format!("{e:?}")))?;
                emission_events += attos(e.stake_pool_added_xrd) + attos(e.validator_fee_xrd);
            } else if st.sim.is_event_name_equal::<ValidatorRewardAppliedEvent>(id) {
                let e: ValidatorRewardAppliedEvent = scrypto_decode(data).map_err(|e| ("event-decode".to_string(), format!("{e:?}")))?;
                reward_events += attos(e.amount);
            } else if st.sim.is_event_name_equal::<EpochChangeEvent>(id) {
                epoch_event = Some(scrypto_decode(data).map_err(|e| ("event-decode".to_string(), format!("{e:?}")))?);
            }
        }
        // ---- emissions ≤ E (XRD does not record its total supply: minted = Σ XRD mint events of this
        // transaction, cross-checked below against what really arrived in the stake vaults)
        let minted = minted_events.clone();
        if minted > self.w.emission || minted.is_negative() || emission_events > self.w.emission {
            return Err((
                "emission-exceeds-configured-amount".into(),
                format!("{what}: epoch change minted {} XRD (emission events {}), configured emission per epoch is {}", show(&minted), show(&emission_events), show(&self.w.emission)),
            ));
        }
        // ---- rewards ≤ rewards vault before
        let rv_paid = &pre.rv - &post.rv;
        if reward_events > pre.rv || rv_paid.is_negative() || post.rv.is_negative() || rv_paid != reward_events {
            return Err((
                "rewards-exceed-vault".into(),
                format!("{what}: rewards vault held {} before, reward events add up to {}, vault now {}", show(&pre.rv), show(&reward_events), show(&post.rv)),
            ));
        }
        // ---- nothing else appears: Σ stake vault increases = minted + rewards paid
        let dv = &post.value_total() - &pre.value_total();
        if dv != &minted + &rv_paid {
            return Err((
                "epoch-change-value-not-conserved".into(),
                format!("{what}: stake vaults + pending + account grew by {} but XRD minted {} + rewards paid {}", show(&dv), show(&minted), show(&rv_paid)),
            ));
        }
        if post.acct_xrd != pre.acct_xrd {
            return Err(("epoch-change-moved-account".into(), format!("{what}: account XRD moved in an epoch change")));
        }
        let members: Vec<usize> = pre.active.iter().map(|x| x.0).collect();
        let mut outsider = false;
        for i in 0..post.k_all.len() {
            let dk = &post.k_all[i] - &pre.k_all[i];
            if dk.is_negative() {
                return Err(("epoch-change-reduced-stake".into(), format!("{what}: validator {i} lost {} stake in an epoch change", show(&-dk))));
            }
            if dk.is_positive() && !members.contains(&i) {
                outsider = true;
            }
            if i < N_ACTORS {
                let (pv, qv) = (&pre.v[i], &post.v[i]);
                let ds = &qv.s - &pv.s;
                if ds.is_negative() || qv.p != pv.p || qv.acct_units != pv.acct_units {
                    return Err(("epoch-change-touched-holdings".into(), format!("{what}: V{i}: units burned / pending vault / account units moved in an epoch change")));
                }
                // owner units minted for fee + rewards ≤ proportional to the XRD added
                if pv.k.is_positive() && &ds * &pv.k > &dk * &pv.s {
                    return Err((
                        "epoch-change-mints-more-units-than-proportional".into(),
                        format!("{what}: V{i}: stake grew by {} and {} units were minted; proportional would be at most {}", show(&dk), show(&ds), Rat::new(&dk * &pv.s, pv.k.clone()).show()),
                    ));
                }
            }
        }
        if outsider && st.live.get() {
            self.info("a validator outside the concluded epoch's active set received emission/reward (statement silent)");
        }
        // ---- active set
        let Some(ev) = epoch_event else {
            return Err(("no-epoch-change-event".into(), format!("{what}: epoch changed without EpochChangeEvent")));
        };
        let listed: Vec<(usize, BigInt)> = ev.validator_set.validators_by_stake_desc.iter().map(|(a, val)| (self.w.all.iter().position(|x| x == a).unwrap_or(usize::MAX), attos(val.stake))).collect();
        if listed != post.active {
            return Err(("event-set-ne-stored-set".into(), format!("{what}: EpochChangeEvent lists {:?}, stored set is {:?}", listed, post.active)));
        }
        if listed.len() > MAX_VALIDATORS as usize {
            return Err(("active-set-too-large".into(), format!("{what}: active set has {} members, maximum is {MAX_VALIDATORS}", listed.len())));
        }
        let shown = |l: &Vec<(usize, BigInt)>| l.iter().map(|(i, s)| format!("#{i}:{}", show(s))).collect::<Vec<_>>().join(", ");
        for (pos, (i, s)) in listed.iter().enumerate() {
            if *i == usize::MAX || !st.model.registered[*i] || !post.k_all[*i].is_positive() {
                return Err(("active-set-member-not-eligible".into(), format!("{what}: active set [{}] contains validator #{i} which is unregistered or has no stake", shown(&listed))));
            }
            if *s != post.k_all[*i] {
                return Err(("active-set-stake-ne-real-stake".into(), format!("{what}: active set lists #{i} with stake {}, its stake vault holds {}", show(s), show(&post.k_all[*i]))));
            }
            if pos > 0 && listed[pos - 1].1 < *s {
                return Err(("active-set-not-ordered".into(), format!("{what}: active set [{}] is not ordered by stake", shown(&listed))));
            }
            if listed[..pos].iter().any(|x| x.0 == *i) {
                return Err(("active-set-duplicate".into(), format!("{what}: active set [{}] lists a validator twice", shown(&listed))));
            }
        }
        let mut eligible: Vec<(BigInt, usize)> = (0..post.k_all.len()).filter(|i| st.model.registered[*i] && post.k_all[*i].is_positive()).map(|i| (post.k_all[i].clone(), i)).collect();
        eligible.sort_by(|a, b| b.0.cmp(&a.0));
        let expect: Vec<BigInt> = eligible.iter().take(MAX_VALIDATORS as usize).map(|x| x.0.clone()).collect();
        let got: Vec<BigInt> = listed.iter().map(|x| x.1.clone()).collect();
        let mut set_label = "top-k";
        if got != expect {
            // documented trade-off of the 100k-XRD bucketed index: only the first 12 entries are read
            let kth = expect.last().cloned().unwrap_or_default();
            let crowd = eligible.iter().filter(|x| bucket(&x.0) >= bucket(&kth)).count();
            if crowd > INDEX_READ {
                set_label = "bucket-trade-off";
                if st.live.get() {
                    self.info("active set differs from exact top-k while more validators than the index read size share the cut-off bucket (documented trade-off)");
                }
            } else {
                let exp: Vec<String> = eligible.iter().take(MAX_VALIDATORS as usize).map(|(s, i)| format!("#{i}:{}", show(s))).collect();
                return Err((
                    "active-set-not-top-k".into(),
                    format!("{what}: new active set is [{}], the top {MAX_VALIDATORS} registered validators by stake are [{}]", shown(&listed), exp.join(", ")),
                ));
            }
        }
        let emis = if minted.is_zero() { "no-emission" } else if minted == self.w.emission { "emission=E" } else { "emission<E" };
        let rew = if rv_paid.is_zero() { "no-rewards" } else { "rewards" };
        Ok(format!("Round:ok:{emis}:{rew}:{set_label}:set-size-{}", listed.len()))
    }
}

impl Machine for StakeMachine {
    type Op = Op;
    type St = St;

    fn init(&self) -> St {
        let mut sim = sim_from(&self.root);
        let obs = observe(&mut sim, &self.w);
        St { sim, obs, model: self.root_model.clone(), live: Cell::new(false) }
    }

    fn ops(&self, st: &St, _depth: usize) -> Vec<Op> {
        st.live.set(true);
        self.alphabet.iter().filter(|op| !matches!(op, Op::Round(_)) || st.model.rounds < self.max_rounds).cloned().collect()
    }

    fn fork(&self, st: &St) -> Option<St> {
        Some(St { sim: sim_from(&st.sim.create_snapshot()), obs: st.obs.clone(), model: st.model.clone(), live: Cell::new(st.live.get()) })
    }

    fn step(&self, st: &mut St, op: &Op) -> Result<String, V> {
        match op {
            Op::Round(m) => self.step_round(st, op, *m),
            _ => self.step_user(st, op),
        }
    }

    /// Everything staking observes, exactly: epoch, per actor registration / delegation flag / fee (+ pending
    /// change) / stake / unit supply / pending-withdraw / locked / unlocking / account units / outstanding claims
    /// (epoch, amount), all 13 stakes, the active set. Node ids (claim NFT ids) and the fee-dependent rewards
    /// vault and XRD supply are left out: they differ between histories by fee dust only, which reaches stakes
    /// as part of the next reward, where it is visible again.
    fn fingerprint(&self, st: &St) -> Vec<u8> {
        let o = &st.obs;
        let mut s = format!("e{};r{};x{};n{};", o.epoch, o.round, show(&o.acct_xrd), st.model.rounds);
        for (i, v) in o.v.iter().enumerate() {
            s.push_str(&format!(
                "V{i}:{}{}{};{};{:?};{};{};{};{};{};{:?};{};{};",
                st.model.registered[i] as u8,
                v.registered_flag as u8,
                v.accepts as u8,
                v.fee,
                v.fee_req,
                show(&v.k),
                show(&v.s),
                show(&v.p),
                show(&v.l),
                show(&v.u),
                v.pending_unlock,
                v.already_unlocked,
                show(&v.acct_units)
            ));
            for n in &v.nfts {
                s.push_str(&format!("n{}:{};", n.0, show(&n.1)));
            }
        }
        s.push_str(&format!("K{};A{:?}", show_all(&o.k_all), o.active.iter().map(|(i, x)| (*i, show(x))).collect::<Vec<_>>()));
        mc_core::fp128(s.as_bytes())
    }
}

// ------------------------------------------------------------------------------------------------
// world
// ------------------------------------------------------------------------------------------------

fn key(i: u64) -> Secp256k1PublicKey {
    Secp256k1PrivateKey::from_u64(i).unwrap().public_key()
}

pub fn build_world() -> (Sim, World) {
    let owner_pk = key(77);
    let acct_addr = ComponentAddress::preallocated_account_from_public_key(&owner_pk);
    let n = N_ACTORS + N_FILLERS;
    let stakes: Vec<Decimal> = (0..n)
        .map(|i| match i {
            0 => d("301001"),
            1 => d("300000"),
            2 => d("299999.5"),
            i if i < N_ACTORS + 5 => d("1000"),
            _ => d("2000"),
        })
        .collect();
    let validators: Vec<GenesisValidator> = (0..n)
        .map(|i| GenesisValidator {
            key: key(i as u64 + 1),
            accept_delegated_stake: true,
            is_registered: true,
            fee_factor: d("0.05"),
            metadata: vec![],
            owner: acct_addr,
        })
        .collect();
    let allocations: Vec<(Secp256k1PublicKey, Vec<GenesisStakeAllocation>)> = (0..n).map(|i| (key(i as u64 + 1), vec![GenesisStakeAllocation { account_index: 0, xrd_amount: stakes[i] }])).collect();
    let config = ConsensusManagerConfig {
        max_validators: MAX_VALIDATORS,
        epoch_change_condition: EpochChangeCondition { min_round_count: 1, max_round_count: 1, target_duration_millis: 0 },
        num_unstake_epochs: UNSTAKE_DELAY,
        total_emission_xrd_per_epoch: d(EMISSION),
        min_validator_reliability: d("0.4"),
        num_owner_stake_units_unlock_epochs: 2,
        num_fee_increase_delay_epochs: 2,
        validator_creation_usd_cost: d("100"),
    };
    let genesis = BabylonSettings {
        genesis_data_chunks: vec![
            GenesisDataChunk::Validators(validators),
            GenesisDataChunk::Stakes { accounts: vec![acct_addr], allocations },
            GenesisDataChunk::XrdBalances(vec![(acct_addr, d("100000000"))]),
        ],
        genesis_epoch: Epoch::of(1),
        consensus_manager_config: config,
        initial_time_ms: 1,
        initial_current_leader: Some(0),
        faucet_supply: *DEFAULT_TESTING_FAUCET_SUPPLY,
    };
    let sim = new_sim_genesis(genesis);
    let mut all = vec![];
    let mut unit_res = vec![];
    let mut claim_res = vec![];
    // validator addresses by key: actors are the owner badge ids in the account; resolve through the substates
    let mut by_key: BTreeMap<Vec<u8>, (ComponentAddress, ResourceAddress, ResourceAddress)> = BTreeMap::new();
    for node in all_nodes(sim.substate_db()) {
        if node.entity_type() == Some(EntityType::GlobalValidator) {
            let addr = ComponentAddress::new_or_panic(node.0);
            let sub = sim.get_validator_info(addr);
            by_key.insert(sub.key.0.to_vec(), (addr, sub.stake_unit_resource, sub.claim_nft));
        }
    }
    for i in 0..n {
        let (a, u, c) = by_key.get(&key(i as u64 + 1).0.to_vec()).cloned().unwrap_or_else(|| mc_core::machinery_error("genesis validator not found"));
        all.push(a);
        unit_res.push(u);
        claim_res.push(c);
    }
    let acct = Acct { pk: owner_pk, addr: acct_addr, sig: NonFungibleGlobalId::from_public_key(&owner_pk) };
    (sim, World { acct, all, unit_res, claim_res, emission: attos(d(EMISSION)) })
}

pub fn alphabet(core_only: bool) -> Vec<Op> {
    let one = d("1");
    let atto7 = d("0.000000000000000007");
    let mil = d("1000000");
    if core_only {
        return vec![
            Op::Stake(0, one),
            Op::Stake(0, atto7),
            Op::Stake(2, one),
            Op::Unstake(0, Units::Half),
            Op::Unstake(0, Units::All),
            Op::Unstake(1, Units::All),
            Op::Claim(0),
            Op::Unregister(0),
            Op::UpdateFee(0, one),
            Op::Round(Miss::None),
            Op::Round(Miss::Index(0)),
        ];
    }
    vec![
        Op::Stake(0, one),
        Op::Stake(0, atto7),
        Op::Stake(0, mil),
        Op::Stake(1, one),
        Op::Stake(2, one),
        Op::StakeAsOwner(0, d("3")),
        Op::Unstake(0, Units::Smallest),
        Op::Unstake(0, Units::Half),
        Op::Unstake(0, Units::All),
        Op::Unstake(1, Units::All),
        Op::Claim(0),
        Op::Claim(1),
        Op::Unregister(0),
        Op::Register(0),
        Op::Unregister(2),
        Op::UpdateFee(0, Decimal::ZERO),
        Op::UpdateFee(0, d("0.05")),
        Op::UpdateFee(0, one),
        Op::AcceptDelegated(0, false),
        Op::AcceptDelegated(0, true),
        Op::LockOwnerUnits(0, one),
        Op::StartUnlock(0, one),
        Op::FinishUnlock(0),
        Op::Round(Miss::None),
        Op::Round(Miss::Index(0)),
        Op::Round(Miss::Index(1)),
    ]
}

fn machine(alphabet_core: bool, max_rounds: usize) -> Result<StakeMachine, (V, Vec<String>)> {
    let (sim, w) = build_world();
    // prefix, executed through the same oracle: unstake 1000 units of V0, then one epoch change
    let boot = StakeMachine {
        root: sim.create_snapshot(),
        root_model: Model { registered: vec![true; N_ACTORS + N_FILLERS], nft_bound: BTreeMap::new(), rounds: 0 },
        w,
        alphabet: alphabet(alphabet_core),
        max_rounds,
        infos: Mutex::new(BTreeMap::new()),
        probes: AtomicU64::new(0),
    };
    let mut st = boot.init();
    st.live.set(true);
    if let Err(e) = boot.state_invariants(&st.obs, "genesis") {
        return Err((e, vec!["(genesis)".to_string()]));
    }
    let mut done = vec![];
    for op in [Op::Unstake(0, Units::Thousand), Op::Round(Miss::None)] {
        done.push(format!("{op:?}"));
        match boot.step(&mut st, &op) {
            Ok(c) if c.contains(":ok") => {}
            Ok(c) => mc_core::machinery_error(&format!("prefix operation {op:?} did not succeed: {c}")),
            Err(v) => return Err((v, done)),
        }
    }
    let mut model = st.model.clone();
    model.rounds = 0;
    let root = st.sim.create_snapshot();
    boot.infos.lock().unwrap().clear();
    boot.probes.store(0, Ordering::Relaxed);
    Ok(StakeMachine { root, root_model: model, ..boot })
}

/// a violation while building the root state (genesis + prefix) is a violation of the property
fn machine_or_report(ctx: &Ctx, core: bool, max_rounds: usize) -> Option<StakeMachine> {
    match machine(core, max_rounds) {
        Ok(m) => Some(m),
        Err(((k, w), hist)) => {
            ctx.violation(format!("prefix:{k}"), w, json!({"base": "prefix", "history": hist}));
            None
        }
    }
}

fn replay_history(m: &StakeMachine, history: &[String]) -> Vec<Result<String, V>> {
    let all = alphabet(false);
    let mut st = m.init();
    st.live.set(true);
    let mut out = vec![];
    for h in history {
        let Some(op) = all.iter().find(|o| &format!("{o:?}") == h) else {
            out.push(Err(("replay".to_string(), format!("operation {h} is not in the alphabet"))));
            break;
        };
        let r = m.step(&mut st, op);
        let stop = r.is_err();
        out.push(r);
        if stop {
            break;
        }
    }
    out
}

pub fn run(ctx: Ctx) -> ! {
    if let Some(case) = ctx.read_replay_case() {
        let hist: Vec<String> = case.get("history").and_then(|h| h.as_array()).map(|a| a.iter().filter_map(|x| x.as_str().map(|s| s.to_string())).collect()).unwrap_or_default();
        let Some(m) = machine_or_report(&ctx, false, 99) else {
            ctx.finish(Level::ModelChecking, "replay: the prefix already violates", 0, false, serde_json::Map::new(), &[]);
        };
        for (h, r) in hist.iter().zip(replay_history(&m, &hist)) {
            match r {
                Ok(c) => {
                    println!("  {h} -> {c}");
                    ctx.class(&c, 1);
                }
                Err((k, w)) => {
                    println!("  {h} -> VIOLATION {k}: {w}");
                    ctx.violation(k, w, case.clone());
                }
            }
        }
        ctx.finish(Level::ModelChecking, "replay of one recorded history", 0, false, serde_json::Map::new(), &[]);
    }

    // depth bounds: quick = fixed (full alphabet 3, core alphabet 5); thorough = planned maximum (5 / 7), the depth
    // actually explored is chosen by a timed calibration so that the run fits its budget
    let (d_full, d_core) = if ctx.quick() { (3usize, 5usize) } else { (5, 7) };
    let mut total = BfsStats::default();
    let mut parts = serde_json::Map::new();
    let mut probes = 0;
    let mut alph = serde_json::Map::new();
    let mut capped = vec![];
    let t0 = std::time::Instant::now();
    for (name, core, planned, d_cal, budget) in [("full-alphabet", false, d_full, 3usize, 900.0), ("core-alphabet", true, d_core, 4usize, 300.0)] {
        let Some(m) = machine_or_report(&ctx, core, 3) else { break };
        let (depth, plan) = if ctx.quick() { (planned, json!(null)) } else { crate::plan::choose_depth(&m, name, d_cal, planned, budget) };
        m.infos.lock().unwrap().clear();
        m.probes.store(0, Ordering::Relaxed);
        alph.insert(name.to_string(), json!(m.alphabet.iter().map(|o| format!("{o:?}")).collect::<Vec<_>>()));
        let wall_cap = if ctx.quick() { if core { (50.0 - t0.elapsed().as_secs_f64()).max(1.0) } else { 25.0 } } else { 3.0 * budget };
        let s = bfs(&ctx, &m, name, depth, 3_000_000, wall_cap);
        if s.capped {
            capped.push(format!("{name} (completed depth {})", s.depth_completed));
        }
        parts.insert(
            name.to_string(),
            json!({"depth_bound": depth, "depth_completed": s.depth_completed, "states": s.states, "transitions": s.transitions, "per_depth_new_states": s.per_depth_states, "alphabet": m.alphabet.len(), "capped": s.capped, "plan": plan}),
        );
        total.add(&s);
        probes += m.probes.load(Ordering::Relaxed);
        for (k, v) in m.infos.lock().unwrap().iter() {
            ctx.info(k, *v);
        }
    }
    let mut cov = total.coverage();
    cov.insert("explorations".into(), serde_json::Value::Object(parts));
    cov.insert("alphabets".into(), serde_json::Value::Object(alph));
    cov.insert("stake_then_unstake_probes".into(), json!(probes));
    cov.insert(
        "genesis".into(),
        json!({"validators": N_ACTORS + N_FILLERS, "actors": N_ACTORS, "max_validators": MAX_VALIDATORS, "index_entries_read": INDEX_READ, "rounds_per_epoch": 1, "unstake_delay_epochs": UNSTAKE_DELAY, "emission_per_epoch": EMISSION, "min_reliability": "0.4", "max_epoch_changes_per_history": 3, "prefix": ["Unstake(0, Thousand)", "Round(None)"]}),
    );
    if !capped.is_empty() {
        cov.insert("capped".into(), json!(capped));
    }
    let exhaustive = !total.capped;
    ctx.finish(
        Level::ModelChecking,
        "breadth-first over all histories of validator operations (stake / stake as owner / unstake / claim / register / unregister / fee / delegation flag / owner unit lock-unlock / round change with missed-proposal patterns) up to the depth bound with at most 3 epoch changes, once over the full alphabet and once deeper over a core alphabet, every transition executed on the real engine from a 13-validator genesis; exact BigInt-rational oracle on every transition plus a stake-then-unstake probe on a fork after every stake; a state is non-trivial when its fingerprint (all stakes, unit supplies, pending amounts, claims, flags, active set, epoch) is new",
        total.states,
        exhaustive,
        cov,
        &[
            "one account owns all validators and is the only staker; fees are paid by the faucet",
            "states are merged on the exact staking state; the rewards vault balance and XRD supply (fee dependent) are not part of the fingerprint",
            "registration = the owner's successful register/unregister calls (reference), not the engine's flag",
            "top-k is demanded unless more validators than the engine's index read size (12) share the cut-off 100k-XRD bucket (documented trade-off, informational)",
            "claim delay, emission recipients and get_redemption_value are not part of the statement (informational)",
        ],
    )
}
