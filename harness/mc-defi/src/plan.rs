//! Depth planning for the thorough tier: a timed calibration exploration (thrown-away context) at a small
//! depth, geometric extrapolation of the layer sizes, and the largest depth ≤ the planned maximum whose
//! predicted wall time fits the budget. The exploration that decides is then run once, completely, at the
//! chosen depth (mc-core's wall cap is only consulted between layers, so a layer that was started is
//! always finished; planning keeps a run inside the tier's time budget on slow or loaded machines without
//! cutting a layer short). What was planned, measured and chosen is written to the evidence.
use mc_core::{bfs, Ctx, Machine};
use serde_json::{json, Value};
use std::time::Instant;

pub fn choose_depth<M: Machine>(m: &M, tag: &str, d_cal: usize, d_max: usize, budget_s: f64) -> (usize, Value) {
    if d_max <= d_cal {
        return (d_max, json!({"planned_max_depth": d_max, "chosen_depth": d_max, "calibration": "none needed"}));
    }
    let scratch = Ctx::from_args(); // results of the calibration run are dropped
    let t = Instant::now();
    let s = bfs(&scratch, m, tag, d_cal, 3_000_000, budget_s);
    let t_cal = t.elapsed().as_secs_f64().max(0.001);
    let ns: Vec<f64> = s.per_depth_states.iter().map(|x| *x as f64).collect();
    // work of depth bound d ∝ Σ_{i<d} new_states[i] (each is expanded once); extrapolate new_states geometrically
    let last = ns.len() - 1;
    let g = if last >= 1 && ns[last - 1] > 0.0 { (ns[last] / ns[last - 1]).max(1.0) } else { 1.0 };
    let work_cal: f64 = ns.iter().take(s.depth_completed.max(1)).sum::<f64>().max(1.0);
    let mut chosen = d_cal.min(s.depth_completed.max(1));
    let mut predictions = vec![];
    let mut ext = ns.clone();
    for d in (d_cal + 1)..=d_max {
        while ext.len() < d {
            let l = *ext.last().unwrap();
            ext.push(l * g);
        }
        let work: f64 = ext.iter().take(d).sum();
        let predicted = t_cal * work / work_cal;
        predictions.push(json!({"depth": d, "predicted_s": (predicted * 10.0).round() / 10.0}));
        if predicted <= budget_s && !s.capped && ns[last] > 0.0 {
            chosen = d;
        } else {
            break;
        }
    }
    if ns[last] == 0.0 && !s.capped {
        chosen = d_max; // fixpoint already reached
    }
    (
        chosen,
        json!({"planned_max_depth": d_max, "chosen_depth": chosen, "calibration_depth": d_cal, "calibration_wall_s": (t_cal * 10.0).round() / 10.0,
               "calibration_new_states_per_depth": s.per_depth_states, "growth": (g * 100.0).round() / 100.0, "budget_s": budget_s, "predictions": predictions}),
    )
}
