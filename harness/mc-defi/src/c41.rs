//! C41 — liquidity pools stay solvent and fair.
//!
//! Explicit-state exploration of histories of pool operations over numeric alphabets, executed on the
//! real engine (latest protocol ⇒ pool package v1.1), for one-, two- and multi-resource pools over
//! resources of divisibility 18 / 2 / 0. A state is the operation history; states are merged by the
//! exact (reserves, pool-unit supply) of the pool. The oracle is an exact-rational (BigInt) reference:
//!
//! * redeem pays every reserve at most the exact pro-rata share `units/supply · reserve` (a paid amount
//!   is on the resource's grid, so "≤ exact share" is "≤ share rounded down to the divisibility");
//! * contribute, then immediately redeem the units just minted (executed on a fork of the state after
//!   every successful contribution) returns ≤ what the contribution took, per resource;
//! * reserves are never negative and always equal the sum of all user-side flows (what left the
//!   account entered the pool and vice versa: change = offered − accepted, nothing is lost);
//! * two-/multi-resource contributions are accepted in the current reserve ratio (to the resources'
//!   granularity), nothing is taken of a resource whose reserve is empty while units circulate;
//! * pool-unit supply moves exactly by what the contributor received / the redeemer handed in.
//!
//! Statement-silent cases are informational: a contribution into a pool without circulating units
//! (everything is accepted; if reserves were left behind the first contributor owns them too — the
//! blueprint documents this), and `get_redemption_value` vs. what redeem pays.
use crate::rat::*;
use mc_core::{bfs, BfsStats, Ctx, Level, Machine};
use mc_ledger::*;
use num_bigint::BigInt;
use num_traits::{Signed, Zero};
use radix_engine::blueprints::resource::{FungibleResourceManagerField, FungibleResourceManagerTotalSupplyFieldPayload};
use radix_engine::system::system_db_reader::SystemDatabaseReader;
use serde_json::json;
use std::cell::Cell;
use std::collections::BTreeMap;
use std::str::FromStr;
use std::sync::atomic::{AtomicU64, Ordering};
use std::sync::Mutex;

#[derive(Clone, Copy, Debug, PartialEq, Eq)]
pub enum Kind {
    One,
    Two,
    Multi,
}

#[derive(Clone, Debug)]
pub struct PoolCfg {
    pub name: String,
    pub kind: Kind,
    pub divs: Vec<u8>,
    pub res: Vec<ResourceAddress>,
    pub pool: ComponentAddress,
    pub unit: ResourceAddress,
}

#[derive(Clone, Copy, Debug, PartialEq, Eq)]
pub enum Units {
    /// 1 atto of pool units
    Smallest,
    One,
    /// ⌊supply / 2⌋ (in attos)
    Half,
    /// everything in circulation
    All,
}

#[derive(Clone, Copy, Debug, PartialEq, Eq)]
pub enum WAmt {
    One,
    /// ⌊reserve / 3⌋ in attos — usually not on the resource's grid, so the strategy's rounding matters
    Third,
    All,
}

#[derive(Clone, Copy, Debug, PartialEq, Eq)]
pub enum Strat {
    Exact,
    RoundDown,
    RoundUp,
}

#[derive(Clone, Debug, PartialEq)]
pub enum Op {
    /// offered amount per pool resource (0 = empty bucket / no bucket)
    Contribute(Vec<Decimal>),
    Redeem(Units),
    /// protected_deposit(resource index, amount)
    Deposit(usize, Decimal),
    /// protected_withdraw(resource index, amount, strategy)
    Withdraw(usize, WAmt, Strat),
}

/// What the property observes: reserves, unit supply, and the user's side.
#[derive(Clone, Debug, PartialEq, Eq)]
pub struct Obs {
    pub r: Vec<BigInt>,
    pub s: BigInt,
    pub acct: Vec<BigInt>,
    pub acct_units: BigInt,
}

pub struct St {
    pub sim: Sim,
    pub obs: Obs,
    /// reference: reserves and supply as the sum of user-side flows since the root
    pub model_r: Vec<BigInt>,
    pub model_s: BigInt,
    /// false while a history is being replayed to rebuild a frontier state (probes are skipped)
    pub live: Cell<bool>,
}

pub struct PoolMachine {
    pub root: Snap,
    pub cfg: PoolCfg,
    pub acct: Acct,
    pub alphabet: Vec<Op>,
    pub infos: Mutex<BTreeMap<String, u64>>,
    pub probes: AtomicU64,
}

// ------------------------------------------------------------------------------------------------
// helpers
// ------------------------------------------------------------------------------------------------

fn dec_from_attos(a: &BigInt) -> Decimal {
    Decimal::from_str(&show(a)).expect("attos render as a decimal")
}

fn smallest(div: u8) -> Decimal {
    dec_from_attos(&unit(div))
}

fn sim_from(snap: &Snap) -> Sim {
    LedgerSimulatorBuilder::new().without_kernel_trace().build_from_snapshot(snap.clone())
}

fn total_supply(sim: &Sim, r: ResourceAddress) -> BigInt {
    let reader = SystemDatabaseReader::new(sim.substate_db());
    let p = reader
        .read_typed_object_field::<FungibleResourceManagerTotalSupplyFieldPayload>(r.as_node_id(), ModuleId::Main, FungibleResourceManagerField::TotalSupply.field_index())
        .expect("pool unit total supply is tracked");
    attos(p.fully_update_and_into_latest_version())
}

pub fn observe(sim: &mut Sim, cfg: &PoolCfg, acct: &Acct) -> Obs {
    Obs {
        r: cfg.res.iter().map(|r| attos(sim.get_component_balance(cfg.pool, *r))).collect(),
        s: total_supply(sim, cfg.unit),
        acct: cfg.res.iter().map(|r| attos(sim.get_component_balance(acct.addr, *r))).collect(),
        acct_units: attos(sim.get_component_balance(acct.addr, cfg.unit)),
    }
}

fn strategy(s: Strat) -> WithdrawStrategy {
    match s {
        Strat::Exact => WithdrawStrategy::Exact,
        Strat::RoundDown => WithdrawStrategy::Rounded(RoundingMode::ToNegativeInfinity),
        Strat::RoundUp => WithdrawStrategy::Rounded(RoundingMode::ToPositiveInfinity),
    }
}

fn mb() -> ManifestBuilder {
    ManifestBuilder::new().lock_fee_from_faucet()
}

fn redeem_manifest(cfg: &PoolCfg, acct: &Acct, units: Decimal, with_quote: bool) -> TransactionManifestV1 {
    let mut b = mb();
    if with_quote {
        // instruction index 1: the pool's own quote for exactly these units (read-only)
        b = b.call_method(cfg.pool, "get_redemption_value", (units,));
    }
    b.withdraw_from_account(acct.addr, cfg.unit, units)
        .take_all_from_worktop(cfg.unit, "u")
        .call_method_with_name_lookup(cfg.pool, "redeem", |l| (l.bucket("u"),))
        .try_deposit_entire_worktop_or_abort(acct.addr, None)
        .build()
}

fn contribute_manifest(cfg: &PoolCfg, acct: &Acct, amounts: &[Decimal]) -> TransactionManifestV1 {
    let mut b = mb();
    for (i, a) in amounts.iter().enumerate() {
        if !a.is_zero() {
            b = b.withdraw_from_account(acct.addr, cfg.res[i], *a);
        }
    }
    match cfg.kind {
        Kind::One => b
            .take_all_from_worktop(cfg.res[0], "b0")
            .call_method_with_name_lookup(cfg.pool, "contribute", |l| (l.bucket("b0"),))
            .try_deposit_entire_worktop_or_abort(acct.addr, None)
            .build(),
        Kind::Two => b
            .take_all_from_worktop(cfg.res[0], "b0")
            .take_all_from_worktop(cfg.res[1], "b1")
            .call_method_with_name_lookup(cfg.pool, "contribute", |l| ((l.bucket("b0"), l.bucket("b1")),))
            .try_deposit_entire_worktop_or_abort(acct.addr, None)
            .build(),
        Kind::Multi => {
            let mut names = vec![];
            for (i, a) in amounts.iter().enumerate() {
                if !a.is_zero() {
                    let n = format!("b{i}");
                    b = b.take_all_from_worktop(cfg.res[i], n.clone());
                    names.push(n);
                }
            }
            b.call_method_with_name_lookup(cfg.pool, "contribute", |l| (names.iter().map(|n| l.bucket(n.clone())).collect::<Vec<_>>(),))
                .try_deposit_entire_worktop_or_abort(acct.addr, None)
                .build()
        }
    }
}

fn deposit_manifest(cfg: &PoolCfg, acct: &Acct, i: usize, x: Decimal) -> TransactionManifestV1 {
    mb().withdraw_from_account(acct.addr, cfg.res[i], x)
        .take_all_from_worktop(cfg.res[i], "d")
        .call_method_with_name_lookup(cfg.pool, "protected_deposit", |l| (l.bucket("d"),))
        .build()
}

fn withdraw_manifest(cfg: &PoolCfg, acct: &Acct, i: usize, x: Decimal, s: Strat) -> TransactionManifestV1 {
    let b = mb();
    let b = match cfg.kind {
        Kind::One => b.call_method(cfg.pool, "protected_withdraw", (x, strategy(s))),
        _ => b.call_method(cfg.pool, "protected_withdraw", (cfg.res[i], x, strategy(s))),
    };
    b.try_deposit_entire_worktop_or_abort(acct.addr, None).build()
}

/// the value returned by instruction `idx`, decoded
fn output<T: ScryptoDecode>(r: &TransactionReceipt, idx: usize) -> Option<T> {
    let TransactionResult::Commit(c) = &r.result else { return None };
    let TransactionOutcome::Success(outs) = &c.outcome else { return None };
    match outs.get(idx)? {
        InstructionOutput::CallReturn(bytes) => scrypto_decode::<T>(bytes).ok(),
        InstructionOutput::None => None,
    }
}

fn short_class(r: &TransactionReceipt) -> String {
    let c = receipt_class(r);
    // keep the innermost error variant only: commit-failure:ApplicationError(XPoolError(Variant → fail:Variant
    if let Some(rest) = c.strip_prefix("commit-failure:") {
        let last = rest.rsplit('(').next().unwrap_or(rest);
        format!("fail:{last}")
    } else {
        c
    }
}

type V = (String, String);

impl PoolMachine {
    fn info(&self, k: &str) {
        *self.infos.lock().unwrap().entry(k.to_string()).or_insert(0) += 1;
    }

    fn n(&self) -> usize {
        self.cfg.res.len()
    }

    fn ctx_text(&self, pre: &Obs, op: &Op) -> String {
        format!("pool {} (divisibilities {:?}) reserves {} unit supply {} op {:?}", self.cfg.name, self.cfg.divs, show_all(&pre.r), show(&pre.s), op)
    }

    /// common bookkeeping: user-side flows go into the model; model must equal the real pool afterwards
    fn apply_flows_and_compare(&self, st: &mut St, pre: &Obs, post: &Obs, what: &str) -> Result<(), V> {
        for i in 0..self.n() {
            let d_acct = &post.acct[i] - &pre.acct[i];
            st.model_r[i] -= d_acct;
        }
        st.model_s += &post.acct_units - &pre.acct_units;
        for i in 0..self.n() {
            if post.r[i] != st.model_r[i] {
                return Err((
                    "reserve-ne-flows".into(),
                    format!(
                        "{what}: reserve {i} is {} but the user-side flows add up to {} (account moved by {}, vault by {}): resources were lost or created",
                        show(&post.r[i]),
                        show(&st.model_r[i]),
                        show(&(&post.acct[i] - &pre.acct[i])),
                        show(&(&post.r[i] - &pre.r[i]))
                    ),
                ));
            }
            if post.r[i].is_negative() {
                return Err(("negative-reserve".into(), format!("{what}: reserve {i} is negative: {}", show(&post.r[i]))));
            }
        }
        if post.s != st.model_s {
            return Err((
                "unit-supply-ne-minted-minus-burned".into(),
                format!(
                    "{what}: pool unit supply is {} but units handed out minus units handed in add up to {}",
                    show(&post.s),
                    show(&st.model_s)
                ),
            ));
        }
        if post.s.is_negative() {
            return Err(("negative-supply".into(), format!("{what}: pool unit supply negative")));
        }
        Ok(())
    }

    fn step_contribute(&self, st: &mut St, op: &Op, offered_dec: &[Decimal]) -> Result<String, V> {
        let pre = st.obs.clone();
        let what = self.ctx_text(&pre, op);
        let receipt = exec(&mut st.sim, contribute_manifest(&self.cfg, &self.acct, offered_dec), vec![self.acct.sig.clone()])
            .map_err(|p| (format!("panic@{}", mc_core::last_panic_location()), format!("{what}: engine panicked: {p}")))?;
        let post = observe(&mut st.sim, &self.cfg, &self.acct);
        st.obs = post.clone();
        if !is_success(&receipt) {
            self.unchanged(&pre, &post, &what)?;
            return Ok(format!("contribute:{}", short_class(&receipt)));
        }
        self.apply_flows_and_compare(st, &pre, &post, &what)?;
        let n = self.n();
        let offered: Vec<BigInt> = offered_dec.iter().map(|d| attos(*d)).collect();
        let accepted: Vec<BigInt> = (0..n).map(|i| &pre.acct[i] - &post.acct[i]).collect();
        let minted = &post.acct_units - &pre.acct_units;
        for i in 0..n {
            if accepted[i].is_negative() || accepted[i] > offered[i] {
                return Err((
                    "accepted-outside-offer".into(),
                    format!("{what}: accepted {} of resource {i}, offered {}", show(&accepted[i]), show(&offered[i])),
                ));
            }
        }
        if !minted.is_positive() {
            return Err(("contribution-minted-nothing".into(), format!("{what}: succeeded, took {} and handed out {} pool units", show_all(&accepted), show(&minted))));
        }
        let any_reserve = pre.r.iter().any(|x| x.is_positive());
        let mut label = "normal";
        let mut roundtrip_applies = true;
        if pre.s.is_zero() {
            // first contribution: the statement fixes no exchange rate; everything belongs to the contributor
            if any_reserve {
                label = "first-into-emptied-pool-with-reserves";
                roundtrip_applies = false;
                if st.live.get() {
                    self.info("contribution into a pool with reserves but no circulating units (first contributor owns the left-over; statement silent)");
                }
            } else {
                label = "first";
            }
        } else {
            if !any_reserve {
                // units circulate, nothing in the pool: the blueprint refuses; the statement is silent
                if st.live.get() {
                    self.info("contribution accepted while units circulate and all reserves are empty (statement silent)");
                }
                label = "units-but-no-reserves";
                roundtrip_applies = false;
            }
            // current ratio: nothing is taken of a resource the pool holds none of …
            for i in 0..n {
                if pre.r[i].is_zero() && !accepted[i].is_zero() && any_reserve {
                    return Err((
                        "ratio:took-resource-with-empty-reserve".into(),
                        format!("{what}: took {} of resource {i} whose reserve is empty, so the accepted amounts {} are not in the pool's ratio", show(&accepted[i]), show_all(&accepted)),
                    ));
                }
            }
            // … and the rest is proportional to the reserves, to the granularity of each resource and the
            // 36-digit precision of the platform's fixed-point numbers:
            //   |a_i/R_i − a_j/R_j| ≤ 2·unit_i/R_i + 2·unit_j/R_j + 10^-34
            let eps = pow10(34);
            for i in 0..n {
                for j in (i + 1)..n {
                    if !pre.r[i].is_positive() || !pre.r[j].is_positive() {
                        continue;
                    }
                    let (ui, uj) = (unit(self.cfg.divs[i]), unit(self.cfg.divs[j]));
                    let lhs = (&accepted[i] * &pre.r[j] - &accepted[j] * &pre.r[i]).abs() * &eps;
                    let rhs = (BigInt::from(2) * &ui * &pre.r[j] + BigInt::from(2) * &uj * &pre.r[i]) * &eps + &pre.r[i] * &pre.r[j];
                    if lhs > rhs {
                        return Err((
                            "ratio:accepted-amounts-not-in-reserve-ratio".into(),
                            format!(
                                "{what}: accepted {} (offered {}): resources {i} and {j} are not in the reserve ratio {} : {}",
                                show_all(&accepted),
                                show_all(&offered),
                                show(&pre.r[i]),
                                show(&pre.r[j])
                            ),
                        ));
                    }
                }
            }
            if n > 1 && any_reserve {
                // informational: is at least one offered resource used up (maximal contribution)?
                let full = (0..n).any(|i| pre.r[i].is_positive() && (&offered[i] - &accepted[i]) < unit(self.cfg.divs[i]));
                if !full && st.live.get() {
                    self.info("contribution left change on every resource (not maximal; statement does not demand maximality)");
                }
            }
        }
        // contribute-then-redeem: on a fork of the state just reached, hand the new units straight back
        if roundtrip_applies && st.live.get() {
            self.probes.fetch_add(1, Ordering::Relaxed);
            let mut f = sim_from(&st.sim.create_snapshot());
            let r2 = exec(&mut f, redeem_manifest(&self.cfg, &self.acct, dec_from_attos(&minted), false), vec![self.acct.sig.clone()])
                .map_err(|p| (format!("panic@{}", mc_core::last_panic_location()), format!("{what}; then redeem of the {} new units: engine panicked: {p}", show(&minted))))?;
            if is_success(&r2) {
                let back = observe(&mut f, &self.cfg, &self.acct);
                for i in 0..n {
                    let returned = &back.acct[i] - &post.acct[i];
                    if returned > accepted[i] {
                        return Err((
                            "roundtrip-gain".into(),
                            format!(
                                "{what}: contribution took {} and minted {} units; redeeming exactly these units immediately returned {} of resource {i} (> {} contributed); all returns {}",
                                show_all(&accepted),
                                show(&minted),
                                show(&returned),
                                show(&accepted[i]),
                                show_all(&(0..n).map(|k| &back.acct[k] - &post.acct[k]).collect::<Vec<_>>())
                            ),
                        ));
                    }
                }
                return Ok(format!("contribute:ok:{label}:roundtrip-returns-at-most-contribution"));
            } else {
                return Ok(format!("contribute:ok:{label}:roundtrip-redeem-refused"));
            }
        }
        Ok(format!("contribute:ok:{label}"))
    }

    fn unchanged(&self, pre: &Obs, post: &Obs, what: &str) -> Result<(), V> {
        if pre != post {
            return Err(("failed-op-changed-pool".into(), format!("{what}: the transaction did not succeed but reserves/supply/account moved: before {pre:?} after {post:?}")));
        }
        Ok(())
    }

    fn step_redeem(&self, st: &mut St, op: &Op, u: Units) -> Result<String, V> {
        let pre = st.obs.clone();
        let what = self.ctx_text(&pre, op);
        let units: BigInt = match u {
            Units::Smallest => BigInt::from(1),
            Units::One => pow10(18),
            Units::Half => &pre.s / BigInt::from(2),
            Units::All => pre.acct_units.clone(),
        };
        let units_dec = dec_from_attos(&units);
        let receipt = exec(&mut st.sim, redeem_manifest(&self.cfg, &self.acct, units_dec, true), vec![self.acct.sig.clone()])
            .map_err(|p| (format!("panic@{}", mc_core::last_panic_location()), format!("{what}: engine panicked: {p}")))?;
        let post = observe(&mut st.sim, &self.cfg, &self.acct);
        st.obs = post.clone();
        if !is_success(&receipt) {
            self.unchanged(&pre, &post, &what)?;
            return Ok(format!("redeem:{}", short_class(&receipt)));
        }
        self.apply_flows_and_compare(st, &pre, &post, &what)?;
        let n = self.n();
        let burned = &pre.acct_units - &post.acct_units;
        if burned != units {
            return Err(("redeem-burned-other-amount".into(), format!("{what}: handed in {} units, account lost {}", show(&units), show(&burned))));
        }
        let paid: Vec<BigInt> = (0..n).map(|i| &post.acct[i] - &pre.acct[i]).collect();
        if pre.s.is_zero() {
            // nothing in circulation: only an empty bucket can be handed in, and it must be worth nothing
            if paid.iter().any(|p| !p.is_zero()) {
                return Err(("redeem-pays-more-than-share".into(), format!("{what}: no units in circulation but redeem paid {}", show_all(&paid))));
            }
            return Ok("redeem:ok:nothing-for-nothing".into());
        }
        for i in 0..n {
            if paid[i].is_negative() {
                return Err(("redeem-took-from-redeemer".into(), format!("{what}: redeemer lost {} of resource {i}", show(&-&paid[i]))));
            }
            // paid_i ≤ units/supply · reserve_i  ⇔  paid_i · supply ≤ units · reserve_i   (supply > 0 as units ≤ supply)
            let exact = share(&units, &pre.s, &pre.r[i]);
            if exact.cmp_int(&paid[i]) == std::cmp::Ordering::Less {
                return Err((
                    "redeem-pays-more-than-share".into(),
                    format!(
                        "{what}: redeeming {} of {} units paid {} of resource {i}; exact pro-rata share is {} (rounded down to divisibility {}: {})",
                        show(&units),
                        show(&pre.s),
                        show(&paid[i]),
                        exact.show(),
                        self.cfg.divs[i],
                        show(&exact.floor_to(&unit(self.cfg.divs[i])))
                    ),
                ));
            }
        }
        // informational: the pool's own quote (instruction 1) vs what was paid
        if st.live.get() {
            let quote: Option<Vec<BigInt>> = match self.cfg.kind {
                Kind::One => output::<Decimal>(&receipt, 1).map(|d| vec![attos(d)]),
                _ => output::<IndexMap<ResourceAddress, Decimal>>(&receipt, 1).map(|m| self.cfg.res.iter().map(|r| m.get(r).map(|d| attos(*d)).unwrap_or_default()).collect()),
            };
            match quote {
                Some(q) if q == paid => self.info("get_redemption_value equals what redeem paid"),
                Some(_) => self.info("get_redemption_value DIFFERS from what redeem paid (not part of the statement)"),
                None => self.info("get_redemption_value output not decodable"),
            }
        }
        let exact_all = (0..n).all(|i| share(&units, &pre.s, &pre.r[i]).floor_to(&unit(self.cfg.divs[i])) == paid[i]);
        Ok(format!("redeem:ok:{}", if exact_all { "pays-floor-of-share" } else { "pays-less-than-floor-of-share" }))
    }

    fn step_deposit(&self, st: &mut St, op: &Op, i: usize, x: Decimal) -> Result<String, V> {
        let pre = st.obs.clone();
        let what = self.ctx_text(&pre, op);
        let receipt = exec(&mut st.sim, deposit_manifest(&self.cfg, &self.acct, i, x), vec![self.acct.sig.clone()])
            .map_err(|p| (format!("panic@{}", mc_core::last_panic_location()), format!("{what}: engine panicked: {p}")))?;
        let post = observe(&mut st.sim, &self.cfg, &self.acct);
        st.obs = post.clone();
        if !is_success(&receipt) {
            self.unchanged(&pre, &post, &what)?;
            return Ok(format!("deposit:{}", short_class(&receipt)));
        }
        self.apply_flows_and_compare(st, &pre, &post, &what)?;
        if post.acct_units != pre.acct_units {
            return Err(("deposit-moved-units".into(), format!("{what}: protected_deposit changed the pool unit supply")));
        }
        Ok("deposit:ok".into())
    }

    fn step_withdraw(&self, st: &mut St, op: &Op, i: usize, w: WAmt, s: Strat) -> Result<String, V> {
        let pre = st.obs.clone();
        let what = self.ctx_text(&pre, op);
        let x = match w {
            WAmt::One => pow10(18),
            WAmt::Third => &pre.r[i] / BigInt::from(3),
            WAmt::All => pre.r[i].clone(),
        };
        let receipt = exec(&mut st.sim, withdraw_manifest(&self.cfg, &self.acct, i, dec_from_attos(&x), s), vec![self.acct.sig.clone()])
            .map_err(|p| (format!("panic@{}", mc_core::last_panic_location()), format!("{what}: engine panicked: {p}")))?;
        let post = observe(&mut st.sim, &self.cfg, &self.acct);
        st.obs = post.clone();
        if !is_success(&receipt) {
            self.unchanged(&pre, &post, &what)?;
            return Ok(format!("withdraw:{}", short_class(&receipt)));
        }
        self.apply_flows_and_compare(st, &pre, &post, &what)?;
        if post.acct_units != pre.acct_units {
            return Err(("withdraw-moved-units".into(), format!("{what}: protected_withdraw changed the pool unit supply")));
        }
        let got = &post.acct[i] - &pre.acct[i];
        Ok(format!("withdraw:ok:{}", if got == x { "exact" } else if got < x { "rounded-down" } else { "rounded-up" }))
    }
}

impl Machine for PoolMachine {
    type Op = Op;
    type St = St;

    fn init(&self) -> St {
        let mut sim = sim_from(&self.root);
        let obs = observe(&mut sim, &self.cfg, &self.acct);
        St { sim, model_r: obs.r.clone(), model_s: obs.s.clone(), obs, live: Cell::new(false) }
    }

    fn ops(&self, st: &St, _depth: usize) -> Vec<Op> {
        st.live.set(true);
        let no_units = st.obs.s.is_zero();
        let no_reserves = st.obs.r.iter().all(|x| x.is_zero());
        let mut seen_redeem = false;
        let mut seen_withdraw = false;
        self.alphabet
            .iter()
            .filter(|op| match op {
                // without circulating units every redeem is refused the same way: keep one representative
                Op::Redeem(_) if no_units => !std::mem::replace(&mut seen_redeem, true),
                // nothing to withdraw: one representative
                Op::Withdraw(..) if no_reserves => !std::mem::replace(&mut seen_withdraw, true),
                _ => true,
            })
            .cloned()
            .collect()
    }

    fn fork(&self, st: &St) -> Option<St> {
        Some(St { sim: sim_from(&st.sim.create_snapshot()), obs: st.obs.clone(), model_r: st.model_r.clone(), model_s: st.model_s.clone(), live: Cell::new(st.live.get()) })
    }

    fn step(&self, st: &mut St, op: &Op) -> Result<String, V> {
        match op {
            Op::Contribute(a) => self.step_contribute(st, op, a),
            Op::Redeem(u) => self.step_redeem(st, op, *u),
            Op::Deposit(i, x) => self.step_deposit(st, op, *i, *x),
            Op::Withdraw(i, w, s) => self.step_withdraw(st, op, *i, *w, *s),
        }
    }

    /// Exact reserves and unit supply (node-id independent). Everything else the pool's future depends on
    /// is fixed: the account holds all units in circulation (= supply) and ample resources (10^24 each);
    /// fee dust only touches the faucet.
    fn fingerprint(&self, st: &St) -> Vec<u8> {
        format!("{}|{}|{}", self.cfg.name, show_all(&st.obs.r), show(&st.obs.s)).into_bytes()
    }
}

// ------------------------------------------------------------------------------------------------
// world and alphabets
// ------------------------------------------------------------------------------------------------

pub struct DefiWorld {
    pub root: Snap,
    pub acct: Acct,
    pub pools: Vec<PoolCfg>,
}

pub fn build_world(shapes: &[(Kind, Vec<u8>)]) -> DefiWorld {
    let mut sim = new_sim();
    let (pk, _sk, addr) = sim.new_account(true);
    let acct = Acct { pk, addr, sig: NonFungibleGlobalId::from_public_key(&pk) };
    let supply = Decimal::from_str("1000000000000000000000000").unwrap(); // 10^24 of every pool resource
    let mut pools = vec![];
    for (kind, divs) in shapes {
        let res: Vec<ResourceAddress> = divs.iter().map(|d| sim.create_freely_mintable_and_burnable_fungible_resource(OwnerRole::None, Some(supply), *d, addr)).collect();
        let b = ManifestBuilder::new().lock_fee_from_faucet();
        let b = match kind {
            Kind::One => b.call_function(
                POOL_PACKAGE,
                ONE_RESOURCE_POOL_BLUEPRINT,
                ONE_RESOURCE_POOL_INSTANTIATE_IDENT,
                OneResourcePoolInstantiateManifestInput { resource_address: res[0].into(), pool_manager_rule: rule!(allow_all).into(), owner_role: OwnerRole::None.into(), address_reservation: None },
            ),
            Kind::Two => b.call_function(
                POOL_PACKAGE,
                TWO_RESOURCE_POOL_BLUEPRINT,
                TWO_RESOURCE_POOL_INSTANTIATE_IDENT,
                TwoResourcePoolInstantiateManifestInput {
                    resource_addresses: (res[0].into(), res[1].into()),
                    pool_manager_rule: rule!(allow_all).into(),
                    owner_role: OwnerRole::None.into(),
                    address_reservation: None,
                },
            ),
            Kind::Multi => b.call_function(
                POOL_PACKAGE,
                MULTI_RESOURCE_POOL_BLUEPRINT,
                MULTI_RESOURCE_POOL_INSTANTIATE_IDENT,
                MultiResourcePoolInstantiateManifestInput {
                    resource_addresses: res.iter().map(|r| (*r).into()).collect(),
                    pool_manager_rule: rule!(allow_all).into(),
                    owner_role: OwnerRole::None.into(),
                    address_reservation: None,
                },
            ),
        };
        let receipt = sim.execute_manifest(b.build(), vec![]);
        let c = receipt.expect_commit_success();
        let name = format!("{}{:?}", match kind { Kind::One => "one", Kind::Two => "two", Kind::Multi => "multi" }, divs);
        pools.push(PoolCfg { name, kind: *kind, divs: divs.clone(), res, pool: c.new_component_addresses()[0], unit: c.new_resource_addresses()[0] });
    }
    DefiWorld { root: sim.create_snapshot(), acct, pools }
}

fn d(s: &str) -> Decimal {
    Decimal::from_str(s).unwrap()
}

/// The operation alphabet of a pool (ordered simplest first, built so that amounts collide).
pub fn alphabet(cfg: &PoolCfg, rich: bool) -> Vec<Op> {
    let n = cfg.res.len();
    let sm: Vec<Decimal> = cfg.divs.iter().map(|x| smallest(*x)).collect();
    let one = d("1");
    let three = d("3");
    let mil = d("1000000");
    let huge = d("700000000000000000000"); // 7·10^20
    let zero = Decimal::ZERO;
    let mut ops: Vec<Op> = vec![];
    let mut push = |op: Op| {
        if !ops.contains(&op) {
            ops.push(op)
        }
    };
    match n {
        1 => {
            for a in [one, three, sm[0], mil, huge] {
                push(Op::Contribute(vec![a]));
            }
        }
        2 => {
            for (a, b) in [(one, one), (three, one), (sm[0], sm[1]), (one, mil), (mil, one), (zero, one), (one, zero), (huge, huge)] {
                push(Op::Contribute(vec![a, b]));
            }
            if rich {
                push(Op::Contribute(vec![mil, mil]));
                push(Op::Contribute(vec![three, three]));
            }
        }
        _ => {
            let all = |x: Decimal| vec![x; n];
            push(Op::Contribute(all(one)));
            let mut v = all(one);
            v[0] = three;
            push(Op::Contribute(v));
            push(Op::Contribute(sm.clone()));
            let mut v = all(one);
            v[1] = mil;
            v[n - 1] = three;
            push(Op::Contribute(v));
            let mut v = all(one);
            v[0] = mil;
            push(Op::Contribute(v));
            let mut v = all(one);
            v[0] = zero;
            push(Op::Contribute(v));
            let mut v = all(zero);
            v[0] = one;
            push(Op::Contribute(v));
            push(Op::Contribute(all(huge)));
        }
    }
    for u in [Units::One, Units::Half, Units::All, Units::Smallest] {
        push(Op::Redeem(u));
    }
    match n {
        1 => {
            push(Op::Deposit(0, one));
            push(Op::Deposit(0, mil));
            push(Op::Deposit(0, sm[0]));
            push(Op::Withdraw(0, WAmt::One, Strat::Exact));
            push(Op::Withdraw(0, WAmt::Third, Strat::RoundDown));
            push(Op::Withdraw(0, WAmt::Third, Strat::RoundUp));
            push(Op::Withdraw(0, WAmt::All, Strat::Exact));
        }
        2 => {
            push(Op::Deposit(0, one));
            push(Op::Deposit(1, one));
            push(Op::Deposit(1, mil));
            push(Op::Withdraw(0, WAmt::Third, Strat::RoundDown));
            push(Op::Withdraw(1, WAmt::Third, Strat::RoundUp));
            push(Op::Withdraw(0, WAmt::All, Strat::Exact));
            push(Op::Withdraw(1, WAmt::All, Strat::Exact));
            if rich {
                push(Op::Deposit(0, mil));
            }
        }
        _ => {
            push(Op::Deposit(0, one));
            push(Op::Deposit(1, mil));
            push(Op::Deposit(n - 1, one));
            push(Op::Withdraw(0, WAmt::All, Strat::Exact));
            push(Op::Withdraw(1, WAmt::Third, Strat::RoundUp));
            push(Op::Withdraw(n - 1, WAmt::Third, Strat::RoundDown));
            push(Op::Withdraw(n - 1, WAmt::All, Strat::Exact));
        }
    }
    ops
}

fn shapes(ctx: &Ctx) -> Vec<(Kind, Vec<u8>)> {
    let mut v = vec![
        (Kind::One, vec![18]),
        (Kind::One, vec![2]),
        (Kind::One, vec![0]),
        (Kind::Two, vec![18, 18]),
        (Kind::Two, vec![18, 2]),
        (Kind::Two, vec![18, 0]),
        (Kind::Two, vec![2, 0]),
        (Kind::Multi, vec![18, 2, 0]),
    ];
    if !ctx.quick() {
        v.push((Kind::Multi, vec![0, 18, 18]));
    }
    v
}

/// Re-execute a recorded history (Debug renderings of the ops) on a fresh machine; returns the outcome of each step.
fn replay_history(m: &PoolMachine, history: &[String]) -> Vec<Result<String, V>> {
    let mut st = m.init();
    let mut out = vec![];
    for h in history {
        let ops = m.ops(&st, 0);
        let Some(op) = m.alphabet.iter().find(|o| &format!("{o:?}") == h).or(ops.iter().find(|o| &format!("{o:?}") == h)) else {
            out.push(Err(("replay".to_string(), format!("operation {h} is not in the alphabet of {}", m.cfg.name))));
            break;
        };
        let r = m.step(&mut st, op);
        let stop = r.is_err();
        out.push(r);
        if stop {
            break;
        }
    }
    out
}

pub fn run(ctx: Ctx) -> ! {
    let shapes = shapes(&ctx);
    let world = build_world(&shapes);

    if let Some(case) = ctx.read_replay_case() {
        let base = case.get("base").and_then(|b| b.as_str()).unwrap_or("").to_string();
        let hist: Vec<String> = case.get("history").and_then(|h| h.as_array()).map(|a| a.iter().filter_map(|x| x.as_str().map(|s| s.to_string())).collect()).unwrap_or_default();
        let Some(cfg) = world.pools.iter().find(|p| p.name == base) else { mc_core::machinery_error(&format!("replay: unknown pool {base}")) };
        let m = PoolMachine { root: world.root.clone(), cfg: cfg.clone(), acct: world.acct.clone(), alphabet: alphabet(cfg, true), infos: Mutex::new(BTreeMap::new()), probes: AtomicU64::new(0) };
        for (h, r) in hist.iter().zip(replay_history(&m, &hist)) {
            match r {
                Ok(c) => {
                    println!("  {h} -> {c}");
                    ctx.class(&c, 1);
                }
                Err((k, w)) => {
                    println!("  {h} -> VIOLATION {k}: {w}");
                    ctx.violation(k, w, case.clone());
                }
            }
        }
        ctx.finish(Level::ModelChecking, "replay of one recorded history", 0, false, serde_json::Map::new(), &[]);
    }

    // depth bounds: quick = fixed (one-resource pools 4, two/multi 3); thorough = planned maximum (6 / 5), the
    // depth actually explored is chosen per pool by a timed calibration so that the run fits its budget
    let (d_one, d_multi) = if ctx.quick() { (4usize, 3usize) } else { (6, 5) };
    let per_pool_budget = 900.0 / world.pools.len() as f64;
    let mut total = BfsStats::default();
    let mut per_pool = serde_json::Map::new();
    let mut probes = 0u64;
    let mut alph = serde_json::Map::new();
    let t0 = std::time::Instant::now();
    let mut capped_pools: Vec<String> = vec![];
    for (pool_idx, cfg) in world.pools.iter().enumerate() {
        let planned = if cfg.kind == Kind::One { d_one } else { d_multi };
        let mk = || PoolMachine { root: world.root.clone(), cfg: cfg.clone(), acct: world.acct.clone(), alphabet: alphabet(cfg, !ctx.quick()), infos: Mutex::new(BTreeMap::new()), probes: AtomicU64::new(0) };
        let (depth, plan) = if ctx.quick() { (planned, json!(null)) } else { crate::plan::choose_depth(&mk(), &cfg.name, 3, planned, per_pool_budget) };
        let m = mk();
        alph.insert(cfg.name.clone(), json!(m.alphabet.iter().map(|o| format!("{o:?}")).collect::<Vec<_>>()));
        // quick: every pool gets an equal share of what is left of the 52 s (a cap is only consulted between layers)
        let wall_cap = if ctx.quick() { ((52.0 - t0.elapsed().as_secs_f64()) / (world.pools.len() - pool_idx) as f64).max(0.5) } else { 3.0 * per_pool_budget };
        let s = bfs(&ctx, &m, &cfg.name, depth, 3_000_000, wall_cap);
        if s.capped {
            capped_pools.push(format!("{} (completed depth {})", cfg.name, s.depth_completed));
        }
        per_pool.insert(
            cfg.name.clone(),
            json!({"depth_bound": depth, "depth_completed": s.depth_completed, "states": s.states, "transitions": s.transitions, "per_depth_new_states": s.per_depth_states, "alphabet": m.alphabet.len(), "capped": s.capped, "plan": plan}),
        );
        total.add(&s);
        probes += m.probes.load(Ordering::Relaxed);
        for (k, v) in m.infos.lock().unwrap().iter() {
            ctx.info(k, *v);
        }
    }
    let mut cov = total.coverage();
    cov.insert("pools".into(), serde_json::Value::Object(per_pool));
    cov.insert("alphabets".into(), serde_json::Value::Object(alph));
    cov.insert("contribute_then_redeem_probes".into(), json!(probes));
    if !capped_pools.is_empty() {
        cov.insert("capped".into(), json!(capped_pools));
    }
    let exhaustive = !total.capped;
    ctx.finish(
        Level::ModelChecking,
        "breadth-first over all histories of pool operations (contribute / redeem / protected_deposit / protected_withdraw with both roundings, get_redemption_value folded into redeem) up to the depth bound, per pool shape (one/two/multi resource, divisibilities 18/2/0), every transition executed on the real engine; exact BigInt-rational oracle on every transition plus a contribute-then-redeem probe on a fork after every accepted contribution; a state is non-trivial when its (reserves, unit supply) fingerprint is new",
        total.states,
        exhaustive,
        cov,
        &[
            "states with equal exact reserves and pool-unit supply are merged (the single account holds all units and ample resources; fees are paid by the faucet)",
            "'in the pool's current ratio' is checked to the granularity of each resource (2 smallest units) plus 10^-34 for the platform's 36-digit fixed-point precision",
            "a contribution into a pool without circulating units and get_redemption_value are informational (statement silent)",
            "amount alphabet: smallest unit, 1, 3, 10^6, 7*10^20, skewed pairs, zero on one side; units: 1 atto, 1, half, all; withdraw third/all with Exact/round-down/round-up",
        ],
    )
}
