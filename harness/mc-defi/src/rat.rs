//! Exact reference arithmetic for C41 / C42: amounts as BigInt numbers of attos (10^-18) and exact
//! rationals as numerator / denominator BigInts. Nothing here calls the engine's Decimal arithmetic;
//! the only thing taken from a `Decimal` is its raw integer (`attos()`), rendered through its decimal
//! string so that no engine arithmetic routine is shared with the oracle.
use num_bigint::BigInt;
use num_integer::Integer;
use num_traits::{One, Signed, Zero};
use radix_common::math::Decimal;
use std::cmp::Ordering;
use std::str::FromStr;

/// raw attos of a Decimal as BigInt
pub fn attos(d: Decimal) -> BigInt {
    BigInt::from_str(&d.attos().to_string()).expect("attos are an integer")
}

pub fn pow10(n: u32) -> BigInt {
    num_traits::pow(BigInt::from(10), n as usize)
}

/// smallest representable amount (in attos) of a resource with this divisibility
pub fn unit(divisibility: u8) -> BigInt {
    pow10(18 - divisibility as u32)
}

/// render attos as a decimal string (for messages)
pub fn show(a: &BigInt) -> String {
    let neg = a.is_negative();
    let s = a.abs().to_string();
    let s = if s.len() <= 18 { format!("{}{}", "0".repeat(19 - s.len()), s) } else { s };
    let (i, f) = s.split_at(s.len() - 18);
    let f = f.trim_end_matches('0');
    let body = if f.is_empty() { i.to_string() } else { format!("{i}.{f}") };
    if neg {
        format!("-{body}")
    } else {
        body
    }
}

pub fn show_all(v: &[BigInt]) -> String {
    format!("[{}]", v.iter().map(show).collect::<Vec<_>>().join(", "))
}

/// Exact rational, always normalised (gcd 1, positive denominator).
#[derive(Clone, Debug, PartialEq, Eq)]
pub struct Rat {
    pub n: BigInt,
    pub d: BigInt,
}

#[allow(dead_code)]
impl Rat {
    pub fn new(n: BigInt, d: BigInt) -> Rat {
        assert!(!d.is_zero(), "zero denominator");
        let g = n.gcd(&d);
        let (mut n, mut d) = if g.is_zero() { (n, d) } else { (n / &g, d / &g) };
        if d.is_negative() {
            n = -n;
            d = -d;
        }
        Rat { n, d }
    }
    pub fn int(n: BigInt) -> Rat {
        Rat { n, d: BigInt::one() }
    }
    pub fn mul(&self, o: &Rat) -> Rat {
        Rat::new(&self.n * &o.n, &self.d * &o.d)
    }
    pub fn add(&self, o: &Rat) -> Rat {
        Rat::new(&self.n * &o.d + &o.n * &self.d, &self.d * &o.d)
    }
    /// ⌊self⌋ to a multiple of `grid` (grid > 0), e.g. grid = unit(divisibility) for amounts in attos
    pub fn floor_to(&self, grid: &BigInt) -> BigInt {
        let q = (&self.n).div_floor(&(&self.d * grid));
        q * grid
    }
    pub fn cmp_int(&self, x: &BigInt) -> Ordering {
        self.n.cmp(&(x * &self.d))
    }
    pub fn show(&self) -> String {
        if self.d.is_one() {
            show(&self.n)
        } else {
            // attos numerator / denominator, plus a 24-digit decimal approximation (floor)
            let scaled = (&self.n * pow10(6)).div_floor(&self.d);
            let s = scaled.abs().to_string();
            let s = if s.len() <= 24 { format!("{}{}", "0".repeat(25 - s.len()), s) } else { s };
            let (i, f) = s.split_at(s.len() - 24);
            format!("{}{}.{}… (= {}/{} attos)", if scaled.is_negative() { "-" } else { "" }, i, f, self.n, self.d)
        }
    }
}

impl PartialOrd for Rat {
    fn partial_cmp(&self, o: &Rat) -> Option<Ordering> {
        Some(self.cmp(o))
    }
}
impl Ord for Rat {
    fn cmp(&self, o: &Rat) -> Ordering {
        (&self.n * &o.d).cmp(&(&o.n * &self.d))
    }
}

/// the exact pro-rata share `units / supply * pool` (all in attos); supply > 0
pub fn share(units: &BigInt, supply: &BigInt, pool: &BigInt) -> Rat {
    Rat::new(units * pool, supply.clone())
}

#[cfg(test)]
mod tests {
    use super::*;
    #[test]
    fn basics() {
        let r = Rat::new(BigInt::from(7), BigInt::from(-2));
        assert_eq!(r.n, BigInt::from(-7));
        assert_eq!(r.floor_to(&BigInt::from(1)), BigInt::from(-4));
        assert_eq!(Rat::new(BigInt::from(1999), BigInt::from(10)).floor_to(&BigInt::from(100)), BigInt::from(100));
        assert_eq!(show(&BigInt::from(1_500_000_000_000_000_000u64)), "1.5");
        assert_eq!(show(&BigInt::from(1)), "0.000000000000000001");
    }
}
