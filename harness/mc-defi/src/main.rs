//! mc-defi: serves C41 C42 (one module per property).
use mc_core::Ctx;

mod c41;
mod plan;
mod rat;
mod c42;

fn main() {
    let ctx = Ctx::from_args();
    match ctx.id.as_str() {
        "C41" => c41::run(ctx),
        "C42" => c42::run(ctx),
        other => mc_core::machinery_error(&format!("mc-defi does not serve {other}")),
    }
}
