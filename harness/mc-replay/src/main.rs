//! mc-replay: serves C07 C44 (one module per property).
use mc_core::Ctx;

mod c07;
mod c44;
mod explore;
mod ring;

fn main() {
    let ctx = Ctx::from_args();
    match ctx.id.as_str() {
        "C07" => c07::run(ctx),
        "C44" => c44::run(ctx),
        other => mc_core::machinery_error(&format!("mc-replay does not serve {other}")),
    }
}
