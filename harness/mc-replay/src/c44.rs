//! C44 — consensus time and rounds only move forward.
//!
//! Explicit-state breadth-first exploration of the real consensus manager driven by round-change *system
//! transactions* (validator execution proof, as the node does), from two genesis configurations
//! (round-count-triggered and duration-triggered epoch change, two validators each).
//!
//! Alphabet per state (all combinations): round ∈ {cur−1, cur, cur+1, cur+2, u64::MAX} × proposer timestamp
//! ∈ {t−1 ms, t, t+1 ms, t+59 999 ms, t+60 000 ms, i64::MAX} × gap-leader list {consistent, inconsistent}
//! × leader ∈ {0, 1, invalid index}, plus one `Query` transaction that calls `get_current_time` /
//! `compare_current_time` at both precisions, with every operator, for instants around the clock.
//!
//! Reference (written from the statement, state read back from the stored substates after every
//! transaction): proposer timestamp and minute clock never decrease; the minute clock is the proposer
//! timestamp rounded down to minutes; inside an epoch the round never decreases and a successful round
//! change strictly increases it (to the reported round); an epoch change is +1 and resets the round to 0;
//! a successful round change records the reported timestamp; query answers equal the comparison of the
//! recorded clock (rounded to the precision) with the instant (rounded to the precision).
use mc_core::{bfs, BfsStats, Ctx, Level, Machine};
use mc_ledger::*;
use radix_engine::system::system_db_reader::SystemDatabaseReader;
use serde_json::{json, Map};

const MILLIS_IN_MINUTE: i64 = 60_000;

#[derive(Clone, Debug, PartialEq, Eq)]
pub struct Clock {
    epoch: u64,
    round: u64,
    milli: i64,
    minute: i32,
    effective_start: i64,
    actual_start: i64,
}

fn read_clock(sim: &Sim) -> Clock {
    let reader = SystemDatabaseReader::new(sim.substate_db());
    let node = CONSENSUS_MANAGER.as_node_id();
    let state = reader
        .read_typed_object_field::<ConsensusManagerStateFieldPayload>(node, ModuleId::Main, ConsensusManagerField::State.field_index())
        .unwrap_or_else(|e| mc_core::machinery_error(&format!("consensus manager state unreadable: {e:?}")))
        .fully_update_and_into_latest_version();
    let milli = reader
        .read_typed_object_field::<ConsensusManagerProposerMilliTimestampFieldPayload>(node, ModuleId::Main, ConsensusManagerField::ProposerMilliTimestamp.field_index())
        .unwrap_or_else(|e| mc_core::machinery_error(&format!("milli timestamp unreadable: {e:?}")))
        .fully_update_and_into_latest_version()
        .epoch_milli;
    let minute = reader
        .read_typed_object_field::<ConsensusManagerProposerMinuteTimestampFieldPayload>(node, ModuleId::Main, ConsensusManagerField::ProposerMinuteTimestamp.field_index())
        .unwrap_or_else(|e| mc_core::machinery_error(&format!("minute timestamp unreadable: {e:?}")))
        .fully_update_and_into_latest_version()
        .epoch_minute;
    Clock {
        epoch: state.epoch.number(),
        round: state.round.number(),
        milli,
        minute,
        effective_start: state.effective_epoch_start_milli,
        actual_start: state.actual_epoch_start_milli,
    }
}

#[derive(Clone, PartialEq, Eq)]
pub enum Op {
    NextRound { round: u64, ts: i64, gaps: usize, leader: u8, tag: String },
    Query,
}

/// Compact, parseable rendering (used in samples and replay files): `NR:<round>:<ts>:<gaps>:<leader>:<tag>` | `Q`.
impl std::fmt::Debug for Op {
    fn fmt(&self, f: &mut std::fmt::Formatter<'_>) -> std::fmt::Result {
        match self {
            Op::NextRound { round, ts, gaps, leader, tag } => write!(f, "NR:{round}:{ts}:{gaps}:{leader}:{tag}"),
            Op::Query => write!(f, "Q"),
        }
    }
}

fn op_parse(s: &str) -> Option<Op> {
    let s = s.trim_matches('"');
    if s == "Q" {
        return Some(Op::Query);
    }
    let f: Vec<&str> = s.splitn(6, ':').collect();
    if f.len() < 5 || f[0] != "NR" {
        return None;
    }
    Some(Op::NextRound { round: f[1].parse().ok()?, ts: f[2].parse().ok()?, gaps: f[3].parse().ok()?, leader: f[4].parse().ok()?, tag: f.get(5).unwrap_or(&"").to_string() })
}

pub struct St {
    sim: Sim,
    clock: Clock,
}

pub struct ClockMachine {
    root: Snap,
    epoch0: u64,
    reduced: bool,
}

const INVALID_LEADER: u8 = 7;

fn genesis(cond: EpochChangeCondition) -> BabylonSettings {
    let k1 = Secp256k1PrivateKey::from_u64(1).unwrap().public_key();
    let k2 = Secp256k1PrivateKey::from_u64(2).unwrap().public_key();
    BabylonSettings::validators_and_single_staker(
        vec![(k1, Decimal::one()), (k2, Decimal::one())],
        ComponentAddress::preallocated_account_from_public_key(&k1),
        Decimal::zero(),
        Epoch::of(1),
        ConsensusManagerConfig::test_default().with_epoch_change_condition(cond),
    )
}

impl ClockMachine {
    fn new(cond: EpochChangeCondition, reduced: bool) -> ClockMachine {
        let sim = LedgerSimulatorBuilder::new()
            .with_custom_protocol(|b| b.configure_babylon(|_| genesis(cond)).from_bootstrap_to_latest())
            .without_kernel_trace()
            .build();
        let c = read_clock(&sim);
        ClockMachine { root: sim.create_snapshot(), epoch0: c.epoch, reduced }
    }
}

fn sim_from(snap: &Snap) -> Sim {
    LedgerSimulatorBuilder::new().without_kernel_trace().build_from_snapshot(snap.clone())
}

/// instants (seconds) around the recorded clock, plus extremes
fn query_instants(c: &Clock) -> Vec<i64> {
    let cs = c.milli.div_euclid(1000);
    let ms = c.minute as i64 * 60;
    let mut v = vec![cs - 1, cs, cs + 1, ms - 60, ms - 1, ms, ms + 1, ms + 59, ms + 60, 0, 1, 59, 60, -1, -60, -61, i64::MAX, i64::MIN];
    v.sort();
    v.dedup();
    v
}

const OPERATORS: [TimeComparisonOperator; 5] =
    [TimeComparisonOperator::Eq, TimeComparisonOperator::Lt, TimeComparisonOperator::Lte, TimeComparisonOperator::Gt, TimeComparisonOperator::Gte];

fn cmp_ref(a: i128, b: i128, op: TimeComparisonOperator) -> bool {
    match op {
        TimeComparisonOperator::Eq => a == b,
        TimeComparisonOperator::Lt => a < b,
        TimeComparisonOperator::Lte => a <= b,
        TimeComparisonOperator::Gt => a > b,
        TimeComparisonOperator::Gte => a >= b,
    }
}

impl Machine for ClockMachine {
    type Op = Op;
    type St = St;

    fn init(&self) -> St {
        let sim = sim_from(&self.root);
        let clock = read_clock(&sim);
        St { sim, clock }
    }

    fn fork(&self, st: &St) -> Option<St> {
        Some(St { sim: sim_from(&st.sim.create_snapshot()), clock: st.clock.clone() })
    }

    fn ops(&self, st: &St, _depth: usize) -> Vec<Op> {
        let c = &st.clock;
        let mut rounds: Vec<(u64, &str)> = vec![(c.round.saturating_sub(1), "r-1"), (c.round, "r"), (c.round + 1, "r+1"), (c.round + 2, "r+2"), (u64::MAX, "rMAX")];
        let mut stamps: Vec<(i64, &str)> =
            vec![(c.milli - 1, "t-1"), (c.milli, "t"), (c.milli + 1, "t+1"), (c.milli + 59_999, "t+59999"), (c.milli + 60_000, "t+60000"), (i64::MAX, "tMAX")];
        // absolute duplicates (round 0: r-1 == r) are enumerated once
        rounds.dedup_by_key(|x| x.0);
        stamps.dedup_by_key(|x| x.0);
        let mut ops = vec![Op::Query];
        for (round, rt) in &rounds {
            for (ts, tt) in &stamps {
                // the consistent gap list has (round − current − 1) entries; impossible to build for u64::MAX,
                // where "consistent" degenerates to the empty list
                let progress = round.checked_sub(c.round).unwrap_or(0);
                let consistent = if progress >= 1 && progress <= 8 { (progress - 1) as usize } else { 0 };
                for (gaps, gt) in [(consistent, "gaps-ok"), (consistent + 1, "gaps-bad")] {
                    for leader in [0u8, 1, INVALID_LEADER] {
                        if self.reduced && (leader != 0 || gt != "gaps-ok") {
                            continue;
                        }
                        ops.push(Op::NextRound { round: *round, ts: *ts, gaps, leader, tag: format!("{rt},{tt},{gt},leader{leader}") });
                    }
                }
            }
        }
        ops
    }

    fn step(&self, st: &mut St, op: &Op) -> Result<String, (String, String)> {
        let pre = st.clock.clone();
        // state invariant (also checked on the root through the first transition): minute clock = rounded timestamp
        let class = match op {
            Op::NextRound { round, ts, gaps, leader, tag } => {
                let manifest = ManifestBuilder::new_system_v1()
                    .call_method(
                        CONSENSUS_MANAGER,
                        CONSENSUS_MANAGER_NEXT_ROUND_IDENT,
                        ConsensusManagerNextRoundInput {
                            round: Round::of(*round),
                            proposer_timestamp_ms: *ts,
                            leader_proposal_history: LeaderProposalHistory { gap_round_leaders: vec![0; *gaps], current_leader: *leader, is_fallback: false },
                        },
                    )
                    .build();
                let r = mc_core::catch(|| st.sim.execute_system_transaction(manifest, btreeset![system_execution(SystemExecution::Validator)]));
                let post = read_clock(&st.sim);
                let receipt = match r {
                    Ok(r) => r,
                    Err(p) => {
                        // the statement lists invariants only; a crash is reported as a candidate, not decided here
                        transition_invariants(&pre, &post, tag)?;
                        st.clock = post;
                        return Ok(format!("next_round:PANIC:{}", mc_core::truncate(&p, 60)));
                    }
                };
                transition_invariants(&pre, &post, tag)?;
                let ok = is_success(&receipt);
                if ok {
                    let what = |s: String| format!("next_round({tag}) round {round} ts {ts} from {pre:?} to {post:?}: {s}");
                    if post.epoch == pre.epoch {
                        if post.round <= pre.round {
                            return Err(("round-not-advanced".into(), what("a successful round change did not increase the round within the epoch".into())));
                        }
                        if post.round != *round {
                            return Err(("round-not-recorded".into(), what(format!("recorded round {} is not the reported round", post.round))));
                        }
                    }
                    if post.milli != *ts {
                        return Err(("timestamp-not-recorded".into(), what(format!("recorded proposer timestamp {} is not the reported one", post.milli))));
                    }
                    let ev = receipt.expect_commit_success().next_epoch().map(|e| e.epoch.number());
                    if ev.is_some() != (post.epoch != pre.epoch) || ev.map_or(false, |e| e != post.epoch) {
                        return Err(("epoch-event-vs-state".into(), what(format!("epoch change event {ev:?} disagrees with the stored epoch"))));
                    }
                } else if post != pre {
                    // C02 territory (a failed transaction changes nothing but fees); monotonicity was checked above
                    return Ok(format!("next_round:failed-but-clock-moved:{}", receipt_class(&receipt)));
                }
                let kind = if !ok {
                    format!("fail:{}", variant_path(failure_text(&receipt).trim_start_matches("ApplicationError(ConsensusManagerError("), 1))
                } else if post.epoch != pre.epoch {
                    "ok:epoch-change".to_string()
                } else if post.minute != pre.minute {
                    "ok:minute-tick".to_string()
                } else {
                    "ok".to_string()
                };
                st.clock = post;
                format!("next_round:{kind}")
            }
            Op::Query => {
                let instants = query_instants(&pre);
                let mut b = ManifestBuilder::new().lock_fee_from_faucet();
                let mut expect: Vec<(String, Option<bool>)> = vec![];
                let clock_s = pre.milli.div_euclid(1000) as i128;
                let clock_min = pre.minute as i128;
                for precision in [TimePrecisionV2::Minute, TimePrecisionV2::Second] {
                    for &i in &instants {
                        for op in OPERATORS {
                            b = b.call_method(
                                CONSENSUS_MANAGER,
                                CONSENSUS_MANAGER_COMPARE_CURRENT_TIME_IDENT,
                                ConsensusManagerCompareCurrentTimeInputV2 { instant: Instant::new(i), precision, operator: op },
                            );
                            let e = match precision {
                                TimePrecisionV2::Second => Some(cmp_ref(clock_s, i as i128, op)),
                                TimePrecisionV2::Minute => {
                                    // instants before 1970: the statement does not say whether minutes round down or
                                    // toward zero; demand an answer only where both readings agree
                                    let floor = cmp_ref(clock_min, (i as i128).div_euclid(60), op);
                                    let trunc = cmp_ref(clock_min, (i as i128) / 60, op);
                                    if floor == trunc {
                                        Some(floor)
                                    } else {
                                        None
                                    }
                                }
                            };
                            expect.push((format!("compare_current_time(instant {i}s, {precision:?}, {op:?})"), e));
                        }
                    }
                }
                let n_cmp = expect.len();
                for precision in [TimePrecisionV2::Minute, TimePrecisionV2::Second] {
                    b = b.call_method(CONSENSUS_MANAGER, CONSENSUS_MANAGER_GET_CURRENT_TIME_IDENT, ConsensusManagerGetCurrentTimeInputV2 { precision });
                }
                let r = mc_core::catch(|| st.sim.execute_manifest(b.build(), vec![]));
                let post = read_clock(&st.sim);
                transition_invariants(&pre, &post, "query")?;
                let receipt = match r {
                    Ok(r) => r,
                    Err(p) => return Ok(format!("query:PANIC:{}", mc_core::truncate(&p, 60))),
                };
                if !is_success(&receipt) {
                    mc_core::machinery_error(&format!("query transaction did not succeed: {}", failure_text(&receipt)));
                }
                let commit = receipt.expect_commit_success();
                let mut ambiguous = 0;
                for (k, (what, e)) in expect.iter().enumerate() {
                    let got: bool = commit.output(k + 1);
                    match e {
                        Some(e) if *e != got => {
                            return Err((
                                "time-comparison-disagrees-with-clock".into(),
                                format!("{what} answered {got}, but the recorded clock is {} ms / minute {} ⇒ {e}", pre.milli, pre.minute),
                            ))
                        }
                        Some(_) => {}
                        None => ambiguous += 1,
                    }
                }
                let t_min: Instant = commit.output(n_cmp + 1);
                let t_sec: Instant = commit.output(n_cmp + 2);
                if t_min.seconds_since_unix_epoch as i128 != clock_min * 60 {
                    return Err(("current-time-disagrees-with-clock".into(), format!("get_current_time(Minute) = {}s, recorded minute clock {}", t_min.seconds_since_unix_epoch, pre.minute)));
                }
                if t_sec.seconds_since_unix_epoch as i128 != clock_s {
                    return Err(("current-time-disagrees-with-clock".into(), format!("get_current_time(Second) = {}s, recorded timestamp {} ms", t_sec.seconds_since_unix_epoch, pre.milli)));
                }
                if post != pre {
                    st.clock = post;
                    return Ok("query:clock-moved".into());
                }
                if ambiguous > 0 {
                    "query:agrees(pre-1970-minute-rounding-not-judged)".to_string()
                } else {
                    "query:agrees".to_string()
                }
            }
        };
        Ok(class)
    }

    /// Everything the clock logic reads: epoch (relative to the root), round, both clocks, epoch start times.
    /// Dropped: current leader and proposal statistics (they feed emissions, not the clock), fee balances.
    fn fingerprint(&self, st: &St) -> Vec<u8> {
        let c = &st.clock;
        format!("{};{};{};{};{};{}", c.epoch - self.epoch0, c.round, c.milli, c.minute, c.effective_start, c.actual_start).into_bytes()
    }
}

/// Invariants demanded on *every* transition, whatever the transaction did.
fn transition_invariants(pre: &Clock, post: &Clock, tag: &str) -> Result<(), (String, String)> {
    let what = |s: &str| format!("{tag}: {s}: {pre:?} -> {post:?}");
    if post.milli < pre.milli {
        return Err(("timestamp-decreased".into(), what("the proposer timestamp went backwards")));
    }
    if post.minute < pre.minute {
        return Err(("minute-clock-decreased".into(), what("the minute clock went backwards")));
    }
    if post.milli >= 0 && post.minute as i64 != post.milli / MILLIS_IN_MINUTE {
        return Err(("minute-clock-not-rounded-timestamp".into(), what("the minute clock is not the proposer timestamp rounded down to minutes")));
    }
    if post.epoch == pre.epoch {
        if post.round < pre.round {
            return Err(("round-decreased".into(), what("the round went backwards within an epoch")));
        }
    } else {
        if post.epoch != pre.epoch + 1 {
            return Err(("epoch-jump".into(), what("the epoch did not advance by exactly one")));
        }
        if post.round != 0 {
            return Err(("round-not-reset".into(), what("the round was not reset by the epoch change")));
        }
    }
    Ok(())
}

fn configs() -> [(&'static str, EpochChangeCondition); 2] {
    [
        ("rounds-3-per-epoch", EpochChangeCondition { min_round_count: 3, max_round_count: 3, target_duration_millis: 0 }),
        ("duration-60s-per-epoch", EpochChangeCondition { min_round_count: 1, max_round_count: 1000, target_duration_millis: 60_000 }),
    ]
}

fn replay(ctx: Ctx) -> ! {
    let case = ctx.read_replay_case().unwrap();
    let base = case.get("base").and_then(|b| b.as_str()).unwrap_or("").to_string();
    let (_, cond) = configs().into_iter().find(|(n, _)| base.starts_with(n)).unwrap_or_else(|| mc_core::machinery_error("replay: unknown base configuration"));
    let m = ClockMachine::new(cond, false);
    let mut st = m.init();
    println!("root  {:?}", st.clock);
    let hist: Vec<Op> = case.get("history").and_then(|h| h.as_array()).map(|a| a.iter().filter_map(|x| x.as_str().and_then(op_parse)).collect()).unwrap_or_default();
    for op in &hist {
        match m.step(&mut st, op) {
            Ok(c) => println!("{op:?} -> {c}  {:?}", st.clock),
            Err((k, w)) => {
                println!("{op:?} -> VIOLATION {k}: {w}");
                ctx.violation(k, w, case.clone());
                break;
            }
        }
    }
    ctx.finish(Level::ModelChecking, "replay", 0, false, Map::new(), &[])
}

pub fn run(ctx: Ctx) -> ! {
    if ctx.replay.is_some() {
        replay(ctx);
    }
    let configs = configs();
    let (full_depth, reduced_depth) = ctx.pick((4usize, 5usize), (6, 8));
    let mut total = BfsStats::default();
    let mut per_run = vec![];
    let budget = ctx.pick(55.0, 1100.0);
    // full alphabets first: if the wall cap ever cuts the run, it cuts the deeper sub-alphabet exploration
    for (reduced, depth) in [(false, full_depth), (true, reduced_depth)] {
        for (name, cond) in configs.iter() {
            let m = ClockMachine::new(cond.clone(), reduced);
            {
                // root state sanity: the invariant relating both clocks holds at genesis
                let st = m.init();
                if let Err((k, w)) = transition_invariants(&st.clock, &st.clock, "root") {
                    ctx.violation(k, w, json!({"base": name, "history": []}));
                }
            }
            let remaining = (budget - ctx.elapsed_s()).max(1.0);
            let tag = format!("{name}{}", if reduced { "/reduced-alphabet(leader 0, consistent gaps)" } else { "/full-alphabet" });
            let s = bfs(&ctx, &m, &tag, depth, 5_000_000, remaining);
            per_run.push(json!({"config": tag, "depth": depth, "states": s.states, "transitions": s.transitions, "depth_completed": s.depth_completed, "capped": s.capped}));
            total.add(&s);
        }
    }
    let mut cov = total.coverage();
    cov.insert("runs".into(), json!(per_run));
    cov.insert(
        "alphabet".into(),
        json!("Query | next_round(round ∈ {r−1,r,r+1,r+2,u64::MAX} × ts ∈ {t−1,t,t+1,t+59999,t+60000,i64::MAX} ms × gaps {consistent,inconsistent} × leader {0,1,invalid})"),
    );
    let exhaustive = !total.capped;
    ctx.finish(
        Level::ModelChecking,
        "breadth-first over all sequences of the alphabet up to the depth, from two genesis configurations (round-count- and duration-triggered epoch change, 2 validators); every transaction runs on the real engine as a system transaction with the validator proof; the clock state is read back from the stored substates and compared with the reference after every transaction; a state is non-trivial when its (epoch, round, timestamp, minute, epoch starts) tuple is new",
        total.states,
        exhaustive,
        cov,
        &[
            "states that differ only in leader / proposal statistics are merged (the clock logic does not read them)",
            "minute-precision comparisons with instants before 1970 are judged only where rounding down and rounding toward zero agree",
            "a failed round change that moves the clock forward would be reported as a class, not a violation (C02 decides that)",
        ],
    )
}
