//! Depth-first explicit-state explorer for machines whose histories are long (20+ transactions) and whose
//! state space is finite by construction (budgets + terminal states), so that `mc_core::bfs` — which
//! rebuilds every frontier state by replaying its whole history — would spend most of its time replaying.
//!
//! Work is split into independent *items* (a start state + the history prefix that reached it); every item
//! is explored sequentially with its own seen-set, keeping one forked state per level of the current path
//! (memory = path length × snapshot). Items run in parallel and their results are merged in item order, so
//! counts are identical between runs (no shared mutable search state). The same `Machine` trait as the
//! breadth-first explorer is used (`ops`, `step`, `fingerprint`, `fork`, `terminal`).
use mc_core::{catch, last_panic_location, BfsStats, Ctx, Local, Machine};
use serde_json::json;
use std::collections::HashSet;
use std::sync::atomic::{AtomicBool, Ordering};
use std::time::Instant;

/// Optional refinement: operations that are *expected* to leave the state untouched (e.g. a resubmission
/// that the reference model says must be rejected) may be executed directly on the parent state instead of
/// on a fork. If such an operation reports a violation the parent is no longer trustworthy and the item is
/// abandoned (the violation is reported; exit status is 1 anyway).
pub trait InPlace: Machine {
    fn in_place(&self, _st: &Self::St, _op: &Self::Op) -> bool {
        false
    }
}

pub struct Item<M: Machine> {
    pub tag: String,
    pub prefix: Vec<M::Op>,
    pub start: M::St,
}

pub struct ItemResult {
    pub local: Local,
    pub stats: BfsStats,
}

struct Frame<M: Machine> {
    st: Option<M::St>,
    ops: Vec<M::Op>,
    next: usize,
}

/// Explore one item to fixpoint (or until `stop` is raised). `op_code` renders an op for replay files.
pub fn explore_item<M: InPlace>(
    m: &M,
    item: Item<M>,
    op_code: &(dyn Fn(&M::Op) -> String + Sync),
    stop: &AtomicBool,
    deadline: Instant,
) -> ItemResult {
    let mut local = Local::new();
    let mut stats = BfsStats::default();
    let mut seen: HashSet<Vec<u8>> = HashSet::new();
    seen.insert(m.fingerprint(&item.start));
    stats.states = 1;
    let base_depth = item.prefix.len();
    let mut path: Vec<M::Op> = vec![];
    let prefix = item.prefix.clone();
    let tag = item.tag.clone();
    // Opens a frame: enumerates the enabled operations, runs the in-place ones on the state itself and keeps
    // the others for forking. Err(()) = an in-place operation reported a violation (item abandoned).
    let open = |mut st: M::St, depth: usize, path: &Vec<M::Op>, local: &mut Local, stats: &mut BfsStats| -> Result<Frame<M>, ()> {
        let all = m.ops(&st, depth);
        stats.alphabet_max = stats.alphabet_max.max(all.len());
        let mut rest = vec![];
        for op in all {
            if !m.in_place(&st, &op) {
                rest.push(op);
                continue;
            }
            let r = catch(|| m.step(&mut st, &op));
            stats.transitions += 1;
            local.evals += 1;
            let history = || -> Vec<String> { prefix.iter().chain(path.iter()).chain(std::iter::once(&op)).map(|o| op_code(o)).collect() };
            match r {
                Ok(Ok(class)) => local.class(&class),
                Ok(Err((key, what))) => {
                    local.violation(key, what, json!({"base": tag, "history": history()}));
                    return Err(());
                }
                Err(p) => {
                    local.violation(format!("harness-panic@{}", last_panic_location()), format!("harness step panicked: {p}"), json!({"base": tag, "history": history()}));
                    return Err(());
                }
            }
        }
        Ok(Frame { st: Some(st), ops: rest, next: 0 })
    };
    let mut stack: Vec<Frame<M>> = vec![];
    if !m.terminal(&item.start) {
        match open(item.start, base_depth, &path, &mut local, &mut stats) {
            Ok(f) => stack.push(f),
            Err(()) => {
                stats.depth_completed = 0;
                return ItemResult { local, stats };
            }
        }
    }
    let mut abandoned = false;
    while let Some(top) = stack.last_mut() {
        if top.next >= top.ops.len() {
            stack.pop();
            path.pop();
            continue;
        }
        if stop.load(Ordering::Relaxed) || Instant::now() > deadline {
            stop.store(true, Ordering::Relaxed);
            stats.capped = true;
            break;
        }
        let i = top.next;
        top.next += 1;
        let op = top.ops[i].clone();
        let last = top.next >= top.ops.len();
        let mut child = if last {
            top.st.take().unwrap()
        } else {
            match m.fork(top.st.as_ref().unwrap()) {
                Some(c) => c,
                None => mc_core::machinery_error("explore_item needs Machine::fork"),
            }
        };
        let r = catch(|| m.step(&mut child, &op));
        stats.transitions += 1;
        local.evals += 1;
        let depth = base_depth + path.len() + 1;
        let history = |path: &Vec<M::Op>, op: &M::Op| -> Vec<String> {
            prefix.iter().chain(path.iter()).chain(std::iter::once(op)).map(|o| op_code(o)).collect()
        };
        match r {
            Ok(Ok(class)) => {
                local.class(&class);
                let fp = m.fingerprint(&child);
                if seen.insert(fp) {
                    stats.states += 1;
                    stats.max_depth = stats.max_depth.max(depth);
                    while stats.per_depth_states.len() <= depth {
                        stats.per_depth_states.push(0);
                    }
                    stats.per_depth_states[depth] += 1;
                    local.sample(|| json!({"base": tag, "history": history(&path, &op), "last_observation": class}));
                    if m.terminal(&child) {
                        stats.leaves += 1;
                    } else {
                        path.push(op);
                        match open(child, depth, &path, &mut local, &mut stats) {
                            Ok(f) if f.ops.is_empty() => {
                                stats.leaves += 1;
                                path.pop();
                            }
                            Ok(f) => stack.push(f),
                            Err(()) => {
                                abandoned = true;
                                break;
                            }
                        }
                    }
                }
            }
            Ok(Err((key, what))) => {
                local.violation(key, what, json!({"base": tag, "history": history(&path, &op)}));
            }
            Err(p) => {
                local.violation(
                    format!("harness-panic@{}", last_panic_location()),
                    format!("harness step panicked: {p}"),
                    json!({"base": tag, "history": history(&path, &op)}),
                );
            }
        }
    }
    let _ = abandoned;
    stats.depth_completed = if stats.capped { 0 } else { stats.max_depth };
    ItemResult { local, stats }
}

/// Explore all items in parallel; merge locals into ctx in item order; return the summed statistics.
pub fn explore_all<M: InPlace>(ctx: &Ctx, m: &M, items: Vec<Item<M>>, op_code: &(dyn Fn(&M::Op) -> String + Sync), wall_cap_s: f64) -> BfsStats
where
    M::St: Send,
{
    let stop = AtomicBool::new(false);
    let deadline = Instant::now() + std::time::Duration::from_secs_f64(wall_cap_s);
    let slots: Vec<std::sync::Mutex<Option<Item<M>>>> = items.into_iter().map(|i| std::sync::Mutex::new(Some(i))).collect();
    let results = mc_core::par_map(ctx.threads, &slots, |slot| {
        let item = slot.lock().unwrap().take().unwrap();
        if stop.load(Ordering::Relaxed) {
            let mut stats = BfsStats::default();
            stats.capped = true;
            return ItemResult { local: Local::new(), stats };
        }
        explore_item(m, item, op_code, &stop, deadline)
    });
    let mut total = BfsStats::default();
    let mut min_completed: Option<usize> = None;
    let n_items = results.len();
    let done = results.iter().filter(|r| !r.stats.capped).count();
    if done < n_items {
        ctx.note(format!("wall cap hit: {done} of {n_items} work items were explored to fixpoint (in item order); the others are partial or untouched"));
    }
    for r in results {
        total.states += r.stats.states;
        total.transitions += r.stats.transitions;
        total.max_depth = total.max_depth.max(r.stats.max_depth);
        total.capped |= r.stats.capped;
        total.leaves += r.stats.leaves;
        total.alphabet_max = total.alphabet_max.max(r.stats.alphabet_max);
        for (i, n) in r.stats.per_depth_states.iter().enumerate() {
            while total.per_depth_states.len() <= i {
                total.per_depth_states.push(0);
            }
            total.per_depth_states[i] += n;
        }
        min_completed = Some(min_completed.map_or(r.stats.depth_completed, |x: usize| x.min(r.stats.depth_completed)));
        ctx.merge(r.local);
    }
    total.depth_completed = if total.capped { 0 } else { total.max_depth };
    let _ = min_completed;
    total
}
