//! Helpers shared by the C07 layers: reading / rewriting the replay-protection tracker substate in a
//! *test database* (setup only — the engine is never changed), building real notarized V1 / V2
//! transactions with explicit epoch windows, executing raw transactions through a validator with a
//! scaled `max_epoch_range`, and reading the tracker's partitions back.
use mc_ledger::*;
use radix_engine::system::system_db_reader::{SystemDatabaseReader, SystemDatabaseWriter};
use radix_transactions::validation::*;
use std::collections::BTreeMap;

pub const TRACKER_FIELD: u8 = 0;

pub fn read_tracker(sim: &Sim) -> TransactionTrackerSubstateV1 {
    let reader = SystemDatabaseReader::new(sim.substate_db());
    reader
        .read_typed_object_field::<TransactionTrackerSubstate>(TRANSACTION_TRACKER.as_node_id(), ModuleId::Main, TRACKER_FIELD)
        .unwrap_or_else(|e| mc_core::machinery_error(&format!("cannot read the tracker substate: {e:?}")))
        .into_v1()
}

/// Test-database setup: replace the tracker's field substate (ring parameters live in the substate).
pub fn write_tracker(sim: &mut Sim, t: TransactionTrackerSubstateV1) {
    let mut writer = SystemDatabaseWriter::new(sim.substate_db_mut());
    writer
        .write_typed_object_field(TRANSACTION_TRACKER.as_node_id(), ModuleId::Main, TRACKER_FIELD, TransactionTrackerSubstate::V1(t))
        .unwrap_or_else(|e| mc_core::machinery_error(&format!("cannot write the tracker substate: {e:?}")));
}

pub fn current_epoch(sim: &mut Sim) -> u64 {
    sim.get_consensus_manager_state().epoch.number()
}

/// All readable replay records of one tracker partition: intent hash -> status label.
pub fn partition_entries(sim: &Sim, partition: u8) -> BTreeMap<Hash, String> {
    let reader = SystemDatabaseReader::new(sim.substate_db());
    let mut out = BTreeMap::new();
    for (key, raw) in reader.map_iter(TRANSACTION_TRACKER.as_node_id(), PartitionNumber(partition)) {
        let h: Hash = scrypto_decode(&key).unwrap_or_else(|e| mc_core::machinery_error(&format!("tracker key undecodable: {e:?}")));
        let v: KeyValueEntrySubstate<TransactionStatus> =
            scrypto_decode(&raw).unwrap_or_else(|e| mc_core::machinery_error(&format!("tracker entry undecodable: {e:?}")));
        if let Some(status) = v.into_value() {
            out.insert(h, format!("{:?}", status.into_v1()));
        }
    }
    out
}

/// One epoch = one round-change system transaction (the genesis used here changes epoch on round 1).
/// Returns Err(text) when the transaction did not commit successfully or did not change the epoch.
pub fn next_epoch(sim: &mut Sim) -> Result<TransactionReceipt, String> {
    let before = current_epoch(sim);
    let r = mc_core::catch(|| sim.advance_to_round(Round::of(1))).map_err(|p| format!("round change panicked: {p} @ {}", mc_core::last_panic_location()))?;
    if !is_success(&r) {
        return Err(format!("round change did not succeed: {}", failure_text(&r)));
    }
    let after = current_epoch(sim);
    if after != before + 1 {
        return Err(format!("round change moved the epoch from {before} to {after}"));
    }
    Ok(r)
}

pub fn validator_with_range(max_epoch_range: u64) -> TransactionValidator {
    let mut cfg = TransactionValidationConfig::latest();
    cfg.max_epoch_range = max_epoch_range;
    TransactionValidator::new_with_static_config(cfg, NetworkDefinition::simulator().id)
}

// ------------------------------------------------------------------------------------------------
// real transactions
// ------------------------------------------------------------------------------------------------

fn notary() -> Ed25519PrivateKey {
    Ed25519PrivateKey::from_u64(1337).unwrap()
}
fn signer(n: u64) -> Secp256k1PrivateKey {
    Secp256k1PrivateKey::from_u64(n).unwrap()
}

/// A notarized V1 transaction whose *intent* is a function of (window, nonce, fail) only; `extra_signature`
/// adds a second signer signature: a different transaction (different signed-intent / payload hash)
/// carrying the same intent.
pub fn build_v1(start: u64, end: u64, nonce: u32, fail: bool, extra_signature: bool) -> (RawNotarizedTransaction, TransactionIntentHash) {
    let manifest = if fail {
        ManifestBuilder::new().lock_fee_from_faucet().assert_worktop_contains(XRD, dec!(1)).build()
    } else {
        ManifestBuilder::new().lock_fee_from_faucet().build()
    };
    let mut b = TransactionV1Builder::new()
        .header(TransactionHeaderV1 {
            network_id: NetworkDefinition::simulator().id,
            start_epoch_inclusive: Epoch::of(start),
            end_epoch_exclusive: Epoch::of(end),
            nonce,
            notary_public_key: notary().public_key().into(),
            notary_is_signatory: false,
            tip_percentage: 0,
        })
        .manifest(manifest)
        .sign(&signer(7));
    if extra_signature {
        b = b.sign(&signer(8));
    }
    let tx = b.notarize(&notary()).build();
    let raw = tx.to_raw().unwrap_or_else(|e| mc_core::machinery_error(&format!("v1 encode: {e:?}")));
    let prepared = tx.prepare(PreparationSettings::latest_ref()).unwrap_or_else(|e| mc_core::machinery_error(&format!("v1 prepare: {e:?}")));
    (raw, prepared.transaction_intent_hash())
}

fn header_v2(start: u64, end: u64, discriminator: u64) -> IntentHeaderV2 {
    IntentHeaderV2 {
        network_id: NetworkDefinition::simulator().id,
        start_epoch_inclusive: Epoch::of(start),
        end_epoch_exclusive: Epoch::of(end),
        min_proposer_timestamp_inclusive: None,
        max_proposer_timestamp_exclusive: None,
        intent_discriminator: discriminator,
    }
}

/// A signed subintent (yields to its parent and ends) with its own epoch window.
pub fn build_sub(start: u64, end: u64, discriminator: u64) -> DetailedSignedPartialTransactionV2 {
    PartialTransactionV2Builder::new()
        .intent_header(header_v2(start, end, discriminator))
        .manifest(ManifestBuilder::new_subintent_v2().yield_to_parent(()).build())
        .sign(&signer(9))
        .build()
}

/// A notarized V2 transaction: root intent with window [start,end), one child subintent. With
/// `root_fails` the root fails *after* the child has run to completion (committed failure).
pub fn build_v2(
    start: u64,
    end: u64,
    discriminator: u64,
    child: &DetailedSignedPartialTransactionV2,
    root_fails: bool,
    extra_signature: bool,
) -> (RawNotarizedTransaction, TransactionIntentHash) {
    let mut b = TransactionV2Builder::new()
        .intent_header(header_v2(start, end, discriminator))
        .transaction_header(TransactionHeaderV2 { notary_public_key: notary().public_key().into(), notary_is_signatory: false, tip_basis_points: 0 })
        .add_signed_child("child", child.clone())
        .manifest_builder(|b| {
            let b = b.lock_fee_from_faucet().yield_to_child("child", ());
            if root_fails {
                b.assert_worktop_contains(XRD, dec!(1))
            } else {
                b
            }
        })
        .sign(&signer(7));
    if extra_signature {
        b = b.sign(&signer(8));
    }
    let d = b.notarize(&notary()).build_no_validate();
    (d.raw, d.transaction_hashes.transaction_intent_hash)
}

#[derive(Debug, Clone, PartialEq, Eq)]
pub enum Outcome {
    /// refused by static validation (never reaches the engine)
    Invalid(String),
    Success,
    Failure(String),
    Rejected(String),
    Aborted(String),
    Panicked(String),
}

impl Outcome {
    pub fn committed(&self) -> bool {
        matches!(self, Outcome::Success | Outcome::Failure(_))
    }
    pub fn label(&self) -> String {
        match self {
            Outcome::Invalid(s) => format!("invalid:{s}"),
            Outcome::Success => "commit-success".into(),
            Outcome::Failure(s) => format!("commit-failure:{s}"),
            Outcome::Rejected(s) => format!("reject:{s}"),
            Outcome::Aborted(s) => format!("abort:{s}"),
            Outcome::Panicked(s) => format!("panic:{s}"),
        }
    }
}

/// Submit raw transaction bytes: static validation with `validator`, then the real engine (commit applied
/// to the simulator's database exactly as `execute_notarized_transaction` does).
pub fn submit(sim: &mut Sim, validator: &TransactionValidator, raw: &RawNotarizedTransaction) -> (Outcome, Option<TransactionReceipt>) {
    let validated = match mc_core::catch(|| raw.validate(validator)) {
        Err(p) => return (Outcome::Panicked(format!("validation: {p} @ {}", mc_core::last_panic_location())), None),
        Ok(Err(e)) => return (Outcome::Invalid(error_label(&format!("{e:?}"))), None),
        Ok(Ok(v)) => v,
    };
    let executable = validated.create_executable();
    submit_executable(sim, executable)
}

pub fn submit_executable(sim: &mut Sim, executable: ExecutableTransaction) -> (Outcome, Option<TransactionReceipt>) {
    let r = mc_core::catch(|| sim.execute_transaction(executable, ExecutionConfig::for_notarized_transaction(NetworkDefinition::simulator())));
    match r {
        Err(p) => (Outcome::Panicked(format!("{} @ {}", mc_core::truncate(&p, 160), mc_core::last_panic_location())), None),
        Ok(receipt) => {
            let o = match &receipt.result {
                TransactionResult::Commit(c) => match &c.outcome {
                    TransactionOutcome::Success(_) => Outcome::Success,
                    TransactionOutcome::Failure(e) => Outcome::Failure(variant_path(&format!("{e:?}"), 3)),
                },
                TransactionResult::Reject(rj) => Outcome::Rejected(variant_path(&format!("{:?}", rj.reason), 1)),
                TransactionResult::Abort(a) => Outcome::Aborted(variant_path(&format!("{:?}", a.reason), 1)),
            };
            (o, Some(receipt))
        }
    }
}

/// Last two variant names of a Debug-rendered validation error (hashes and numbers dropped).
pub fn error_label(dbg: &str) -> String {
    let words: Vec<&str> = dbg
        .split(|c: char| !(c.is_ascii_alphanumeric() || c == '_'))
        .filter(|w| w.chars().next().map_or(false, |c| c.is_ascii_uppercase()) && !(w.len() >= 32 && w.chars().all(|c| c.is_ascii_hexdigit())))
        .collect();
    let n = words.len();
    words[n.saturating_sub(2)..].join(":")
}

pub fn sim_from(snap: &Snap) -> Sim {
    LedgerSimulatorBuilder::new().without_kernel_trace().build_from_snapshot(snap.clone())
}
